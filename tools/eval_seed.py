#!/usr/bin/env python3
"""Evaluates one seeded change (dir with patch.diff, demo.py, notes.md) in a scratch worktree and
stores it under /verif/seeded/<name>/ with meta.json.

usage: tools/eval_seed.py <seed_dir> <property_id> [--tier quick] [--baseline] [--checks C05,C02]

Never touches /repo's working tree: the patch is applied in `git worktree add --detach /tmp/evalseed_<pid>`.
"""
import argparse, json, os, re, shutil, subprocess, sys, time

ROOT = os.path.dirname(os.path.dirname(os.path.abspath(__file__)))
BASE = "/venv/bin/python -m pytest -ra -q -p no:cacheprovider --timeout=900 --continue-on-collection-errors"


def sh(cmd, **kw):
    return subprocess.run(cmd, shell=True, capture_output=True, text=True, **kw)


def main():
    ap = argparse.ArgumentParser()
    ap.add_argument("seed_dir")
    ap.add_argument("property")
    ap.add_argument("--tier", default="quick")
    ap.add_argument("--baseline", action="store_true")
    ap.add_argument("--checks", default=None)
    ap.add_argument("--name", default=None)
    a = ap.parse_args()
    d = os.path.abspath(a.seed_dir)
    name = a.name or os.path.basename(d.rstrip("/"))
    checks = (a.checks or a.property).split(",")
    wt = f"/tmp/evalseed_{os.getpid()}"
    r = sh(f"git -C /repo worktree add --detach {wt} HEAD")
    if r.returncode:
        print(r.stderr)
        return 3
    meta = {"name": name, "property": a.property, "evaluated_at_repo_commit": sh("git -C /repo rev-parse --short HEAD").stdout.strip(),
            "evaluated": time.strftime("%Y-%m-%d %H:%M UTC", time.gmtime())}
    try:
        r = sh(f"git -C {wt} apply {d}/patch.diff")
        if r.returncode:
            print("PATCH DOES NOT APPLY", r.stderr)
            return 3
        meta["files_changed"] = sh(f"git -C {wt} diff --stat").stdout.strip().splitlines()[:-1]
        if os.path.exists(f"{d}/demo.py"):
            r0 = sh(f"CIRQ_TREE=/repo /venv/bin/python {d}/demo.py")
            r1 = sh(f"CIRQ_TREE={wt} /venv/bin/python {d}/demo.py")
            meta["demo"] = {"exit_on_unchanged_tree": r0.returncode, "exit_with_change": r1.returncode,
                            "cmd": "CIRQ_TREE=<tree> /venv/bin/python demo.py"}
            print(f"demo: unchanged exit {r0.returncode}, seeded exit {r1.returncode}")
        if a.baseline:
            r = sh(f"cd {wt} && {BASE} 2>&1 | tail -1")
            meta["pinned_suite_with_change"] = r.stdout.strip()
            print("baseline:", r.stdout.strip())
        meta["checks"] = {}
        for cid in checks:
            t0 = time.time()
            r = sh(f"cd {ROOT} && VERIF_REPO={wt} timeout 3000 ./check {cid} --tier {a.tier}")
            out = [l for l in r.stdout.splitlines() if "WARNING" not in l]
            viol = [l for l in out if l.startswith("VIOLATION")]
            stages = sorted({m.group(1) for l in out for m in [re.search(r"stage=(\S+)", l)] if m})
            first = next((l for l in out if l.startswith(f"[{cid}] ") and "stage=" not in l and "stage " not in l and "OK tier" not in l), "")
            meta["checks"][cid] = {"tier": a.tier, "exit": r.returncode, "violation_lines": len(viol), "stages_reporting": stages,
                                   "first_message": first[:400], "wall_s": round(time.time() - t0, 1),
                                   "cmd": f"VERIF_REPO=<worktree with patch> ./check {cid} --tier {a.tier}"}
            print(f"check {cid}: exit {r.returncode}, {len(viol)} VIOLATION lines, stages {stages}")
    finally:
        sh(f"git -C /repo worktree remove --force {wt}")
    dest = os.path.join(ROOT, "seeded", name)
    os.makedirs(dest, exist_ok=True)
    for f in ("patch.diff", "demo.py", "notes.md"):
        if os.path.exists(f"{d}/{f}") and os.path.abspath(d) != os.path.abspath(dest):
            shutil.copy(f"{d}/{f}", dest)
    notes = open(f"{dest}/notes.md").read() if os.path.exists(f"{dest}/notes.md") else ""
    meta["needs_to_manifest"] = notes[:1500]
    meta["detected"] = any(c["exit"] == 1 and c["violation_lines"] > 0 for c in meta["checks"].values())
    # merge with an earlier meta (keep history of evaluations)
    mp = f"{dest}/meta.json"
    if os.path.exists(mp):
        old = json.load(open(mp))
        hist = old.get("history", [])
        hist.append({k: old.get(k) for k in ("evaluated", "evaluated_at_repo_commit", "checks", "detected")})
        meta["history"] = hist
        for k in ("pinned_suite_with_change",):
            if k not in meta and k in old:
                meta[k] = old[k]
    json.dump(meta, open(mp, "w"), indent=1)
    print("stored", dest, "detected =", meta["detected"])
    return 0


if __name__ == "__main__":
    sys.exit(main())
