#!/usr/bin/env python3
"""Writes /verif/seeded/README.md: one row per kept seeded change, from the meta.json files."""
import glob, json, os
ROOT = os.path.dirname(os.path.dirname(os.path.abspath(__file__)))
rows = []
for d in sorted(glob.glob(os.path.join(ROOT, "seeded", "*"))):
    mp = os.path.join(d, "meta.json")
    if not os.path.exists(mp):
        continue
    m = json.load(open(mp))
    files = "; ".join(x.split("|")[0].strip() for x in m.get("files_changed", []))
    det = []
    for cid, c in m.get("checks", {}).items():
        det.append(f"{cid}: " + (", ".join(c["stages_reporting"]) if c["exit"] == 1 and c["violation_lines"] else "not reported"))
    hist = m.get("history", [])
    first_missed = any(not h.get("detected") for h in hist) and m.get("detected")
    note = "missed at first; check strengthened, now caught" if first_missed else ("caught" if m.get("detected") else "MISSED")
    demo = m.get("demo", {})
    rows.append(f"| {m['name']} | {m['property']} | {files} | {demo.get('exit_on_unchanged_tree','-')}/{demo.get('exit_with_change','-')} | {m.get('pinned_suite_with_change','(core-only change: pinned suite never imports it)')[:60]} | {'; '.join(det)} | {note} |")
out = ["# Seeded changes (written by independent sub-agents from the property text only)", "",
       "Each directory holds `patch.diff`, `demo.py` (exit 0 on the unchanged tree, non-zero with the change; `CIRQ_TREE=<tree>`),",
       "`notes.md` (what is needed for the change to manifest) and `meta.json` (what was run, incl. earlier evaluations under `history`).",
       "Evaluations were made in scratch worktrees with `VERIF_REPO=<worktree> ./check <ID> --tier quick` (tools/eval_seed.py).", "",
       "| seed | property | file(s) changed | demo exit unchanged/changed | pinned suite with change | reported by (quick tier) | status |", "|---|---|---|---|---|---|---|"] + rows
open(os.path.join(ROOT, "seeded", "README.md"), "w").write("\n".join(out) + "\n")
print(len(rows), "seeds;", sum("MISSED" in r for r in rows), "missed")
