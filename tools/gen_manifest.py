#!/usr/bin/env python3
"""Regenerates /verif/MANIFEST.json from the table below (checks that exist under checks/)."""
import glob, json, os, sys

ROOT = os.path.dirname(os.path.dirname(os.path.abspath(__file__)))
BASELINE = "cd /repo && /venv/bin/python -m pytest -ra -q -p no:cacheprovider --timeout=900 --continue-on-collection-errors"

# id -> (category, technique, text, note, design_ref)
TABLE = {
 "C05": ("model_checking",
         "explicit-state BFS over call histories on the live Circuit object, state-hash dedup, reference-model + differential oracle on every transition",
         "All histories up to the stated depth over the event alphabet (every mutator/query of Circuit with all 5 insert strategies, clamped indices, op trees) are executed on the real object; each transition is checked for well-formedness, conservation, per-qubit/per-key order, documented single-op placement, query agreement and differential replay against a freshly rebuilt equal circuit. Exhaustive within the depth/alphabet bound; not a proof for longer histories.",
         "trusted: numpy/sympy, Moment construction from an op list (used to rebuild the fresh circuit); op values with equal repr are interchangeable",
         "DESIGN.md section 4 C05"),
}

def main():
    props = [json.loads(l) for l in open(os.path.join(ROOT, "properties.jsonl"))]
    checks, na = [], []
    for p in props:
        pid = p["id"]
        have = glob.glob(os.path.join(ROOT, "checks", pid.lower() + "_*.py"))
        if pid in TABLE and have:
            cat, tech, text, note, ref = TABLE[pid]
            checks.append({
                "property_id": pid,
                "quick_cmd": f"./check {pid} --tier quick",
                "thorough_cmd": f"./check {pid} --tier thorough",
                "evidence_file": f"/verif/evidence/{pid}.json",
                "replay_cmd_template": f"./check {pid} --replay {{path}}",
                "engine": "mc",
                "level_claimed": {"category": cat, "text": text, "design_ref": ref},
                "level_note": note,
                "technique": tech,
            })
        else:
            na.append({"property_id": pid, "reason": "no check registered yet (machinery for this property is still being built; the technique applies, see DESIGN.md section 4)"})
    man = {
        "version": 1,
        "setup_cmd": "mkdir -p /verif/.cache /verif/evidence /verif/replays && /venv/bin/python -c 'import numpy, sympy, networkx'",
        "hooks": {
            "guard": "CIRQ_VERIF",
            "enable": "no source hooks are needed: checks import /repo's working tree via PYTHONPATH and use public seams (seed=/prng= objects, AsyncioExecutor._instance, duet BufferedFuture); ./check exports CIRQ_VERIF=1 for completeness",
            "baseline_off_cmd": BASELINE,
            "source_commits": [],
            "add_only": True,
        },
        "engines": [
            {"name": "mc", "path": "/verif/mc", "serves_properties": [c["property_id"] for c in checks],
             "kind_free_text": "hand-written bounded-exhaustive explorer for Python: case-space enumerator on a fork pool, stateless choice-DFS (scripted PRNG / schedulers), explicit-state BFS with state hashing; all run the real Cirq code from /repo's working tree"},
        ],
        "checks": checks,
        "not_applicable": na,
        "notes": "Every check: ./check <ID> --tier quick|thorough; replay: ./check <ID> --replay <file>. Evidence is rewritten on every run. Repairs of genuine defects are 'fix:' commits in /repo, listed in /verif/known_findings.json.",
    }
    with open(os.path.join(ROOT, "MANIFEST.json"), "w") as f:
        json.dump(man, f, indent=1)
    print("checks:", [c["property_id"] for c in checks], "not claimed:", [n["property_id"] for n in na])

if __name__ == "__main__":
    main()
