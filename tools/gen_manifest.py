#!/usr/bin/env python3
"""Regenerates /verif/MANIFEST.json from the table below (checks that exist under checks/)."""
import glob, json, os, sys

ROOT = os.path.dirname(os.path.dirname(os.path.abspath(__file__)))
BASELINE = "cd /repo && /venv/bin/python -m pytest -ra -q -p no:cacheprovider --timeout=900 --continue-on-collection-errors"

import ast


def module_consts(path):
    """Reads PROPERTY/LEVEL/TECHNIQUE/LEVEL_TEXT/LEVEL_NOTE string constants from a check module without importing it."""
    tree = ast.parse(open(path).read())
    out = {}
    for node in tree.body:
        if isinstance(node, ast.Assign) and len(node.targets) == 1 and isinstance(node.targets[0], ast.Name):
            try:
                out[node.targets[0].id] = ast.literal_eval(node.value)
            except Exception:
                pass
    return out


def main():
    props = [json.loads(l) for l in open(os.path.join(ROOT, "properties.jsonl"))]
    checks, na = [], []
    ready = set(open(os.path.join(ROOT, "tools", "ready.txt")).read().split())
    for p in props:
        pid = p["id"]
        have = glob.glob(os.path.join(ROOT, "checks", pid.lower() + "_*.py"))
        consts = module_consts(have[0]) if have else {}
        if have and pid in ready and all(k in consts for k in ("LEVEL", "TECHNIQUE", "LEVEL_TEXT", "LEVEL_NOTE")):
            cat, tech, text, note, ref = consts["LEVEL"], consts["TECHNIQUE"], consts["LEVEL_TEXT"], consts["LEVEL_NOTE"], f"DESIGN.md section 4, {pid}"
            checks.append({
                "property_id": pid,
                "quick_cmd": f"./check {pid} --tier quick",
                "thorough_cmd": f"./check {pid} --tier thorough",
                "evidence_file": f"/verif/evidence/{pid}.json",
                "replay_cmd_template": f"./check {pid} --replay {{path}}",
                "engine": "mc",
                "level_claimed": {"category": cat, "text": text, "design_ref": ref},
                "level_note": note,
                "technique": tech,
            })
        else:
            na.append({"property_id": pid, "reason": "no check registered yet (machinery for this property is still being built; the technique applies, see DESIGN.md section 4)"})
    man = {
        "version": 1,
        "setup_cmd": "mkdir -p /verif/.cache /verif/evidence /verif/replays && /venv/bin/python -c 'import numpy, sympy, networkx'",
        "hooks": {
            "guard": "CIRQ_VERIF",
            "enable": "no source hooks are needed: checks import /repo's working tree via PYTHONPATH and use public seams (seed=/prng= objects, AsyncioExecutor._instance, duet BufferedFuture); ./check exports CIRQ_VERIF=1 for completeness",
            "baseline_off_cmd": BASELINE,
            "source_commits": [],
            "add_only": True,
        },
        "engines": [
            {"name": "mc", "path": "/verif/mc", "serves_properties": [c["property_id"] for c in checks],
             "kind_free_text": "hand-written bounded-exhaustive explorer for Python: case-space enumerator on a fork pool, stateless choice-DFS (scripted PRNG / schedulers), explicit-state BFS with state hashing; all run the real Cirq code from /repo's working tree"},
        ],
        "checks": checks,
        "not_applicable": na,
        "notes": "Every check: ./check <ID> --tier quick|thorough; replay: ./check <ID> --replay <file>. Evidence is rewritten on every run. Repairs of genuine defects are 'fix:' commits in /repo, listed in /verif/known_findings.json.",
    }
    with open(os.path.join(ROOT, "MANIFEST.json"), "w") as f:
        json.dump(man, f, indent=1)
    print("checks:", [c["property_id"] for c in checks], "not claimed:", [n["property_id"] for n in na])

if __name__ == "__main__":
    main()
