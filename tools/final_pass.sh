#!/bin/bash
# Re-runs every registered quick command on /repo (sequentially), then validates MANIFEST and evidence against the schemas.
cd "$(dirname "$0")/.."
log=${1:-/tmp/final_pass.log}
: > $log
for id in C01 C02 C03 C04 C05 C06 C07 C08 C09 C10 C11 C12 C13 C14 C15 C16 C17 C18 C19 C20; do
  t0=$(date +%s)
  VERIF_SEED=${VERIF_SEED:-0} ./check $id --tier quick > /tmp/final_$id.log 2>&1
  rc=$?
  nv=$(grep -c '^VIOLATION' /tmp/final_$id.log)
  nk=$(grep -c '^KNOWN-FINDING' /tmp/final_$id.log)
  echo "$id exit=$rc violations=$nv known=$nk wall=$(( $(date +%s) - t0 ))s" | tee -a $log
done
python3-vt - <<'PY' | tee -a $log
import json, glob, jsonschema
m = json.load(open('/verif/MANIFEST.json'))
jsonschema.validate(m, json.load(open('/root/.vp/MANIFEST.schema.json')))
es = json.load(open('/root/.vp/EVIDENCE.schema.json'))
n = 0
for f in sorted(glob.glob('/verif/evidence/*.json')):
    e = json.load(open(f)); jsonschema.validate(e, es); n += 1
    assert e['violations'] == 0, f
    assert e['tier'] == 'quick', (f, e['tier'])
print('schemas ok: manifest +', n, 'evidence files')
PY
