#!/bin/bash
# usage: tools/try_seed.sh <dir with patch.diff [demo.py]> <tier> <ID> [<ID>...]
# Applies the seeded change in a scratch worktree (never /repo), runs demo.py on both trees, then the given checks.
d="$(cd "$1" && pwd)"; tier="$2"; shift 2
wt=/tmp/tryseed_$$
git -C /repo worktree add --detach $wt HEAD >/dev/null 2>&1 || exit 3
trap "git -C /repo worktree remove --force $wt >/dev/null 2>&1" EXIT
if ! git -C $wt apply "$d/patch.diff"; then echo "PATCH DOES NOT APPLY"; exit 3; fi
if [ -f "$d/demo.py" ]; then
  CIRQ_TREE=/repo /venv/bin/python "$d/demo.py" >/dev/null 2>&1; echo "demo on /repo: exit $?"
  CIRQ_TREE=$wt /venv/bin/python "$d/demo.py" >/dev/null 2>&1; echo "demo on seeded tree: exit $?"
fi
cd /verif
for id in "$@"; do
  out=$(VERIF_REPO=$wt timeout 3000 ./check $id --tier $tier 2>&1 | grep -v WARNING)
  echo "check $id: $(echo "$out" | grep -c '^VIOLATION') VIOLATION lines; $(echo "$out" | grep -E '^\[C[0-9]+\] (OK|HARNESS)' | head -1)"
  echo "$out" | grep -B4 '^VIOLATION' | head -14
done
