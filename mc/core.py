"""Shared runner for the bounded-exhaustive checks (engine E1 of DESIGN.md).

A check module (checks/cXX_*.py) exposes

    PROPERTY = "C01"
    LEVEL    = "exploration" | "model_checking"
    RULE     = "<how cases are enumerated / what is non-trivial>"
    ASSUMPTIONS = [...]
    def stages(tier, seed) -> list[Stage]

A `CaseStage` owns a *finite list of case descriptors* (small picklable/JSON-able values, ordered
simplest first) and a function `run(case)`.  The runner evaluates `run` on EVERY descriptor (fork
pool, contiguous chunks) -- nothing is sampled.  `run` returns

    None                      -> property held, case counted as non-trivial
    Res(ok, nontrivial, ...)  -> explicit
    str                       -> violation message

and any exception escaping `run` is a violation ("unexpected exception") unless it is a
`HarnessError` (exit 2).  A `CustomStage` runs its own search (BFS/DFS) and returns a StageResult.

Every violation is written to a replay file and re-executed in a fresh interpreter before it is
reported (soundness rule 4 of DESIGN.md).
"""
from __future__ import annotations

import hashlib
import json
import multiprocessing as mp
import os
import subprocess
import sys
import time
import traceback
from typing import Any, Callable, Dict, List, Optional, Sequence

ROOT = os.path.dirname(os.path.dirname(os.path.abspath(__file__)))
def _default_nproc():
    n = min(16, os.cpu_count() or 1)
    try:
        load = os.getloadavg()[0]
    except OSError:
        load = 0.0
    if load > 2 * n:  # shared, overloaded machine (several checks at once): do not make it worse
        n = max(4, int(n * n / load))
    return n


NPROC = int(os.environ.get("VERIF_NPROC", "0")) or _default_nproc()


class HarnessError(Exception):
    """The harness (not Cirq) is at fault; exit code 2, never a VIOLATION."""


class Res:
    __slots__ = ("ok", "nontrivial", "msg", "sig", "counters", "skipped")

    def __init__(self, ok=True, nontrivial=True, msg="", sig=None, counters=None, skipped=False):
        self.ok = ok
        self.nontrivial = nontrivial
        self.msg = msg
        self.sig = sig or {}
        self.counters = counters or {}
        self.skipped = skipped


def bad(msg, **sig):
    return Res(ok=False, msg=msg, sig=sig)


def good(nontrivial=True, **counters):
    return Res(ok=True, nontrivial=nontrivial, counters=counters)


def jsonable(x):
    """Best-effort conversion of a case descriptor into JSON (for replay files / samples)."""
    import numpy as np

    if isinstance(x, (str, int, float, bool)) or x is None:
        return x
    if isinstance(x, complex):
        return {"complex": [x.real, x.imag]}
    if isinstance(x, (list, tuple)):
        return [jsonable(y) for y in x]
    if isinstance(x, dict):
        return {str(k): jsonable(v) for k, v in x.items()}
    if isinstance(x, (np.integer,)):
        return int(x)
    if isinstance(x, (np.floating,)):
        return float(x)
    if isinstance(x, np.ndarray):
        return jsonable(x.tolist())
    return repr(x)


def from_json_case(x):
    """Inverse of jsonable for the descriptor shapes the checks use (lists -> tuples)."""
    if isinstance(x, list):
        return tuple(from_json_case(y) for y in x)
    if isinstance(x, dict):
        if set(x.keys()) == {"complex"}:
            return complex(*x["complex"])
        return {k: from_json_case(v) for k, v in x.items()}
    return x


def case_hash(case) -> bytes:
    return hashlib.blake2b(repr(case).encode(), digest_size=8).digest()


class StageResult:
    def __init__(self, name):
        self.name = name
        self.evaluations = 0
        self.nontrivial_hashes: set = set()
        self.distinct_nontrivial_extra = 0  # for custom stages that count themselves
        self.counters: Dict[str, float] = {}
        self.violations: List[dict] = []  # {case, msg, sig}
        self.samples: List[Any] = []
        self.exhaustive = True
        self.wall_s = 0.0
        self.skipped = 0
        self.note = ""

    def add_counters(self, c):
        for k, v in c.items():
            if k.startswith("max_"):
                self.counters[k] = max(self.counters.get(k, 0), v)
            else:
                self.counters[k] = self.counters.get(k, 0) + v

    @property
    def distinct_nontrivial(self):
        return len(self.nontrivial_hashes) + self.distinct_nontrivial_extra


class Stage:
    name = "stage"

    def execute(self) -> StageResult:
        raise NotImplementedError

    def replay(self, case) -> Res:
        raise NotImplementedError


_CUR: Optional["CaseStage"] = None


def _run_one(stage, case) -> Res:
    try:
        r = stage.run(case)
    except HarnessError:
        raise
    except Exception as e:  # unexpected exception on an accepted input
        tb = traceback.format_exc(limit=12)
        return Res(ok=False, msg=f"unexpected {type(e).__name__}: {e}\n{tb}",
                   sig={"exception": type(e).__name__})
    if r is None:
        return Res()
    if isinstance(r, str):
        return Res(ok=False, msg=r)
    return r


def _worker(rng):
    lo, hi = rng
    stage = _CUR
    n = 0
    hashes = []
    counters: Dict[str, float] = {}
    viols = []
    persig = {}
    skipped = 0
    if stage.reset is not None:
        stage.reset()
    for i in range(lo, hi):
        case = stage.cases[i]
        r = _run_one(stage, case)
        n += 1
        if r.skipped:
            skipped += 1
        if r.nontrivial and not r.skipped:
            hashes.append(case_hash((stage.name, case)))
        for k, v in r.counters.items():
            if k.startswith("max_"):
                counters[k] = max(counters.get(k, 0), v)
            else:
                counters[k] = counters.get(k, 0) + v
        if not r.ok:
            # keep the first few violations PER SIGNATURE so known findings cannot crowd out a new one
            sk = repr(sorted((r.sig or {}).items(), key=repr))
            persig[sk] = persig.get(sk, 0) + 1
            if persig[sk] <= 3 and len(viols) < 200:
                viols.append({"index": i, "case": jsonable(case), "msg": r.msg[:4000], "sig": jsonable(r.sig)})
    return n, b"".join(hashes), counters, viols, skipped


class CaseStage(Stage):
    """Exhaustive evaluation of run(case) over a finite list of case descriptors."""

    def __init__(self, name: str, cases: Sequence, run: Callable[[Any], Any], reset=None,
                 describe: Optional[Callable[[Any], Any]] = None, chunk: Optional[int] = None,
                 serial: bool = False):
        self.name = name
        self.cases = cases if isinstance(cases, list) else list(cases)
        self.run = run
        self.reset = reset
        self.describe = describe
        self.chunk = chunk
        self.serial = serial

    def execute(self) -> StageResult:
        global _CUR
        t0 = time.time()
        res = StageResult(self.name)
        n = len(self.cases)
        if n == 0:
            res.wall_s = 0.0
            return res
        nproc = 1 if (self.serial or n < 8) else NPROC
        chunk = self.chunk or max(1, min(2000, n // (nproc * 8) or 1))
        ranges = [(lo, min(n, lo + chunk)) for lo in range(0, n, chunk)]
        _CUR = self
        if nproc == 1:
            outs = map(_worker, ranges)
            pool = None
        else:
            pool = mp.get_context("fork").Pool(nproc)
            outs = pool.imap_unordered(_worker, ranges)
        try:
            for cnt, hs, counters, viols, skipped in outs:
                res.evaluations += cnt
                res.skipped += skipped
                for j in range(0, len(hs), 8):
                    res.nontrivial_hashes.add(hs[j:j + 8])
                res.add_counters(counters)
                res.violations.extend(viols)
        finally:
            if pool is not None:
                pool.close()
                pool.join()
            _CUR = None
        res.violations.sort(key=lambda v: v["index"])
        desc = self.describe or (lambda c: c)
        idxs = sorted({0, n // 2, n - 1})
        res.samples = [jsonable(desc(self.cases[i])) for i in idxs]
        res.wall_s = time.time() - t0
        return res

    def replay(self, case) -> Res:
        if self.reset is not None:
            self.reset()
        r = _run_one(self, case)
        if r.ok:
            # A defect that corrupts state shared between calls (e.g. an input array consumed by the code under
            # test) only shows on the second execution: run the case once more in the same process.
            r2 = _run_one(self, case)
            if not r2.ok:
                r2.msg = "(on the second execution of the same case in one process) " + r2.msg
                return r2
        return r


class CustomStage(Stage):
    """A stage that runs its own exhaustive search (BFS over states, DFS over schedules)."""

    def __init__(self, name, execute_fn: Callable[[], StageResult], replay_fn: Callable[[Any], Res]):
        self.name = name
        self._execute = execute_fn
        self._replay = replay_fn

    def execute(self) -> StageResult:
        t0 = time.time()
        r = self._execute()
        r.name = self.name
        r.wall_s = time.time() - t0
        return r

    def replay(self, case) -> Res:
        try:
            r = self._replay(case)
        except HarnessError:
            raise
        except Exception as e:
            return Res(ok=False, msg=f"unexpected {type(e).__name__}: {e}\n{traceback.format_exc(limit=12)}",
                       sig={"exception": type(e).__name__})
        if r is None:
            return Res()
        if isinstance(r, str):
            return Res(ok=False, msg=r)
        return r


def pmap(fn: Callable[[Any], Any], items: Sequence, chunk: int = 1):
    """Exhaustive parallel map used by custom stages (fork pool; fn must be a module-level function)."""
    items = list(items)
    if len(items) < 4 or NPROC == 1:
        return [fn(x) for x in items]
    with mp.get_context("fork").Pool(NPROC) as pool:
        return pool.map(fn, items, chunksize=chunk)


# ---------------------------------------------------------------------------------------------
# known findings


def load_known(property_id):
    path = os.path.join(ROOT, "known_findings.json")
    if not os.path.exists(path):
        return []
    data = json.load(open(path))
    return [e for e in data.get("known", []) if e.get("property") == property_id]


def matches_known(entry, stage, viol) -> bool:
    m = entry.get("match", {})
    if "stage" in m and m["stage"] != stage:
        return False
    sig = viol.get("sig", {}) or {}
    for k, v in m.items():
        if k == "stage":
            continue
        if k == "case":
            if jsonable(v) != viol.get("case"):
                return False
            continue
        if k == "msg_contains":
            if v not in viol.get("msg", ""):
                return False
            continue
        if sig.get(k) != v:
            return False
    return True


# ---------------------------------------------------------------------------------------------
# environment assertions


def assert_repo_imports():
    import cirq
    import cirq_google
    import cirq_ionq
    import cirq_aqt
    import cirq_pasqal

    root = os.path.abspath(os.environ.get("VERIF_REPO", "/repo")).rstrip("/") + "/"
    for m in (cirq, cirq_google, cirq_ionq, cirq_aqt, cirq_pasqal):
        if not os.path.abspath(m.__file__).startswith(root):
            raise HarnessError(f"{m.__name__} imported from {m.__file__}, not from {root}")


def seed_from_env() -> int:
    try:
        return int(os.environ.get("VERIF_SEED", "0"))
    except ValueError:
        return 0


GENERIC_POOL = [0.37, 0.3, 1.23, -0.61, 0.123456, 0.77, -1.31]


def generic(seed: int, k: int = 0) -> float:
    """Seed-selected generic real representative (vetted pool; never selects *which* cases run)."""
    return GENERIC_POOL[(seed + k) % len(GENERIC_POOL)]
