"""E5: a virtual asyncio event loop the explorer steps by hand (no selector, no threads, no wall clock).

`VLoop` runs ready handles one at a time (`step()`) or to quiescence (`quiesce()`); timers fire
only when the explorer advances the virtual clock.  `VExecutor` mimics
cirq_google.engine.asyncio_executor.AsyncioExecutor on top of it (submit -> future with
result()/done()/cancel()), so the real StreamManager coroutines run single-threaded under the
explorer's control.
"""
from __future__ import annotations

import asyncio
import heapq
from asyncio import events

from mc.core import HarnessError


class VLoop(asyncio.BaseEventLoop):
    def __init__(self):
        super().__init__()
        self._vt = 0.0
        self.handles_run = 0
        self.tasks = []  # every task created on this loop (asyncio.all_tasks scans a global set: too slow)
        self.set_task_factory(self._factory)

    def _factory(self, loop, coro, **kw):
        t = asyncio.Task(coro, loop=loop, **kw)
        self.tasks.append(t)
        return t

    def live_tasks(self):
        return [t for t in self.tasks if not t.done()]

    def time(self):
        return self._vt

    def _process_events(self, event_list):  # pragma: no cover - no selector
        pass

    def _write_to_self(self):
        pass

    def ready_count(self):
        return sum(1 for h in self._ready if not h._cancelled)

    def step(self) -> bool:
        """Runs exactly one ready, non-cancelled handle.  Returns False if none is ready."""
        while self._ready:
            h = self._ready.popleft()
            if h._cancelled:
                continue
            h._run()
            self.handles_run += 1
            return True
        return False

    def fire_timers(self) -> bool:
        """Advances the virtual clock to the earliest timer and makes it ready."""
        while self._scheduled and self._scheduled[0]._cancelled:
            heapq.heappop(self._scheduled)
        if not self._scheduled:
            return False
        t = self._scheduled[0]._when
        self._vt = max(self._vt, t)
        while self._scheduled and self._scheduled[0]._when <= self._vt:
            h = heapq.heappop(self._scheduled)
            h._scheduled = False
            if not h._cancelled:
                self._ready.append(h)
        return True

    def quiesce(self, limit=100000):
        n = 0
        while self.step():
            n += 1
            if n > limit:
                raise HarnessError("livelock: loop did not quiesce")
        return n


class VFuture:
    """What AsyncioExecutor.submit returns, as far as StreamManager and its callers use it."""

    def __init__(self, loop: VLoop, task: asyncio.Task):
        self.loop = loop
        self.task = task

    def result(self, timeout=None):
        self.loop.quiesce()
        if not self.task.done():
            raise HarnessError("VFuture.result() on a task that cannot finish without environment events")
        return self.task.result()

    def done(self):
        return self.task.done()

    def cancel(self):
        return self.task.cancel()

    def cancelled(self):
        return self.task.cancelled()

    def exception(self):
        return self.task.exception()

    def __await__(self):
        return self.task.__await__()


class VExecutor:
    def __init__(self, loop: VLoop):
        self.loop = loop

    def submit(self, func, *args, **kwargs):
        return VFuture(self.loop, self.loop.create_task(func(*args, **kwargs)))


def install(loop: VLoop):
    events._set_running_loop(loop)


def uninstall():
    events._set_running_loop(None)
