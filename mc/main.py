"""./check <ID> [--tier quick|thorough] [--replay file] [--stage name] -- runner front end."""
from __future__ import annotations

import argparse
import glob
import hashlib
import importlib
import json
import os
import subprocess
import sys
import time

from mc import core


def find_module(pid: str):
    pat = os.path.join(core.ROOT, "checks", pid.lower() + "_*.py")
    hits = sorted(glob.glob(pat))
    if not hits:
        raise core.HarnessError(f"no check module for {pid} ({pat})")
    name = os.path.splitext(os.path.basename(hits[0]))[0]
    return importlib.import_module("checks." + name)


def write_evidence(mod, tier, seed, results, wall, n_viol, known_lines):
    level = mod.LEVEL
    cov = {}
    cov["evaluations"] = int(sum(r.evaluations for r in results))
    cov["distinct_nontrivial"] = int(sum(r.distinct_nontrivial for r in results))
    cov["rule"] = mod.RULE
    samples = []
    for r in results:
        for s in r.samples[:3]:
            samples.append({"stage": r.name, "case": s})
    cov["samples"] = samples
    cov["exhaustive"] = all(r.exhaustive for r in results)
    cov["skipped_rejected_inputs"] = int(sum(r.skipped for r in results))
    merged = {}
    for r in results:
        for k, v in r.counters.items():
            if k.startswith("max_"):
                merged[k] = max(merged.get(k, 0), v)
            else:
                merged[k] = merged.get(k, 0) + v
    if level == "model_checking":
        cov["states"] = int(merged.get("states", 0))
        cov["transitions"] = int(merged.get("transitions", 0))
        cov["traces_validated_against_impl"] = int(merged.get("traces_validated_against_impl", merged.get("transitions", 0)))
    for k, v in merged.items():
        if k not in cov:
            cov[k] = int(v) if float(v).is_integer() else v
    cov["stages"] = {
        r.name: {
            "evaluations": int(r.evaluations),
            "distinct_nontrivial": int(r.distinct_nontrivial),
            "violations": len(r.violations),
            "exhaustive": r.exhaustive,
            "wall_s": round(r.wall_s, 2),
            **({"note": r.note} if r.note else {}),
            **{k: (int(v) if float(v).is_integer() else v) for k, v in r.counters.items()},
        }
        for r in results
    }
    if known_lines:
        cov["known_findings_reported"] = known_lines
    ev = {
        "property_id": mod.PROPERTY,
        "tier": tier,
        "seed": seed,
        "level": level,
        "coverage": cov,
        "assumptions": list(getattr(mod, "ASSUMPTIONS", [])),
        "wall_s": round(wall, 2),
        "violations": n_viol,
    }
    path = os.path.join(core.ROOT, "evidence", mod.PROPERTY + ".json")
    tmp = path + ".tmp"
    with open(tmp, "w") as f:
        json.dump(ev, f, indent=1)
    os.replace(tmp, path)
    return path


def main(argv=None):
    ap = argparse.ArgumentParser()
    ap.add_argument("property")
    ap.add_argument("--tier", default=None)
    ap.add_argument("--replay", default=None)
    ap.add_argument("--stage", default=None, help="run only stages whose name contains this (debug; evidence not written)")
    ap.add_argument("--no-confirm", action="store_true")
    ap.add_argument("--dump-violations", default=None, help="write every captured violation (stage, case, sig, msg) to this JSON file (debug)")
    args = ap.parse_args(argv)
    pid = args.property.upper()
    t0 = time.time()
    try:
        core.assert_repo_imports()
        mod = find_module(pid)
        if args.replay:
            return replay(mod, args.replay)
        tier = args.tier or os.environ.get("VERIF_TIER") or "quick"
        if tier not in ("quick", "thorough"):
            tier = "quick"
        seed = core.seed_from_env()
        stages = mod.stages(tier, seed)
        if args.stage:
            stages = [s for s in stages if args.stage in s.name]
        results = []
        harness_errors = []
        for st in stages:
            try:
                r = st.execute()
            except core.HarnessError as e:
                # keep what earlier stages found: a defect can make later explorations diverge
                harness_errors.append(f"stage {st.name}: {e}")
                print(f"[{pid}] HARNESS ERROR in stage {st.name}: {e}", flush=True)
                continue
            results.append(r)
            print(f"[{pid}] stage {r.name}: evaluations={r.evaluations} distinct_nontrivial={r.distinct_nontrivial} "
                  f"violations={len(r.violations)} skipped={r.skipped} exhaustive={r.exhaustive} "
                  f"wall={r.wall_s:.1f}s " + " ".join(f"{k}={int(v) if float(v).is_integer() else round(v,4)}" for k, v in sorted(r.counters.items())),
                  flush=True)
        if args.dump_violations:
            with open(args.dump_violations, "w") as f:
                json.dump([{"stage": r.name, "case": v["case"], "sig": v.get("sig", {}), "msg": v["msg"][:600]} for r in results for v in r.violations], f, indent=1)
        known = core.load_known(pid)
        known_lines = []
        new_viols = []
        for r in results:
            for v in r.violations:
                hit = next((e for e in known if core.matches_known(e, r.name, v)), None)
                if hit is not None:
                    line = f"KNOWN-FINDING: property={pid} {hit.get('what','')}"
                    if line not in known_lines:
                        known_lines.append(line)
                else:
                    new_viols.append((r.name, v))
        for line in known_lines:
            print(line)
        reported = []
        for stage_name, v in new_viols[:3]:
            rp = {"property": pid, "tier": tier, "seed": seed, "stage": stage_name, "case": v["case"],
                  "msg": v["msg"], "sig": v.get("sig", {})}
            h = hashlib.blake2b(json.dumps([stage_name, v["case"]], sort_keys=True).encode(), digest_size=6).hexdigest()
            path = os.path.join(core.ROOT, "replays", f"{pid}-{h}.json")
            with open(path, "w") as f:
                json.dump(rp, f, indent=1)
            if args.no_confirm:
                confirmed = True
            else:
                env = dict(os.environ)
                env["VERIF_SEED"] = str(seed)
                p = subprocess.run([os.path.join(core.ROOT, "check"), pid, "--replay", path],
                                   capture_output=True, text=True, env=env)
                confirmed = p.returncode == 1
                if not confirmed:
                    print(f"[{pid}] UNREPRODUCED in fresh process (exit {p.returncode}): stage={stage_name} case={v['case']}\n{p.stdout[-2000:]}\n{p.stderr[-2000:]}")
            if confirmed:
                reported.append((path, stage_name, v))
        wall = time.time() - t0
        if not args.stage and not harness_errors:
            write_evidence(mod, tier, seed, results, wall, len(new_viols), known_lines)
        if new_viols and not reported:
            print(f"[{pid}] harness error: violations seen in the pool did not reproduce in a fresh process")
            return 2
        if harness_errors and not reported:
            return 2
        for path, stage_name, v in reported:
            print(f"[{pid}] stage={stage_name} case={json.dumps(v['case'])[:1500]}")
            print(f"[{pid}] {v['msg'][:3000]}")
            print(f"VIOLATION property={pid} replay={path}")
        if reported:
            return 1
        print(f"[{pid}] OK tier={tier} seed={seed} evaluations={sum(r.evaluations for r in results)} wall={wall:.1f}s")
        return 0
    except core.HarnessError as e:
        print(f"[{pid}] HARNESS ERROR: {e}")
        return 2


def replay(mod, path):
    rp = json.load(open(path))
    pid = mod.PROPERTY
    os.environ["VERIF_SEED"] = str(rp.get("seed", 0))
    stages = mod.stages(rp.get("tier", "quick"), int(rp.get("seed", 0)))
    st = next((s for s in stages if s.name == rp["stage"]), None)
    if st is None:
        raise core.HarnessError(f"stage {rp['stage']} not found")
    case = core.from_json_case(rp["case"])
    r = st.replay(case)
    if r.ok:
        print(f"[{pid}] replay {path}: property holds on this case")
        return 0
    v = {"case": rp["case"], "msg": r.msg, "sig": core.jsonable(r.sig)}
    for e in core.load_known(pid):
        if core.matches_known(e, rp["stage"], v):
            print(f"KNOWN-FINDING: property={pid} {e.get('what','')}")
            return 0
    print(f"[{pid}] {r.msg[:3000]}")
    print(f"VIOLATION property={pid} replay={path}")
    return 1


if __name__ == "__main__":
    sys.exit(main())
