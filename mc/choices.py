"""E2: stateless choice-DFS.  `explore(run)` enumerates EVERY sequence of answers a harness can give.

`run(chooser)` must be deterministic given the chooser's answers and must build a *fresh* system
under test each time (live coroutines / simulators are never copied).  A choice point is
`chooser.choose(n, label, weights=None, costs=None)`; alternatives are explored depth-first by
replaying the prefix.  Replay divergence (a different n / label at a replayed point) is a hard
harness error.  `costs[i]` is the number of *deviations* option i costs (default 0); paths whose
total exceeds `bound` are not generated.
"""
from __future__ import annotations

from typing import Callable, Iterator, List, Optional, Sequence, Tuple

from mc.core import HarnessError


class Chooser:
    def __init__(self, prefix: Sequence[Tuple[int, int, str]] = ()):
        self._prefix = list(prefix)  # (choice, n, label) expected at replayed points
        self.pos = 0
        self.trace: List[Tuple[int, int, str, Optional[tuple]]] = []  # (n, choice, label, costs)
        self.weight = 1.0
        self.deviations = 0

    def choose(self, n: int, label: str = "", weights=None, costs=None) -> int:
        if n <= 0:
            raise HarnessError(f"choice point {label!r} with no options")
        if self.pos < len(self._prefix):
            c, en, el = self._prefix[self.pos]
            if en != n or el != label:
                raise HarnessError(f"replay divergence at point {self.pos}: expected ({en},{el!r}) got ({n},{label!r})")
        else:
            c = 0
        self.pos += 1
        self.trace.append((n, c, label, tuple(costs) if costs is not None else None))
        if weights is not None:
            self.weight *= float(weights[c])
        if costs is not None:
            self.deviations += costs[c]
        return c

    @property
    def choices(self):
        return [t[1] for t in self.trace]


def explore(run: Callable[[Chooser], object], bound: Optional[int] = None, max_paths: Optional[int] = None,
            prefix: Sequence[Tuple[int, int, str]] = ()) -> Iterator[Tuple[Chooser, object]]:
    """Yields (chooser, result) for every complete path.  Raises HarnessError if max_paths is exceeded."""
    stack = [list(prefix)]
    n_paths = 0
    while stack:
        pre = stack.pop()
        ch = Chooser(pre)
        out = run(ch)
        if ch.pos < len(pre):
            raise HarnessError("replay divergence: execution ended before the replayed prefix was consumed")
        n_paths += 1
        if max_paths is not None and n_paths > max_paths:
            raise HarnessError(f"path cap {max_paths} exceeded")
        yield ch, out
        dev = 0
        devs = []
        for (n, c, label, costs) in ch.trace:
            devs.append(dev)
            if costs is not None:
                dev += costs[c]
        for i in range(len(ch.trace) - 1, len(pre) - 1, -1):
            n, c, label, costs = ch.trace[i]
            for alt in range(n - 1, 0, -1):
                if bound is not None:
                    cost = devs[i] + (costs[alt] if costs is not None else 0)
                    if cost > bound:
                        continue
                stack.append([(t[1], t[0], t[2]) for t in ch.trace[:i]] + [(alt, n, label)])


def count_paths(run, **kw) -> int:
    return sum(1 for _ in explore(run, **kw))
