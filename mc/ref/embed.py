"""Reference linear algebra, written from scratch with plain numpy (no cirq protocol is called here).

Conventions: big-endian.  A register of n qudits with shape (d0, .., d_{n-1}) has basis index
i = ((i0*d1 + i1)*d2 + i2)...; wire 0 is the most significant digit.
"""
from __future__ import annotations

import itertools
from typing import Sequence

import numpy as np


def embed(mat: np.ndarray, targets: Sequence[int], shape: Sequence[int]) -> np.ndarray:
    """Matrix on the full register that applies `mat` on wires `targets` (in that order) and identity elsewhere."""
    shape = tuple(int(d) for d in shape)
    n = len(shape)
    targets = list(targets)
    k = len(targets)
    tshape = tuple(shape[t] for t in targets)
    dk = int(np.prod(tshape)) if k else 1
    mat = np.asarray(mat, dtype=np.complex128).reshape(dk, dk)
    D = int(np.prod(shape)) if n else 1
    out = np.zeros((D, D), dtype=np.complex128)
    rest = [w for w in range(n) if w not in targets]
    # strides for the big-endian index
    strides = [1] * n
    for w in range(n - 2, -1, -1):
        strides[w] = strides[w + 1] * shape[w + 1]
    tidx = list(itertools.product(*[range(shape[t]) for t in targets])) if k else [()]
    ridx = list(itertools.product(*[range(shape[r]) for r in rest])) if rest else [()]
    for rv in ridx:
        base = sum(v * strides[w] for v, w in zip(rv, rest))
        offs = [base + sum(v * strides[w] for v, w in zip(tv, targets)) for tv in tidx]
        for a, ia in enumerate(offs):
            for b, ib in enumerate(offs):
                out[ia, ib] = mat[a, b]
    return out


def apply_ops(ops: Sequence[tuple], shape: Sequence[int]) -> np.ndarray:
    """ops: sequence of (matrix, targets) in time order -> total matrix (later ops multiply from the left)."""
    D = int(np.prod(shape)) if len(shape) else 1
    U = np.eye(D, dtype=np.complex128)
    for mat, targets in ops:
        U = embed(mat, targets, shape) @ U
    return U


def permute_wires(perm: Sequence[int], shape: Sequence[int]) -> np.ndarray:
    """Permutation matrix P with P|i_0..i_{n-1}> = |j_0..j_{n-1}> where j_{perm[w]} = i_w
    (the content of wire w moves to wire perm[w]); shape is the shape BEFORE the move."""
    shape = tuple(shape)
    n = len(shape)
    new_shape = [0] * n
    for w in range(n):
        new_shape[perm[w]] = shape[w]
    D = int(np.prod(shape)) if n else 1
    P = np.zeros((D, D), dtype=np.complex128)
    for idx in itertools.product(*[range(d) for d in shape]):
        j = [0] * n
        for w in range(n):
            j[perm[w]] = idx[w]
        src = 0
        for w in range(n):
            src = src * shape[w] + idx[w]
        dst = 0
        for w in range(n):
            dst = dst * new_shape[w] + j[w]
        P[dst, src] = 1
    return P


def partial_trace(rho: np.ndarray, keep: Sequence[int], shape: Sequence[int]) -> np.ndarray:
    shape = tuple(shape)
    n = len(shape)
    t = np.asarray(rho, dtype=np.complex128).reshape(shape + shape)
    keep = list(keep)
    drop = [w for w in range(n) if w not in keep]
    # trace out the dropped wires one by one (highest index first so axes stay valid)
    cur_n = n
    cur_wires = list(range(n))
    for w in sorted(drop, reverse=True):
        pos = cur_wires.index(w)
        t = np.trace(t, axis1=pos, axis2=pos + cur_n)
        cur_wires.pop(pos)
        cur_n -= 1
    # reorder remaining wires into `keep` order
    order = [cur_wires.index(w) for w in keep]
    t = np.transpose(t, order + [o + cur_n for o in order])
    d = int(np.prod([shape[w] for w in keep])) if keep else 1
    return t.reshape(d, d)


def kron(*mats):
    out = np.eye(1, dtype=np.complex128)
    for m in mats:
        out = np.kron(out, np.asarray(m, dtype=np.complex128))
    return out


def phase_of(ref: np.ndarray, got: np.ndarray) -> complex:
    """Phase factor f (|f|=1) that best aligns got with ref at ref's largest entry (f*got ~ ref)."""
    ref = np.asarray(ref)
    got = np.asarray(got)
    i = int(np.argmax(np.abs(ref)))
    r = ref.flat[i]
    g = got.flat[i]
    if abs(g) < 1e-12 or abs(r) < 1e-12:
        return 1.0
    f = (r / g)
    return f / abs(f)


def eq_up_to_phase(ref, got, atol=1e-7) -> bool:
    ref = np.asarray(ref)
    got = np.asarray(got)
    if ref.shape != got.shape:
        return False
    return bool(np.allclose(ref, phase_of(ref, got) * got, atol=atol, rtol=0))


def eq_exact(ref, got, atol=1e-7) -> bool:
    ref = np.asarray(ref)
    got = np.asarray(got)
    if ref.shape != got.shape:
        return False
    return bool(np.allclose(ref, got, atol=atol, rtol=0))


def kraus_to_super(kraus) -> np.ndarray:
    """Superoperator sum_k K (x) K* in the row-major vec convention: vec(K rho K^dag) = (K (x) K*) vec(rho)."""
    kraus = [np.asarray(k, dtype=np.complex128) for k in kraus]
    return sum(np.kron(k, k.conj()) for k in kraus)


def apply_kraus(rho, kraus, targets, shape):
    out = np.zeros_like(np.asarray(rho, dtype=np.complex128))
    for k in kraus:
        K = embed(k, targets, shape)
        out = out + K @ rho @ K.conj().T
    return out


def basis_state(index_digits: Sequence[int], shape: Sequence[int]) -> np.ndarray:
    D = int(np.prod(shape)) if len(shape) else 1
    i = 0
    for d, v in zip(shape, index_digits):
        i = i * d + v
    v = np.zeros(D, dtype=np.complex128)
    v[i] = 1
    return v


def generic_unitary(dim: int, seed: int) -> np.ndarray:
    """Deterministic generic unitary (QR of a fixed pseudo-random complex matrix)."""
    rng = np.random.RandomState(1000 + seed)
    m = rng.randn(dim, dim) + 1j * rng.randn(dim, dim)
    q, r = np.linalg.qr(m)
    d = np.diag(r)
    return q * (d / np.abs(d))


def generic_state(dim: int, seed: int) -> np.ndarray:
    rng = np.random.RandomState(2000 + seed)
    v = rng.randn(dim) + 1j * rng.randn(dim)
    return v / np.linalg.norm(v)


def _self_test():
    X = np.array([[0, 1], [1, 0]], dtype=complex)
    Z = np.diag([1, -1]).astype(complex)
    I = np.eye(2)
    assert np.allclose(embed(X, [0], (2, 2)), np.kron(X, I))
    assert np.allclose(embed(X, [1], (2, 2)), np.kron(I, X))
    CNOT = np.array([[1, 0, 0, 0], [0, 1, 0, 0], [0, 0, 0, 1], [0, 0, 1, 0]], dtype=complex)
    # CNOT with control wire 1 and target wire 0
    M = embed(CNOT, [1, 0], (2, 2))
    v = basis_state((0, 1), (2, 2))
    assert np.allclose(M @ v, basis_state((1, 1), (2, 2)))
    # non-adjacent on 3 wires incl. qutrit in the middle
    M = embed(CNOT, [0, 2], (2, 3, 2))
    assert np.allclose(M @ basis_state((1, 2, 0), (2, 3, 2)), basis_state((1, 2, 1), (2, 3, 2)))
    P = permute_wires([1, 0], (2, 3))
    assert np.allclose(P @ basis_state((1, 2), (2, 3)), basis_state((2, 1), (3, 2)))
    rho = np.outer(basis_state((1, 2), (2, 3)), basis_state((1, 2), (2, 3)).conj())
    assert np.allclose(partial_trace(rho, [1], (2, 3)), np.diag([0, 0, 1]))
    assert np.allclose(partial_trace(rho, [1, 0], (2, 3)), P @ rho @ P.T)
    assert np.allclose(embed(np.kron(X, Z), [0, 1], (2, 2)), np.kron(X, Z))
    assert np.allclose(embed(np.kron(X, Z), [1, 0], (2, 2)), np.kron(Z, X))


_self_test()
