"""Reference material for C15 (analytical decompositions): finite stand-ins for "all unitaries" and
independent reference predicates.  Plain numpy only -- no cirq object or protocol is used here.

Conventions: big-endian (first qubit = most significant index digit).
Two-qubit elements are K1 . exp(i(x XX + y YY + z ZZ)) . K2 with known (x, y, z), so the reference Weyl
class (canonical coordinates, minimal CZ count, minimal sqrt-iSWAP count) is known *by construction*.
"""
from __future__ import annotations

import itertools
import math

import numpy as np

from mc.ref import embed as E
from mc.ref import gates as G

C = np.complex128
PI = math.pi
I2 = np.eye(2, dtype=C)
X = np.array([[0, 1], [1, 0]], dtype=C)
Y = np.array([[0, -1j], [1j, 0]], dtype=C)
Z = np.array([[1, 0], [0, -1]], dtype=C)
H = np.array([[1, 1], [1, -1]], dtype=C) / math.sqrt(2)
S = np.diag([1, 1j]).astype(C)
XX = np.kron(X, X)
YY = np.kron(Y, Y)
ZZ = np.kron(Z, Z)
MAGIC = np.array([[1, 0, 0, 1j], [0, 1j, 1, 0], [0, 1j, -1, 0], [1, 0, 0, -1j]], dtype=C) / math.sqrt(2)


def dag(m):
    return np.asarray(m).conj().T


def rz(a):
    return np.array([[np.exp(-0.5j * a), 0], [0, np.exp(0.5j * a)]], dtype=C)


def ry(a):
    c, s = math.cos(a / 2), math.sin(a / 2)
    return np.array([[c, -s], [s, c]], dtype=C)


def rx(a):
    c, s = math.cos(a / 2), math.sin(a / 2)
    return np.array([[c, -1j * s], [-1j * s, c]], dtype=C)


def interaction(x, y, z):
    """exp(i(x XX + y YY + z ZZ)) in closed form (the three terms commute)."""
    I4 = np.eye(4, dtype=C)
    out = I4
    for c, P in ((x, XX), (y, YY), (z, ZZ)):
        out = out @ (math.cos(c) * I4 + 1j * math.sin(c) * P)
    return out


def is_unitary(m, tol=1e-9):
    m = np.asarray(m)
    return m.ndim == 2 and m.shape[0] == m.shape[1] and bool(
        np.allclose(m @ dag(m), np.eye(m.shape[0]), atol=tol, rtol=0))


def phase_err(ref, got):
    """min over unit f of max|ref - f*got| (f from the Hilbert-Schmidt overlap)."""
    ref = np.asarray(ref, dtype=C)
    got = np.asarray(got, dtype=C)
    if ref.shape != got.shape:
        return float("inf")
    ov = np.vdot(got, ref)
    f = ov / abs(ov) if abs(ov) > 1e-12 else 1.0
    return float(np.max(np.abs(ref - f * got)))


def exact_err(ref, got):
    ref = np.asarray(ref, dtype=C)
    got = np.asarray(got, dtype=C)
    if ref.shape != got.shape:
        return float("inf")
    return float(np.max(np.abs(ref - got))) if ref.size else 0.0


# ------------------------------------------------------------------------------------------------
# single-qubit set S1


def cliffords_1q():
    """The 24 single-qubit Cliffords (mod phase), closure of {H, S}; first non-zero entry real positive."""

    def norm(m):
        k = next(i for i in range(4) if abs(m.flat[i]) > 1e-9)
        m = m * (abs(m.flat[k]) / m.flat[k])
        return m

    def key(m):
        return tuple(np.round(m, 6).flatten().tolist())

    seen = {}
    frontier = [norm(I2)]
    seen[key(frontier[0])] = frontier[0]
    order = [frontier[0]]
    while frontier:
        nxt = []
        for m in frontier:
            for g in (H, S):
                c = norm(g @ m)
                k = key(c + 0.0)
                if k not in seen:
                    seen[k] = c
                    order.append(c)
                    nxt.append(c)
        frontier = nxt
    assert len(order) == 24, len(order)
    return order


CLIFF = cliffords_1q()
ZYZ_FIXED = (0.0, PI / 2, PI, None, PI - 1e-7)   # None -> generic (seed selected)
EPS = (1e-9, 1e-7, 1e-5)


def herm(k):
    hs = [X, Z, (X + Y + Z) / math.sqrt(3), np.array([[0.3, 0.4 - 0.2j], [0.4 + 0.2j, -0.7]], dtype=C)]
    return hs[k]


N_HERM = 4


def expi(h, eps):
    w, v = np.linalg.eigh(h)
    return (v * np.exp(1j * eps * w)) @ dag(v)


def s1_descs(tier="quick"):
    d = [("c", i, p, 0) for p in range(8) for i in range(24)]
    d += [("z", a, b, c) for a in range(5) for b in range(5) for c in range(5)]
    d += [("e", k, h, 0) for k in range(len(EPS)) for h in range(N_HERM)]
    return d


def s1_matrix(desc, gen):
    """gen: tuple of 3 generic reals."""
    kind, a, b, c = desc
    if kind == "c":
        return CLIFF[a] * np.exp(1j * PI * b / 4)
    if kind == "z":
        ang = [ZYZ_FIXED[i] if ZYZ_FIXED[i] is not None else gen[j] for j, i in enumerate((a, b, c))]
        return rz(ang[0]) @ ry(ang[1]) @ rz(ang[2])
    if kind == "e":
        return expi(herm(b), EPS[a])
    raise ValueError(desc)


def s1_small(gen):
    """A 40-element subset of S1 (SU(2)-normalised where asked by the caller)."""
    d = [("c", i, (i % 3), 0) for i in range(24)]
    d += [("z", a, b, c) for (a, b, c) in ((3, 3, 3), (0, 1, 3), (3, 2, 0), (4, 4, 4), (2, 3, 1), (3, 0, 0), (1, 4, 3), (0, 2, 0))]
    d += [("e", k, h, 0) for k in range(3) for h in (0, 3)]
    d += [("z", 3, 4, 3), ("z", 0, 4, 0)]
    return d


def to_su2(m):
    d = np.linalg.det(m)
    return m / np.sqrt(d)


# ------------------------------------------------------------------------------------------------
# local factors for S2


def locals_list(seed):
    g1 = E.generic_unitary(2, 10 + seed)
    g2 = E.generic_unitary(2, 20 + seed)
    out = [np.kron(I2, I2)]
    out += [np.kron(c, I2) for c in CLIFF]
    out += [np.kron(H, S), np.kron(g1, g2)]
    return out


LOC_I = 0
LOC_HS = 25
LOC_GEN = 26
LOC_CLIFF_Q = (2, 5, 9, 12, 17, 23)  # indices into CLIFF used in the quick tier


# ------------------------------------------------------------------------------------------------
# Weyl lattice, perturbed points, named gates

GRID6 = (-2, -1, 0, 1, 2, 3)  # units of pi/8
UNIT = PI / 8
DELTA = 1e-7

# chamber vertices / edge midpoints (units of pi/8), all canonical
BASE_INT = [(0, 0, 0), (2, 0, 0), (2, 2, 0), (2, 2, 2), (1, 0, 0), (1, 1, 0), (1, 1, 1), (2, 1, 0), (2, 2, 1),
            (2, 1, 1), (1, 1, -1), (2, 1, 1)]
BASE_INT = list(dict.fromkeys(BASE_INT))
# generic points on faces: z=0, x=pi/4, x=y, y=z, y=-z, x=y+|z| (both signs of z)
BASE_FLOAT = [(0.6, 0.3, 0.0), (PI / 4, 0.5, 0.2), (0.5, 0.5, 0.2), (0.6, 0.3, 0.3), (0.6, 0.3, -0.3),
              (0.6, 0.4, 0.2), (0.6, 0.4, -0.2), (PI / 4, 0.5, 0.0), (PI / 4, PI / 4, 0.3)]
BASES = [tuple(k * UNIT for k in b) for b in BASE_INT] + BASE_FLOAT
SIGNS = [s for s in itertools.product((-1, 0, 1), repeat=3) if any(s)]


def scramble(v, mode):
    """Equivalent presentations of the same local-equivalence class."""
    x, y, z = v
    if mode == 0:
        return (x, y, z)
    if mode == 1:
        return (-y, z + PI / 2, -x)
    if mode == 2:
        return (z - PI / 2, x, y + PI)
    raise ValueError(mode)


def named_gates(seed, gen):
    """(name, matrix, raw Weyl vector).  Matrices from the closed forms of mc/ref/gates.py."""
    g = gen[0]
    out = [
        ("I", np.eye(4, dtype=C), (0, 0, 0)),
        ("CNOT", G.cxpow(1), (PI / 4, 0, 0)),
        ("CZ", G.czpow(1), (PI / 4, 0, 0)),
        ("SWAP", G.swappow(1), (PI / 4, PI / 4, PI / 4)),
        ("ISWAP", G.iswappow(1), (PI / 4, PI / 4, 0)),
        ("SQRT_ISWAP", G.iswappow(0.5), (PI / 8, PI / 8, 0)),
        ("SQRT_ISWAP_INV", G.iswappow(-0.5), (-PI / 8, -PI / 8, 0)),
        ("SYC", G.fsim(PI / 2, PI / 6), (-PI / 4, -PI / 4, -PI / 24)),
        ("diag(1,1,-1,-1)", np.diag([1, 1, -1, -1]).astype(C), (0, 0, 0)),
        ("i*I", 1j * np.eye(4, dtype=C), (0, 0, 0)),
        ("e^{ig}*I", np.exp(1j * g) * np.eye(4, dtype=C), (0, 0, 0)),
        ("-CZ", -G.czpow(1), (PI / 4, 0, 0)),
        ("sqrtSWAP", G.swappow(0.5), (-PI / 8, -PI / 8, -PI / 8)),
        ("SWAP^-0.5", G.swappow(-0.5), (PI / 8, PI / 8, PI / 8)),
    ]
    for th in (0.0, PI / 4, PI / 2, g):
        for ph in (0.0, PI / 2, PI, -g / 2):
            if th == 0.0 and ph == 0.0:
                continue
            out.append((f"FSim({th:.4g},{ph:.4g})", G.fsim(th, ph), (-th / 2, -th / 2, -ph / 4)))
    for t in (0.5, -0.25, g, 1e-7, 1 - 1e-7):
        out.append((f"CZ**{t:.8g}", G.czpow(t), (0, 0, PI * t / 4)))
    for t in (0.5, g, 1.0, 1.5):
        out.append((f"XX**{t:.4g}", G.xxpow(t), (-PI * t / 2, 0, 0)))
        out.append((f"YY**{t:.4g}", G.yypow(t), (0, -PI * t / 2, 0)))
        out.append((f"ZZ**{t:.4g}", G.zzpow(t), (0, 0, -PI * t / 2)))
    return out


def makhlin(u):
    ub = dag(MAGIC) @ u @ MAGIC
    m = ub.T @ ub
    d = np.linalg.det(u)
    t = np.trace(m)
    return np.array([t * t / (16 * d), (t * t - np.trace(m @ m)) / (4 * d)])


N_GENERIC = 13


def generic_points(gen):
    a, b, c = (abs(t) % (PI / 4) for t in gen)
    # the last two sit 2e-6 below the x = pi/4 face with z < 0: 200x the documented 1e-8 window in which z may be flipped
    return [(0.61, 0.37, 0.11), (0.7, 0.45, -0.3), (0.33, 0.29, 0.2), (gen[0], gen[1], gen[2]), (0.3, 0.2, 0.05),
            (PI / 4 - 2e-6, 0.5, -0.2), (PI / 4 - 2e-6, PI / 4 - 2e-6, -(PI / 4 - 2e-6)),
            # 2e-3 away from class boundaries (just outside the 1e-3 ambiguity band): z=0 plane, x=y+|z| face from both
            # sides, identity vertex, CNOT vertex, sqrt-iSWAP point
            (0.4, 0.3, 0.002), (0.5, 0.3, 0.198), (0.5, 0.3, -0.202), (0.002, 0.0015, 0.0), (PI / 4 - 0.002, 0.0015, 0.0),
            (PI / 8 + 0.002, PI / 8 - 0.0015, 0.0)]


# ------------------------------------------------------------------------------------------------
# reference canonicalisation and classes


def canon(v, tol=1e-9):
    """Canonical Weyl coordinates pi/4 >= x >= y >= |z|, z >= 0 if x == pi/4 (within tol)."""
    r = []
    for t in v:
        t = (t + PI / 4) % (PI / 2) - PI / 4       # [-pi/4, pi/4)
        r.append(t)
    r.sort(key=lambda t: -abs(t))
    x, y, z = r
    if x < 0:
        x, z = -x, -z
    if y < 0:
        y, z = -y, -z
    # after the flips |z| <= y <= x still holds; z == -pi/4 can only happen with x == y == pi/4
    if x > PI / 4 - tol and z < 0:
        z = -z
    return (x, y, z)


def canon_int(k):
    """Exact canonicalisation of integer coordinates (units of pi/8)."""
    r = []
    for t in k:
        t = (t + 2) % 4 - 2   # [-2, 2)
        r.append(t)
    r.sort(key=lambda t: -abs(t))
    x, y, z = r
    if x < 0:
        x, z = -x, -z
    if y < 0:
        y, z = -y, -z
    if x == 2 and z < 0:
        z = -z
    return (x, y, z)


def is_canonical(v, tol=1e-8, face_tol=1e-9):
    x, y, z = v
    if not (PI / 4 + tol >= x and x >= y - tol and y >= abs(z) - tol):
        return False
    if x > PI / 4 - face_tol and z < -tol:
        return False
    return True


def cnot_class(vc, tol):
    x, y, z = vc
    if abs(x) <= tol and abs(y) <= tol and abs(z) <= tol:
        return 0
    if abs(x - PI / 4) <= tol and abs(y) <= tol and abs(z) <= tol:
        return 1
    if abs(z) <= tol:
        return 2
    return 3


def sqisw_feasible(vc, n, tol):
    """Can the class be synthesised with exactly n sqrt-iSWAP (tol>0 widens, tol<0 shrinks the closed regions)."""
    x, y, z = vc
    if n == 0:
        return max(abs(x), abs(y), abs(z)) <= tol
    if n == 1:
        return max(abs(x - PI / 8), abs(y - PI / 8), abs(z)) <= tol
    if n == 2:
        return x - y - abs(z) >= -tol
    return True


def classes(vc):
    """Reference classes with robustness: value if unambiguous (same at 1e-10 and 1e-3 scale), else None."""
    lo, hi = 1e-10, 1e-3
    c1, c2 = cnot_class(vc, lo), cnot_class(vc, hi)
    ncnot = c1 if c1 == c2 else None
    feas = []
    for n in range(4):
        f1, f2 = sqisw_feasible(vc, n, lo), sqisw_feasible(vc, n, hi)
        # robustly feasible: feasible with the tiny tolerance; robustly infeasible: infeasible even when widened
        feas.append(True if f1 else (False if not f2 else None))
    nmin = None
    if all(f is not None for f in feas):
        nmin = next(n for n in range(4) if feas[n])
    nonzero = None
    nz1 = sum(abs(t) > lo for t in vc)
    nz2 = sum(abs(t) > hi for t in vc)
    if nz1 == nz2:
        nonzero = nz1
    return {"ncnot": ncnot, "sq_feas": feas, "sq_min": nmin, "nonzero": nonzero}


# ------------------------------------------------------------------------------------------------
# S2 descriptors: (kind, a, b, c, k1, k2)
#   kind 0: lattice point, a,b,c indices into GRID6
#   kind 1: perturbed point, a = base index, b = sign index, c = presentation (scramble mode)
#   kind 2: named gate a
#   kind 3: generic point a, presentation c


class S2:
    def __init__(self, seed, gen):
        self.seed = seed
        self.gen = gen
        self.loc = locals_list(seed)
        self.named = named_gates(seed, gen)
        self.gpts = generic_points(gen)
        for name, m, v in self.named:
            if not is_unitary(m):
                raise AssertionError(name)
            if not np.allclose(makhlin(m), makhlin(interaction(*v)), atol=1e-9):
                raise AssertionError(f"named gate {name}: claimed Weyl vector {v} is wrong")

    def build(self, desc):
        kind, a, b, c, k1, k2 = desc
        exact = False
        if kind == 0:
            ki = (GRID6[a], GRID6[b], GRID6[c])
            v = tuple(t * UNIT for t in ki)
            core = interaction(*v)
            vc = tuple(t * UNIT for t in canon_int(ki))
            exact = True
            name = f"lattice{ki}*pi/8"
        elif kind == 1:
            base = BASES[a]
            s = SIGNS[b]
            v0 = tuple(base[i] + DELTA * s[i] for i in range(3))
            v = scramble(v0, c)
            core = interaction(*v)
            vc = canon(v0)
            name = f"perturbed base={tuple(round(t, 9) for t in base)} + 1e-7*{s} presentation {c}"
        elif kind == 2:
            name, core, v = self.named[a]
            vc = canon(v)
        elif kind == 3:
            v0 = self.gpts[a]
            v = scramble(v0, c)
            core = interaction(*v)
            vc = canon(v0)
            name = f"generic{tuple(round(t, 6) for t in v0)} presentation {c}"
        else:
            raise ValueError(desc)
        u = self.loc[k1] @ core @ self.loc[k2]
        info = {"name": f"{name} K1=#{k1} K2=#{k2}", "v": v, "vc": vc, "exact": exact}
        info.update(classes(vc))
        return u, info


def s2_descs(tier, what="main"):
    """what: 'main' (full set), 'small' (a few hundred, for the expensive routines)."""
    q = tier == "quick"
    cl = [1 + i for i in (LOC_CLIFF_Q if q else range(24))]
    if what == "main":
        pairs = [(k, LOC_I) for k in [LOC_I] + cl + [LOC_HS, LOC_GEN]]
        pairs += [(k1, k2) for k1 in (LOC_I, LOC_HS, LOC_GEN) for k2 in (LOC_HS, LOC_GEN)]
        if not q:
            pairs += [(k, LOC_HS) for k in cl] + [(LOC_I, k) for k in cl[:6]]
        ppairs = [(LOC_I, LOC_I), (LOC_HS, LOC_GEN), (LOC_GEN, LOC_GEN)]
        if not q:
            ppairs += [(cl[3], LOC_I), (LOC_GEN, LOC_HS), (cl[7], cl[11])]
        npairs = [(LOC_I, LOC_I), (LOC_HS, LOC_I), (cl[1], LOC_GEN), (LOC_GEN, LOC_GEN)]
        if not q:
            npairs += [(c, LOC_I) for c in cl[2:8]] + [(LOC_GEN, LOC_HS)]
    else:
        pairs = [(LOC_I, LOC_I), (LOC_GEN, LOC_HS)]
        ppairs = [(LOC_GEN, LOC_GEN)]
        npairs = [(LOC_I, LOC_I), (LOC_GEN, LOC_GEN)]
        if not q:
            pairs += [(cl[2], LOC_I), (LOC_GEN, LOC_GEN)]
            ppairs += [(LOC_I, LOC_I)]
    d = []
    # named first (simplest), then lattice, generic, perturbed
    n_named = len(named_gates(0, (0.37, 0.3, 1.23)))
    for (k1, k2) in npairs:
        d += [(2, a, 0, 0, k1, k2) for a in range(n_named)]
    for (k1, k2) in pairs:
        d += [(0, a, b, c, k1, k2) for a in range(6) for b in range(6) for c in range(6)]
    for (k1, k2) in npairs:
        d += [(3, a, 0, c, k1, k2) for a in range(N_GENERIC) for c in range(3)]
    pres = (0, 1) if (q or what != "main") else (0, 1, 2)
    if what != "main" and q:
        pres = (0,)
    for (k1, k2) in ppairs:
        d += [(1, a, b, c, k1, k2) for a in range(len(BASES)) for b in range(len(SIGNS)) for c in pres]
    return d


# ------------------------------------------------------------------------------------------------
# three-qubit set S3


def s3_list(seed, gen, s2: S2):
    out = [("I8", np.eye(8, dtype=C)), ("CCZ", G.cczpow(1)), ("CCX", G.ccxpow(1)), ("CSWAP", G.cswap()),
           ("QFT3", G.qft(3)), ("e^{ig}I8", np.exp(1j * gen[0]) * np.eye(8, dtype=C))]
    samples = [(2, 1, 0, 0, LOC_I, LOC_I), (2, 3, 0, 0, LOC_I, LOC_I), (2, 4, 0, 0, LOC_HS, LOC_I),
               (2, 5, 0, 0, LOC_I, LOC_I), (2, 7, 0, 0, LOC_GEN, LOC_GEN), (0, 3, 3, 2, LOC_I, LOC_I),
               (0, 4, 4, 4, LOC_GEN, LOC_HS), (0, 3, 3, 0, LOC_HS, LOC_I), (3, 0, 0, 0, LOC_GEN, LOC_GEN),
               (1, 1, 5, 0, LOC_GEN, LOC_GEN), (1, 5, 12, 1, LOC_I, LOC_I), (0, 2, 2, 2, LOC_I, LOC_I)]
    s1 = [I2, H, E.generic_unitary(2, 30 + seed), CLIFF[7]]
    for i, dsc in enumerate(samples):
        u, info = s2.build(dsc)
        l = s1[i % 4]
        out.append((f"{['I','H','gen','C7'][i % 4]} (x) [{info['name']}]", np.kron(l, u)))
        if i % 3 == 0:
            out.append((f"[{info['name']}] (x) {['I','H','gen','C7'][i % 4]}", np.kron(u, l)))
    # block-diagonal multiplexers (u1 (+) u2) and cosine-sine structures with degenerate angles
    g4a = E.generic_unitary(4, 40 + seed)
    g4b = E.generic_unitary(4, 41 + seed)
    cz = G.czpow(1)
    out.append(("mux(g4a,g4b)", G.block_diag(g4a, g4b)))
    out.append(("mux(g4a,g4a)", G.block_diag(g4a, g4a)))
    out.append(("mux(I,CZ)", G.block_diag(np.eye(4, dtype=C), cz)))
    out.append(("mux(SWAP,iSWAP)", G.block_diag(G.swappow(1), G.iswappow(1))))
    for nm, th in (("0000", (0, 0, 0, 0)), ("0,0,pi/2,pi/2", (0, 0, PI / 2, PI / 2)), ("pi/2 x4", (PI / 2,) * 4),
                   ("0,pi/2,g,g", (0, PI / 2, gen[1], gen[1])), ("pi/4 x4", (PI / 4,) * 4), ("generic", (0.3, 0.7, 1.1, gen[2]))):
        cs = np.zeros((8, 8), dtype=C)
        c_ = np.diag(np.cos(th))
        s_ = np.diag(np.sin(th))
        cs[:4, :4] = c_
        cs[:4, 4:] = -s_
        cs[4:, :4] = s_
        cs[4:, 4:] = c_
        out.append((f"CS[{nm}]", cs))
        out.append((f"mux(g4a,g4b).CS[{nm}].mux(g4b,I)", G.block_diag(g4a, g4b) @ cs @ G.block_diag(g4b, np.eye(4, dtype=C))))
    for k in range(3):
        out.append((f"generic8#{k}", E.generic_unitary(8, 50 + seed + 10 * k)))
    out.append(("perm(2,0,1)", G.qubit_permutation((2, 0, 1))))
    out.append(("H(x)H(x)H", E.kron(H, H, H)))
    return out


# ------------------------------------------------------------------------------------------------
# basis-state propagation for circuits of single-qubit gates and (multi-)controlled single-qubit gates


def _apply_controlled_1q(T, n, controls, target, g):
    """In-place: apply the 2x2 matrix g on axis `target` of T in the sub-block where all `controls` axes are 1."""
    i0 = [slice(None)] * (n + 1)
    for c in controls:
        i0[c] = 1
    i1 = list(i0)
    i0[target] = 0
    i1[target] = 1
    i0, i1 = tuple(i0), tuple(i1)
    a, b = T[i0], T[i1]
    g00, g01, g10, g11 = g[0, 0], g[0, 1], g[1, 0], g[1, 1]
    if g01 == 0 and g10 == 0:
        if g00 != 1:
            a *= g00
        if g11 != 1:
            b *= g11
    elif g00 == 0 and g11 == 0 and g01 == 1 and g10 == 1:
        tmp = a.copy()
        a[...] = b
        b[...] = tmp
    else:
        na = g00 * a + g01 * b
        b[...] = g10 * a + g11 * b
        a[...] = na


def propagate_defect(n, gates, inverse_expected, max_cols=1024):
    """gates / inverse_expected: lists of (controls, target, 2x2 matrix) acting on wires 0..n-1 (big-endian).
    Propagates EVERY computational basis state through `gates` followed by `inverse_expected` and returns
    max |result - f * identity| with the best global phase f: 0 iff gates == expected up to global phase."""
    D = 2 ** n
    worst = 0.0
    f = None
    for lo in range(0, D, max_cols):
        hi = min(D, lo + max_cols)
        T = np.zeros((D, hi - lo), dtype=C)
        T[np.arange(lo, hi), np.arange(hi - lo)] = 1
        T = T.reshape((2,) * n + (hi - lo,))
        for controls, target, g in list(gates) + list(inverse_expected):
            _apply_controlled_1q(T, n, controls, target, np.asarray(g, dtype=C))
        M = T.reshape(D, hi - lo)
        diag = M[np.arange(lo, hi), np.arange(hi - lo)]
        if f is None:
            s = diag.sum()
            f = s / abs(s) if abs(s) > 1e-9 else 1.0
        M[np.arange(lo, hi), np.arange(hi - lo)] = diag - f
        worst = max(worst, float(np.max(np.abs(M))))
    return worst
