"""Hand-built value alphabets for check C11 (generator 1).  build(tier, seed) -> {group: [(label, value), ...]}.

Everything is deterministic; `seed` only selects generic real representatives (core.generic).
"""
from __future__ import annotations

import datetime
import itertools

import networkx as nx
import numpy as np
import pandas as pd
import sympy

import cirq
import cirq_google
import cirq_ionq
import cirq_pasqal
import cirq.contrib.acquaintance as cca
import cirq.contrib.bayesian_network as ccb
import cirq.contrib.noise_models as ccn
import cirq.contrib.quantum_volume as ccq

from mc import core

A, B, C = sympy.symbols("a b c")


class Pool:
    def __init__(self):
        self.groups = {}

    def add(self, group, label, obj):
        self.groups.setdefault(group, []).append((label, obj))

    def extend(self, group, items):
        for label, obj in items:
            self.add(group, label, obj)


# ---------------------------------------------------------------------------------------------
# qids


def qid_pool(thorough):
    out = []
    xs = [0, 1, 2, 10, -1, -3, 1000003, 2**40] + ([7, 99, -2**33] if thorough else [])
    for x in xs:
        out.append((f"LineQubit({x})", cirq.LineQubit(x)))
    for x in [0, 1, 2, 10, -1]:
        for d in (1, 2, 3, 5):
            out.append((f"LineQid({x},{d})", cirq.LineQid(x, dimension=d)))
    rc = [(0, 0), (0, 1), (1, 0), (1, 1), (2, 10), (10, 2), (-1, 0), (0, -1), (-2, -3), (1000003, 5), (5, 1000003),
          (2**40, -2**40)] + ([(3, 3), (0, 2), (2, 0)] if thorough else [])
    for r, c in rc:
        out.append((f"GridQubit({r},{c})", cirq.GridQubit(r, c)))
    for r, c in [(0, 0), (0, 1), (1, 0), (2, 10), (-1, 0), (1000003, 5)]:
        for d in (1, 2, 3, 4):
            out.append((f"GridQid({r},{c},{d})", cirq.GridQid(r, c, dimension=d)))
    names = ["q", "q2", "q10", "q02", "q1_2", "q1_10", "a", "b", "", "Q", "q 1", "x9y10", "x10y9", "0", "10", "9",
             "qé", 'quote"d', "new\nline", "q2b", "_c(0)"]
    for n in names:
        out.append((f"NamedQubit({n!r})", cirq.NamedQubit(n)))
    for n in ["q", "q2", "q10", "a", ""]:
        for d in (1, 2, 3):
            out.append((f"NamedQid({n!r},{d})", cirq.NamedQid(n, dimension=d)))
    for i in (0, 1, 2, 10):
        for d in (2, 3):
            for pre in ("", "p", "anc2"):
                out.append((f"CleanQubit({i},{d},{pre!r})", cirq.ops.CleanQubit(i, d, pre)))
                out.append((f"BorrowableQubit({i},{d},{pre!r})", cirq.ops.BorrowableQubit(i, d, pre)))
    for xyz in [(0, 0, 0), (1, 0, 0), (0, 1, 0), (0, 0, 1), (1.5, -2.5, 0.25), (-1, -1, -1), (10, 2, 3), (2, 10, 3),
                (1e6, 0, 1e-6)]:
        out.append((f"ThreeDQubit{xyz}", cirq_pasqal.ThreeDQubit(*xyz)))
    for xy in [(0, 0), (1, 0), (0, 1), (1.5, -2.5), (-1, -1), (10, 2), (2, 10)]:
        out.append((f"TwoDQubit{xy}", cirq_pasqal.TwoDQubit(*xy)))
    # wrapped qids (with_dimension of qubit types that have no native qid form)
    out.append(("NoIdentifierQubit()", cirq.testing.NoIdentifierQubit()))
    out.append(("NoIdentifierQubit().with_dimension(3)", cirq.testing.NoIdentifierQubit().with_dimension(3)))
    out.append(("ThreeDQubit.with_dimension(3)", cirq_pasqal.ThreeDQubit(1, 2, 3).with_dimension(3)))
    out.append(("TwoDQubit.with_dimension(4)", cirq_pasqal.TwoDQubit(1, 2).with_dimension(4)))
    out.append(("Coupler(G00,G01)", cirq_google.Coupler(cirq.GridQubit(0, 0), cirq.GridQubit(0, 1))))
    out.append(("Coupler(G01,G00)", cirq_google.Coupler(cirq.GridQubit(0, 1), cirq.GridQubit(0, 0))))
    out.append(("Coupler(G10,G11)", cirq_google.Coupler(cirq.GridQubit(1, 0), cirq.GridQubit(1, 1))))
    # (a Coupler over LineQubits cannot be ordered against a Coupler over GridQubits: TypeError; not in the alphabet)
    return out


# ---------------------------------------------------------------------------------------------
# raw values (numpy / complex / sympy / pandas / containers)


def raw_pool(seed):
    g = core.generic(seed, 0)
    out = []
    for v in [True, False, 0, 1, -1, 2**62, 0.5, -2.5, 1e-9, 1e300, g, "", "k", "qé\n\"x", None]:
        out.append((f"builtin {v!r}", v))
    for v in [1j, -1j, 1 + 2j, complex(g, -g), 0j, complex(0.0, 1e-9), 1e300 + 1e-300j]:
        out.append((f"complex {v!r}", v))
    for dt in (np.bool_, np.int8, np.int16, np.int32, np.int64, np.uint8, np.uint16, np.uint32, np.uint64, np.float16,
               np.float32, np.float64, np.complex64, np.complex128):
        one = np.ones(1)[0].astype(dt)
        out.append((f"np scalar {dt.__name__}", one))
        out.append((f"np array1d {dt.__name__}", np.arange(4).astype(dt)))
        out.append((f"np array2d {dt.__name__}", (np.arange(6).reshape(2, 3) % 2).astype(dt)))
    out.append(("np scalar float32 0.1", np.float32(0.1)))
    out.append(("np scalar complex64 0.1+0.2j", np.complex64(0.1 + 0.2j)))
    out.append(("np array complex128 generic", np.array([[g, 1j * g], [-1j, 0.5 + 0.25j]])))
    out.append(("np array 3d", np.arange(8).reshape(2, 2, 2)))
    out.append(("np array empty (0,)", np.zeros((0,))))
    out.append(("np array int64 big", np.array([2**62, -2**62])))
    # sympy
    s, t = sympy.Symbol("s"), sympy.Symbol("t")
    base = sympy.IndexedBase("v")
    for e in [s, t, sympy.Symbol("theta_1"), sympy.Integer(5), sympy.Integer(-3), sympy.Integer(0), sympy.Rational(2, 3),
              sympy.Rational(-7, 2), sympy.Float(1.1), sympy.Float(-0.25), sympy.pi, sympy.E, sympy.EulerGamma, s + t,
              s * t, s / t, s - t, s**t, t**s, 2 * t, 4 * t + 3 * s + 2, s**2, s ** sympy.Rational(1, 2), 1 / s,
              sympy.pi * s, s * sympy.E + sympy.EulerGamma, -s, s * t * 2.5, (s + 1) * (t - 1), (s + t) ** 2,
              s >= t, s > t, s <= t, s < t, sympy.Eq(s, t), sympy.Ne(s, t), sympy.Eq(s, 1), s >= 0.5,
              sympy.And(s > 0, t > 0), sympy.Or(s > 0, t > 0), sympy.Not(s > 0), sympy.Xor(s > 0, t > 0),
              base, base[1], base[s], base[0] + base[1], sympy.Symbol("a") * 2 + sympy.Symbol("b")]:
        out.append((f"sympy {e!r}", e))
    # pandas
    out.append(("pd.Index ints named", pd.Index([1, 2, 3], name="test")))
    out.append(("pd.Index strs", pd.Index(["x", "y"])))
    out.append(("pd.Index floats", pd.Index([0.5, 1.5], name="f")))
    out.append(("pd.MultiIndex", pd.MultiIndex.from_tuples([(1, 2), (3, 4), (5, 6)], names=["alice", "bob"])))
    out.append(("pd.MultiIndex mixed", pd.MultiIndex.from_tuples([(1, "a"), (2, "b")], names=["n", "s"])))
    out.append(("pd.DataFrame ints", pd.DataFrame(data=[[1, 2, 3], [4, 5, 6]], columns=["x", "y", "z"], index=[2, 5])))
    out.append(("pd.DataFrame mixed", pd.DataFrame(index=pd.Index([1, 2, 3], name="test"),
                                                   data=[[11, 21.0], [12, 22.0], [13, 23.0]], columns=["a", "b"])))
    out.append(("pd.DataFrame multiindex", pd.DataFrame(
        index=pd.MultiIndex.from_tuples([(1, 2), (2, 3), (3, 4)], names=["x", "y"]),
        data=[[11, 21.0], [12, 22.0], [13, 23.0]], columns=pd.Index(["a", "b"], name="c"))))
    out.append(("pd.DataFrame strs+bools", pd.DataFrame(data=[["u", True], ["v", False]], columns=["s", "b"])))
    # datetime (aware; naive datetimes are documented to come back aware)
    out.append(("datetime utc", datetime.datetime(2021, 3, 4, 5, 6, 7, 250000, tzinfo=datetime.timezone.utc)))
    out.append(("datetime +8h", datetime.datetime(2020, 1, 1, 0, 0, 0, tzinfo=datetime.timezone(datetime.timedelta(hours=8)))))
    # nested containers
    q = cirq.LineQubit(3)
    out.append(("list nested", [1, [2.5, "x", [None, True]], {"k": [1j, q]}]))
    out.append(("dict nested", {"test": [123, 5.5], "key2": "asdf", "3": None, "0.0": [], "q": {"q": q, "l": [q, q]}}))
    out.append(("tuple nested", (1, (2, 3), [cirq.X, (cirq.Y, cirq.Z)])))
    out.append(("list of gates twice", [cirq.X, cirq.X, cirq.X**0.5, cirq.X**0.5]))
    out.append(("empty list", []))
    out.append(("empty dict", {}))
    out.append(("dict of arrays", {"a": np.arange(3), "b": np.eye(2, dtype=np.complex64)}))
    return out


# ---------------------------------------------------------------------------------------------
# small value classes


def value_pool(seed):
    g = core.generic(seed, 1)
    out = []
    # MeasurementKey paths
    for name, path in [("m", ()), ("", ()), ("m", ("a",)), ("m", ("a", "b")), ("m", ("0", "1", "2")), ("k2", ("k10",)),
                       ("x y", ("p q",)), ("m", ("",))]:
        out.append((f"MeasurementKey({name!r},{path})", cirq.MeasurementKey(name, path)))
    out.append(("MeasurementKey.parse_serialized a:b:m", cirq.MeasurementKey.parse_serialized("a:b:m")))
    # Duration in every unit incl. symbolic
    for unit in ("picos", "nanos", "micros", "millis"):
        for v in (0, 1, -1, 0.5, 2.5, 1e-9, g, 1000, A, 2 * A + 1):
            out.append((f"Duration({unit}={v!r})", cirq.Duration(**{unit: v})))
    out.append(("Duration mixed units", cirq.Duration(picos=1, nanos=2, micros=3, millis=4)))
    out.append(("Duration mixed symbolic", cirq.Duration(picos=A, nanos=B)))
    out.append(("Duration(timedelta)", cirq.Duration(datetime.timedelta(microseconds=7))))
    out.append(("Duration()", cirq.Duration()))
    out.append(("Duration(np.float64)", cirq.Duration(nanos=np.float64(1.5))))
    out.append(("Duration(np.int64)", cirq.Duration(picos=np.int64(3))))
    # LinearDict
    for terms in [{}, {"X": 1}, {"X": 1, "Y": -2.5}, {"X": 1j, "Y": 0.5 - 0.25j}, {"X": 1e-9}, {"Z": g, "I": -g},
                  {"X": A}, {"X": 2 * A + 1}, {"X": 0}, {"X": np.float64(0.5)}, {"X": np.complex64(0.5j)}]:
        out.append((f"LinearDict({terms!r})", cirq.LinearDict(terms)))
    # ParamResolver
    for d in [None, {}, {"a": 1}, {"a": 0.5, "b": -2.5}, {A: 1, "b": 2}, {"a": B, "b": 1.5}, {"a": 2 * B + 1}, {"a": 1j},
              {"a": np.float64(0.25)}, {"a": np.int64(3)}, {"a": sympy.pi}, {"a": sympy.Rational(1, 3)}, {"q2": 1, "q10": 2}]:
        out.append((f"ParamResolver({d!r})", cirq.ParamResolver(d)))
    # control values
    for data in [[1], [0], [[0, 1]], [1, 0], [[0, 1], 1], [(0, 1, 2), (1,)], [2], [[1, 2], [0, 2]], []]:
        out.append((f"ProductOfSums({data})", cirq.ProductOfSums(data)))
    for data, name in [([[1]], None), ([[0], [1]], None), ([[0, 1], [1, 0]], None), ([[0, 1], [1, 0]], "xor"),
                       ([[1, 1]], None), ([[0, 0], [1, 1]], "eq"), ([[2, 1], [0, 0]], None), ([[1, 0], [0, 1]], None)]:
        out.append((f"SumOfProducts({data},{name!r})", cirq.SumOfProducts(data, name=name)))
    # conditions
    k, k2 = cirq.MeasurementKey("m"), cirq.MeasurementKey("m", ("a", "b"))
    for key in (k, k2):
        for idx in (-1, 0, 2):
            out.append((f"KeyCondition({key},{idx})", cirq.KeyCondition(key, idx)))
        out.append((f"SympyCondition({key})", cirq.SympyCondition(sympy.Symbol(str(key)) > 0)))
    out.append(("SympyCondition(a&b)", cirq.SympyCondition(sympy.And(A > 0, B < 1))))
    out.append(("SympyCondition(a+b>=2)", cirq.SympyCondition(A + B >= 2)))
    out.append(("SympyCondition(indexed)", cirq.SympyCondition(sympy.Eq(sympy.IndexedBase("m")[0], 1))))
    for idx, tv, eqt, bm in [(-1, 0, False, None), (0, 1, True, None), (-1, 2, True, 3), (1, 0, False, 1), (-1, 5, True, 7)]:
        out.append((f"BitMaskKeyCondition({idx},{tv},{eqt},{bm})",
                    cirq.BitMaskKeyCondition("m", idx, tv, eqt, bm)))
    out.append(("BitMaskKeyCondition(key path)", cirq.BitMaskKeyCondition(k2, 0, 1, True, 1)))
    # product states
    qs = cirq.LineQubit.range(3)
    for st in (cirq.KET_PLUS, cirq.KET_MINUS, cirq.KET_IMAG, cirq.KET_MINUS_IMAG, cirq.KET_ZERO, cirq.KET_ONE):
        out.append((f"{st!r}", st))
        out.append((f"{st!r}(q0)", st(qs[0])))
    out.append(("ProductState 3", cirq.KET_PLUS(qs[0]) * cirq.KET_ONE(qs[1]) * cirq.KET_IMAG(qs[2])))
    out.append(("ProductState empty", cirq.ProductState({})))
    out.append(("ProductState named", cirq.KET_MINUS(cirq.NamedQubit("q10")) * cirq.KET_ZERO(cirq.NamedQubit("q2"))))
    # tags
    for tag in [cirq.VirtualTag(), cirq.RoutingSwapTag(), cirq_google.PhysicalZTag(), cirq_google.FSimViaModelTag(),
                cirq_google.CompressDurationTag(), cirq_google.TwoPulseFSimTag(), cirq_google.CalibrationTag("tok"),
                cirq_google.CalibrationTag(""), cirq_google.InternalTag(name="n", package="p"),
                cirq_google.InternalTag(name="n", package="p", k1=1, k2="v", k3=0.5)]:
        out.append((f"tag {tag!r}", tag))
    # classical data store
    cd = cirq.ClassicalDataDictionaryStore()
    out.append(("ClassicalDataDictionaryStore empty", cd))
    cd2 = cirq.ClassicalDataDictionaryStore()
    cd2.record_measurement(k, (0, 1), qs[:2])
    cd2.record_measurement(k, (1, 1), qs[:2])
    cd2.record_measurement(k2, (2,), (cirq.LineQid(5, 3),))
    cd2.record_channel_measurement(cirq.MeasurementKey("c"), 3)
    out.append(("ClassicalDataDictionaryStore 3 keys", cd2))
    out.append(("MeasurementType.MEASUREMENT", cirq.MeasurementType.MEASUREMENT))
    out.append(("MeasurementType.CHANNEL", cirq.MeasurementType.CHANNEL))
    return out


# ---------------------------------------------------------------------------------------------
# gates


def exponent_grid(seed, thorough):
    g = core.generic(seed, 2)
    grid = [1, 1.0, 0, -1, 0.5, 2.5, 0.25, -0.5, g, A, 2 * A + 1, A * sympy.pi, np.float64(0.5), sympy.Rational(1, 3)]
    if thorough:
        grid += [2, 3, 4, -2.5, 1e-9, 1.5, A / 2, A**2, np.int64(1), np.float32(0.25)]
    return grid


def shift_grid(seed, thorough):
    g = core.generic(seed, 3)
    return [0, -0.5, 0.25, g] + ([0.5, 1, -1, 1e-9] if thorough else [])


EIGEN_FAMILIES = ["XPowGate", "YPowGate", "ZPowGate", "HPowGate", "CZPowGate", "CXPowGate", "CNotPowGate", "CYPowGate",
                  "SwapPowGate", "ISwapPowGate", "XXPowGate", "YYPowGate", "ZZPowGate", "CCXPowGate", "CCNotPowGate",
                  "CCYPowGate", "CCZPowGate"]


def gate_pool(seed, thorough):
    g = core.generic(seed, 4)
    h = core.generic(seed, 5)
    E = exponent_grid(seed, thorough)
    S = shift_grid(seed, thorough)
    out = []

    def add(label, gate):
        out.append((label, gate))

    for fam in EIGEN_FAMILIES:
        cls = getattr(cirq, fam, None)
        if cls is None:
            continue
        for e in E:
            for s in S:
                add(f"{fam}(e={e!r},s={s!r})", cls(exponent=e, global_shift=s))
    for fam in ("XPowGate", "ZPowGate"):
        cls = getattr(cirq, fam)
        for d in (2, 3, 4):
            for e in (1, 0.5, 2.5, g, A):
                add(f"{fam}(e={e!r},dim={d})", cls(exponent=e, dimension=d))
    for name in ["X", "Y", "Z", "H", "S", "T", "CZ", "CNOT", "CX", "SWAP", "ISWAP", "SQRT_ISWAP", "SQRT_ISWAP_INV", "XX",
                 "YY", "ZZ", "CCX", "CCZ", "TOFFOLI", "CSWAP", "FREDKIN", "I", "ms", "CCNOT"]:
        v = getattr(cirq, name, None)
        if v is None:
            continue
        if name == "ms":
            for r in (0.5, np.pi / 4, g, A):
                add(f"cirq.ms({r!r})", cirq.ms(r))
            continue
        add(f"cirq.{name}", v)
        if name in ("X", "Y", "Z"):
            for e in E:
                add(f"cirq.{name}**{e!r}", v**e)
    for fam in ("Rx", "Ry", "Rz"):
        for r in [0, np.pi, -np.pi / 2, g, 2 * np.pi + 0.1, 4 * np.pi, A, 2 * A + 1, A * sympy.pi, sympy.pi, np.float64(0.25)]:
            add(f"{fam}({r!r})", getattr(cirq, fam)(rads=r))
    for fn in (cirq.rx, cirq.ry, cirq.rz):
        add(f"{fn.__name__}(0.25)", fn(0.25))
    P = [0, 0.25, -0.5, g, A] + ([1, 2.5] if thorough else [])
    for pe in P:
        for e in [1, 0.5, 0, 2.5, h, B]:
            for s in (0, -0.5, 0.25):
                add(f"PhasedXPowGate({pe!r},{e!r},{s!r})", cirq.PhasedXPowGate(phase_exponent=pe, exponent=e, global_shift=s))
            add(f"PhasedISwapPowGate({pe!r},{e!r})", cirq.PhasedISwapPowGate(phase_exponent=pe, exponent=e))
    add("PhasedISwapPowGate shift", cirq.PhasedISwapPowGate(phase_exponent=0.25, exponent=0.5, global_shift=0.25))
    for x, z, a in itertools.product([0, 0.5, 1, g, A], [0, 0.25, -1, h], [0, 0.5, g, B]):
        add(f"PhasedXZGate({x!r},{z!r},{a!r})", cirq.PhasedXZGate(x_exponent=x, z_exponent=z, axis_phase_exponent=a))
    for t, p in itertools.product([0, np.pi / 2, g, -g, 4.0, A], [0, np.pi / 6, h, -h, 7.0, B]):
        add(f"FSimGate({t!r},{p!r})", cirq.FSimGate(t, p))
    vals = [0, g, -h, A]
    combos = list(itertools.product(vals, repeat=5)) if thorough else (
        [tuple(vals[(i + j) % 4] for j in range(5)) for i in range(4)]
        + [tuple(g if j == i else 0 for j in range(5)) for i in range(5)]
        + [tuple(A if j == i else h for j in range(5)) for i in range(5)] + [(7.0, 8.0, -9.0, 10.0, 4.0)])
    for c in combos:
        add(f"PhasedFSimGate{c!r}", cirq.PhasedFSimGate(*c))
    add("PhasedFSimGate.from_fsim_rz", cirq.PhasedFSimGate.from_fsim_rz(g, h, (0.1, 0.2), (0.3, 0.4)))
    for t, p, l in [(0, 0, 0), (0.5, 0.25, 0.125), (g, h, -g), (2.5, 1, -1), (1, 2, 3)]:  # symbolic angles become sympy.Mod (not encodable)
        add(f"QasmUGate({t!r},{p!r},{l!r})", cirq.circuits.qasm_output.QasmUGate(t, p, l))
    # matrix-like gates
    u1 = cirq.unitary(cirq.X**g)
    u2 = cirq.unitary(cirq.FSimGate(g, h))
    u3 = cirq.unitary(cirq.XPowGate(dimension=3) ** 0.5)
    add("MatrixGate 1q", cirq.MatrixGate(u1))
    add("MatrixGate 1q named", cirq.MatrixGate(u1, name="U"))
    add("MatrixGate 2q", cirq.MatrixGate(u2))
    add("MatrixGate qutrit", cirq.MatrixGate(u3, qid_shape=(3,)))
    add("MatrixGate 2q shape(4,)", cirq.MatrixGate(u2, qid_shape=(4,)))
    add("MatrixGate int matrix", cirq.MatrixGate(np.array([[0, 1], [1, 0]])))
    add("MatrixGate complex64", cirq.MatrixGate(np.array([[0, 1j], [-1j, 0]], dtype=np.complex64)))
    for angles in [[0, 1], [g, h], [A, 0.5], [0, 0.25, 0.5, 0.75], [g, h, -g, -h, 1, 2, 3, 4], [A, B, 1, 2]]:
        add(f"DiagonalGate({angles!r})", cirq.DiagonalGate(angles))
    for angles in [[0, 0, 0, 1], [g, h, -g, -h], [A, B, 0, 1]]:
        add(f"TwoQubitDiagonalGate({angles!r})", cirq.TwoQubitDiagonalGate(angles))
    for angles in [[0] * 7 + [1], [g, h, -g, -h, 1, 2, 3, 4], [A] + [0.5] * 7]:
        add(f"ThreeQubitDiagonalGate({angles!r})", cirq.ThreeQubitDiagonalGate(angles))
    for n, shape in [(1, None), (2, None), (3, None), (None, (3,)), (None, (2, 3)), (2, (2, 2)), (0, None)]:
        add(f"IdentityGate({n},{shape})", cirq.IdentityGate(n, shape))
    for c in [1, -1, 1j, -1j, np.exp(1j * g), A, sympy.exp(sympy.I * A) if False else 2 * A, np.complex64(1j), 1.0]:
        add(f"GlobalPhaseGate({c!r})", cirq.GlobalPhaseGate(c))
    for d in [cirq.Duration(nanos=10), cirq.Duration(picos=0), cirq.Duration(micros=2.5), cirq.Duration(nanos=A),
              cirq.Duration(millis=1, picos=1)]:
        add(f"WaitGate({d!r})", cirq.WaitGate(d))
    add("WaitGate 2q", cirq.WaitGate(cirq.Duration(nanos=5), num_qubits=2))
    add("WaitGate qid_shape", cirq.WaitGate(cirq.Duration(nanos=5), qid_shape=(2, 3)))
    # measurement
    cm = {(0,): np.array([[0.8, 0.2], [0.1, 0.9]])}
    cm2 = {(0, 1): np.eye(4), (1,): np.array([[0.5, 0.5], [0.25, 0.75]])}
    for n, key, inv, shape, conf in [
        (1, "", (), None, None), (1, "m", (), None, None), (2, "m", (True,), None, None), (2, "m", (False, True), None, None),
        (3, cirq.MeasurementKey("m", ("a", "b")), (True, False, True), None, None), (None, "q", (), (3,), None),
        (None, "q", (False, True), (2, 3), None), (1, "c", (), None, cm), (2, "c", (True, False), None, cm2),
        (2, cirq.MeasurementKey.parse_serialized("a:b"), (), None, None), (1, "k2", (False,), None, None), (2, "", (False, False), None, None),
    ]:
        add(f"MeasurementGate({n},{key!r},{inv},{shape},conf={conf is not None})",
            cirq.MeasurementGate(n, key, inv, shape, conf))
    for obs, key in [([cirq.X], "p"), ([cirq.X, cirq.Y, cirq.Z], "p"), ([cirq.Z, cirq.Z], cirq.MeasurementKey("p", ("a",))),
                     (cirq.DensePauliString("XY", coefficient=-1), "neg"), (cirq.DensePauliString("ZZ"), "")]:
        add(f"PauliMeasurementGate({obs!r},{key!r})", cirq.PauliMeasurementGate(obs, key))
    for d in (2, 3, 4):
        add(f"ResetChannel({d})", cirq.ResetChannel(d))
    # channels
    PR = [0, 0.5, 0.25, 1e-9, g / 2 if 0 < g / 2 < 1 else 0.3, 1]
    for p in PR:
        add(f"DepolarizingChannel({p})", cirq.DepolarizingChannel(p))
        add(f"BitFlipChannel({p})", cirq.BitFlipChannel(p))
        add(f"PhaseFlipChannel({p})", cirq.PhaseFlipChannel(p))
        add(f"PhaseDampingChannel({p})", cirq.PhaseDampingChannel(p))
        add(f"AmplitudeDampingChannel({p})", cirq.AmplitudeDampingChannel(p))
        add(f"GeneralizedAmplitudeDampingChannel({p},0.25)", cirq.GeneralizedAmplitudeDampingChannel(p, 0.25))
        add(f"GeneralizedAmplitudeDampingChannel(0.25,{p})", cirq.GeneralizedAmplitudeDampingChannel(0.25, p))
    for p, n in [(0.25, 2), (0.5, 3), (0, 2), (0.9375, 2)]:
        add(f"DepolarizingChannel({p},{n})", cirq.DepolarizingChannel(p, n_qubits=n))
    for px, py, pz in [(0, 0, 0), (0.25, 0, 0), (0.1, 0.2, 0.3), (0, 0.5, 0.5), (1, 0, 0)]:
        add(f"AsymmetricDepolarizingChannel({px},{py},{pz})", cirq.AsymmetricDepolarizingChannel(px, py, pz))
    for ep in [{"X": 0.25, "I": 0.75}, {"XX": 0.5, "ZI": 0.25, "II": 0.25}, {"Z": 1.0}, {"IY": 0.125, "YI": 0.875}]:
        add(f"AsymmetricDepolarizingChannel({ep})", cirq.AsymmetricDepolarizingChannel(error_probabilities=ep))
    k0 = [np.sqrt(0.75) * np.eye(2), np.sqrt(0.25) * cirq.unitary(cirq.X)]
    add("KrausChannel", cirq.KrausChannel(k0))
    add("KrausChannel key", cirq.KrausChannel(k0, key="k"))
    add("KrausChannel keypath", cirq.KrausChannel(k0, key=cirq.MeasurementKey("k", ("p",))))
    add("KrausChannel 2q", cirq.KrausChannel([np.eye(4) * np.sqrt(0.5), cirq.unitary(cirq.CZ) * np.sqrt(0.5)]))
    mix = [(0.75, np.eye(2)), (0.25, cirq.unitary(cirq.Y))]
    add("MixedUnitaryChannel", cirq.MixedUnitaryChannel(mix))
    add("MixedUnitaryChannel key", cirq.MixedUnitaryChannel(mix, key="mk"))
    add("MixedUnitaryChannel 2q", cirq.MixedUnitaryChannel([(0.5, np.eye(4)), (0.5, cirq.unitary(cirq.SWAP))], key="s"))
    for sub, p in [(cirq.X, 0.5), (cirq.X, 1), (cirq.X, 0), (cirq.CZ**0.5, 0.25), (cirq.Z, A), (cirq.depolarize(0.5), 0.5)]:
        add(f"RandomGateChannel({sub!r},{p!r})", cirq.RandomGateChannel(sub_gate=sub, probability=p))
    add("X.with_probability", cirq.X.with_probability(0.125))
    for st in [[1, 0], [0, 1], [1, 1], [1, 2, 3, 4], [1, 1j], [0.6, 0.8], [1, 0, 0, 1j], [3, 4, 0, 0, 0, 0, 0, 12],
               [g, h, 1, -1], [1e-9, 0, 0, 0], [1, 1, 1, 1, 1, 1, 1, 1]]:
        add(f"StatePreparationChannel({st})", cirq.StatePreparationChannel(np.array(st)))
    add("StatePreparationChannel named", cirq.StatePreparationChannel(np.array([1, 0]), name="S"))
    for n in (1, 2, 3):
        add(f"QFT({n})", cirq.QuantumFourierTransformGate(n))
        add(f"QFT({n},without_reverse)", cirq.QuantumFourierTransformGate(n, without_reverse=True))
        for e in (1, 0.5, -1, g, A):
            add(f"PhaseGradientGate({n},{e!r})", cirq.PhaseGradientGate(num_qubits=n, exponent=e))
    for perm in [[0], [0, 1], [1, 0], [2, 0, 1], [0, 2, 1, 3], [3, 2, 1, 0]]:
        add(f"QubitPermutationGate({perm})", cirq.QubitPermutationGate(perm))
    for names, strs, th in [(["a"], ["a"], 0.5), (["a", "b"], ["a ^ b"], g), (["a", "b", "c"], ["a & b", "b | c"], -1),
                            (["q2", "q10"], ["q2 ^ q10"], 0.25)]:
        add(f"BooleanHamiltonianGate({names},{strs},{th})", cirq.BooleanHamiltonianGate(names, strs, th))
    for p0, i0, p1, i1 in itertools.product((cirq.X, cirq.Y, cirq.Z), (False, True), (cirq.X, cirq.Z), (False, True)):
        for e in (1, 0.5, A):
            add(f"PauliInteractionGate({p0},{i0},{p1},{i1},{e!r})", cirq.PauliInteractionGate(p0, i0, p1, i1, exponent=e))
    for mask in ["", "I", "X", "XYZ", "IXI", "ZZZZ", "YIXZ"]:
        for coef in (1, -1, 1j, -1j, A, g, np.complex64(1j)):
            add(f"DensePauliString({mask!r},{coef!r})", cirq.DensePauliString(mask, coefficient=coef))
            add(f"MutableDensePauliString({mask!r},{coef!r})", cirq.MutableDensePauliString(mask, coefficient=coef))
    for mask in ["X", "XYZ", "IZI"]:
        for en, ep in [(1, 0), (0.5, 0), (0, 0.5), (0.25, -0.25), (A, 0), (g, h), (2.5, 0.5)]:
            for coef in (1, -1):
                add(f"PauliStringPhasorGate({mask},{coef},{en!r},{ep!r})", cirq.PauliStringPhasorGate(
                    cirq.DensePauliString(mask, coefficient=coef), exponent_neg=en, exponent_pos=ep))
    for m, n in [(1, 1), (2, 1), (3, 2), (5, 3), (8, 3), (7, 4)]:
        add(f"UniformSuperpositionGate({m},{n})", cirq.UniformSuperpositionGate(m, n))
    # controlled / parallel / inverse
    subs = [cirq.X, cirq.Z**0.5, cirq.CZ, cirq.X**A, cirq.MatrixGate(u1), cirq.XPowGate(dimension=3), cirq.depolarize(0.25),
            cirq.GlobalPhaseGate(1j), cirq.IdentityGate(2)]
    for sub in subs:
        add(f"ControlledGate({sub!r})", cirq.ControlledGate(sub))
        add(f"ControlledGate({sub!r},2)", cirq.ControlledGate(sub, num_controls=2))
        add(f"ControlledGate({sub!r},cv=[0])", cirq.ControlledGate(sub, control_values=[0]))
        add(f"ControlledGate({sub!r},cv=[(0,1),1])", cirq.ControlledGate(sub, control_values=[(0, 1), 1]))
        add(f"ControlledGate({sub!r},cv=[2],shape=(3,))", cirq.ControlledGate(sub, control_values=[2], control_qid_shape=(3,)))
        add(f"ControlledGate({sub!r},cv=[(1,2),0],shape=(3,2))",
            cirq.ControlledGate(sub, control_values=[(1, 2), 0], control_qid_shape=(3, 2)))
        add(f"ControlledGate({sub!r},SumOfProducts xor)",
            cirq.ControlledGate(sub, control_values=cirq.SumOfProducts([[0, 1], [1, 0]], name="xor")))
        add(f"ControlledGate({sub!r},SumOfProducts 3)",
            cirq.ControlledGate(sub, control_values=cirq.SumOfProducts([[0, 0, 1], [1, 1, 0], [1, 0, 1]])))
        add(f"ControlledGate(ControlledGate({sub!r}))", cirq.ControlledGate(cirq.ControlledGate(sub, control_values=[0])))
        add(f"{sub!r}.controlled(2,[0,1])", sub.controlled(2, control_values=[0, 1]))
    for sub in [cirq.X, cirq.H**0.5, cirq.Z**A, cirq.MatrixGate(u1), cirq.XPowGate(dimension=3)]:
        for n in (1, 2, 3):
            add(f"ParallelGate({sub!r},{n})", cirq.ParallelGate(sub, n))
    add("inverse(QFT3)", cirq.inverse(cirq.QuantumFourierTransformGate(3)))
    add("inverse(QubitPermutationGate)", cirq.inverse(cirq.QubitPermutationGate([2, 0, 1])))
    add("inverse(BooleanHamiltonianGate)", cirq.inverse(cirq.BooleanHamiltonianGate(["a"], ["a"], 0.5)))
    add("CSwapGate()", cirq.CSwapGate())
    # Clifford
    for i, c in enumerate(cirq.SingleQubitCliffordGate.all_single_qubit_cliffords):
        add(f"SingleQubitCliffordGate[{i}]", c)
    for name in ["I", "X", "Y", "Z", "H", "X_sqrt", "X_nsqrt", "Y_sqrt", "Y_nsqrt", "Z_sqrt", "Z_nsqrt"]:
        add(f"SingleQubitCliffordGate.{name}", getattr(cirq.SingleQubitCliffordGate, name))
    for name in ["I", "X", "Y", "Z", "H", "S", "CNOT", "CZ", "SWAP"]:
        add(f"CliffordGate.{name}", getattr(cirq.CliffordGate, name))
    add("CliffordGate.from_op_list", cirq.CliffordGate.from_op_list(
        [cirq.H(cirq.LineQubit(0)), cirq.CNOT(*cirq.LineQubit.range(2)), cirq.S(cirq.LineQubit(1))], cirq.LineQubit.range(2)))
    # vendor gates
    for phi in (0, 0.25, -0.5, g, 1.5, A):
        add(f"GPIGate({phi!r})", cirq_ionq.GPIGate(phi=phi))
        add(f"GPI2Gate({phi!r})", cirq_ionq.GPI2Gate(phi=phi))
        add(f"ionq.ZZGate({phi!r})", cirq_ionq.ZZGate(theta=phi))
        for phi1 in (0, 0.55, h):
            add(f"ionq.MSGate({phi!r},{phi1!r})", cirq_ionq.MSGate(phi0=phi, phi1=phi1))
            for th in (0, 0.25, 0.125, g):
                add(f"ionq.MSGate({phi!r},{phi1!r},{th!r})", cirq_ionq.MSGate(phi0=phi, phi1=phi1, theta=th))
    add("SYC", cirq_google.SYC)
    add("SycamoreGate()", cirq_google.SycamoreGate())
    add("WillowGate()", cirq_google.WillowGate())
    for hold, mhz, rise, pad, d0, d1 in [
        (cirq.Duration(nanos=10), 25.0, cirq.Duration(nanos=8), cirq.Duration(picos=2500.0), 0.0, 0.0),
        (cirq.Duration(nanos=0), 0, cirq.Duration(nanos=1), cirq.Duration(nanos=0), 1.5, -2.5),
        (cirq.Duration(nanos=A), B, cirq.Duration(nanos=8), cirq.Duration(nanos=2.5), A, 0.5),
        (cirq.Duration(nanos=10), 25.0, None, None, 0.0, 0.0),
    ]:
        add(f"CouplerPulse({hold!r},{mhz!r},{rise!r},{pad!r},{d0!r},{d1!r})",
            cirq_google.experimental.CouplerPulse(hold, mhz, rise, pad, d0, d1))
    add("InternalGate basic", cirq_google.InternalGate(gate_name="G", gate_module="mod", num_qubits=2))
    add("InternalGate kwargs", cirq_google.InternalGate(gate_name="G", gate_module="mod", num_qubits=1, a=1, b=0.5, c="s",
                                                        d=None, e=[1, 2]))
    add("InternalGate no module", cirq_google.InternalGate(gate_name="G"))
    add("InternalGate symbol", cirq_google.InternalGate(gate_name="G", gate_module="m", num_qubits=1, x=A))
    add("SwapPermutationGate()", cca.SwapPermutationGate())
    add("SwapPermutationGate(ISWAP)", cca.SwapPermutationGate(cirq.ISWAP))
    add("SwapPermutationGate(SWAP**0.5)", cca.SwapPermutationGate(cirq.SWAP**0.5))
    add("BayesianNetworkGate", ccb.BayesianNetworkGate([("q0", 0.125), ("q1", None)], [("q1", ("q0",), [0.25, 0.5])]))
    add("BayesianNetworkGate 1", ccb.BayesianNetworkGate([("q2", 0.5), ("q10", 1.0)], []))
    return out


# ---------------------------------------------------------------------------------------------
# operations, Pauli strings, circuits


def op_pool(seed, thorough):
    g = core.generic(seed, 6)
    out = []

    def add(label, v):
        out.append((label, v))

    L = cirq.LineQubit.range(4)
    G = [cirq.GridQubit(0, 0), cirq.GridQubit(0, 1), cirq.GridQubit(1, 0)]
    N = [cirq.NamedQubit("q2"), cirq.NamedQubit("q10"), cirq.NamedQubit("a")]
    Q3 = [cirq.LineQid(0, 3), cirq.GridQid(0, 1, dimension=3), cirq.NamedQid("t", dimension=3)]
    P2 = [cirq_pasqal.TwoDQubit(0, 1), cirq_pasqal.ThreeDQubit(0, 1, 2)]
    qsets = [L, G, N, [L[0], G[0], N[0]], P2 + [L[3]]]
    one = [cirq.X, cirq.Y**0.5, cirq.Z**A, cirq.H, cirq.rx(g), cirq.PhasedXZGate(x_exponent=0.5, z_exponent=0.25,
           axis_phase_exponent=g), cirq.depolarize(0.25), cirq.ResetChannel(), cirq.I, cirq.WaitGate(cirq.Duration(nanos=5)),
           cirq.GlobalPhaseGate(1j), cirq_ionq.GPIGate(phi=0.25), cirq.SingleQubitCliffordGate.X_sqrt]
    two = [cirq.CZ, cirq.CNOT**0.5, cirq.SWAP, cirq.ISWAP**A, cirq.FSimGate(g, 0.5), cirq.XX**0.25, cirq_google.SYC,
           cirq.ControlledGate(cirq.Y), cirq.IdentityGate(2), cirq_ionq.MSGate(phi0=0.1, phi1=0.2), cirq.CliffordGate.CNOT]
    for qi, qs in enumerate(qsets):
        for gate in one:
            if isinstance(gate, cirq.GlobalPhaseGate):
                continue
            add(f"{gate!r}.on(qset{qi}[0])", gate.on(qs[0]))
        for gate in two:
            add(f"{gate!r}.on(qset{qi}[0:2])", gate.on(qs[0], qs[1]))
            add(f"{gate!r}.on(qset{qi}[1],[0])", gate.on(qs[1], qs[0]))
    add("global_phase_operation(1j)", cirq.global_phase_operation(1j))
    add("global_phase_operation(-1)", cirq.global_phase_operation(-1))
    add("XPowGate(dim3).on(qutrit)", cirq.XPowGate(dimension=3).on(Q3[0]))
    add("MatrixGate qutrit on GridQid", cirq.MatrixGate(cirq.unitary(cirq.XPowGate(dimension=3)), qid_shape=(3,)).on(Q3[1]))
    add("IdentityGate(qid_shape).on", cirq.IdentityGate(qid_shape=(3, 3)).on(Q3[0], Q3[2]))
    add("CCZ.on", cirq.CCZ(*L[:3]))
    add("CSWAP.on", cirq.CSWAP(*G))
    add("QFT.on", cirq.qft(*L[:3]))
    add("measure default", cirq.measure(*L[:2]))
    add("measure key", cirq.measure(L[0], G[0], key="m"))
    add("measure invert", cirq.measure(*L[:3], key="m", invert_mask=(True, False, True)))
    add("measure keypath", cirq.measure(L[0], key=cirq.MeasurementKey("m", ("a", "b"))))
    add("measure qutrit", cirq.measure(Q3[0], Q3[1], key="t"))
    add("measure confusion", cirq.measure(L[0], key="c", confusion_map={(0,): np.array([[0.9, 0.1], [0.2, 0.8]])}))
    add("measure_single_paulistring", cirq.measure_single_paulistring(cirq.X(L[0]) * cirq.Z(L[1]), key="p"))
    add("X(q) (SingleQubitPauliStringGateOperation)", cirq.X(L[0]))
    add("Y(named)", cirq.Y(N[1]))
    add("Z(grid)", cirq.Z(G[2]))
    add("ParallelGate.on", cirq.ParallelGate(cirq.H, 3).on(*L[:3]))
    add("reset", cirq.reset(L[0]))
    add("reset qutrit", cirq.reset(Q3[0]))
    # tags
    base = cirq.X(L[0])
    tagsets = [("t",), ("t", "u"), (cirq.VirtualTag(),), (cirq.RoutingSwapTag(), "s"), (cirq_google.PhysicalZTag(),),
               (cirq_google.CalibrationTag("tok"), cirq_google.FSimViaModelTag()), (1, 2.5),
               (cirq_google.InternalTag(name="n", package="p", k=1),), (cirq.LineQubit(9),), (cirq.Duration(nanos=3),)]
    for tags in tagsets:
        add(f"X.with_tags{tags!r}", base.with_tags(*tags))
        add(f"CZ.with_tags{tags!r}", cirq.CZ(G[0], G[1]).with_tags(*tags))
    add("TaggedOperation(no tags)", cirq.TaggedOperation(base))
    add("tagged(tagged)", cirq.TaggedOperation(cirq.TaggedOperation(base, "inner"), "outer"))
    add("measure tagged", cirq.measure(L[0], key="m").with_tags("t"))
    # controlled operations
    for cv in [None, [0], [(0, 1)]]:
        add(f"X.controlled_by(L1,cv={cv})", cirq.X(L[0]).controlled_by(L[1], control_values=cv))
    add("CZ.controlled_by(2)", cirq.CZ(L[0], L[1]).controlled_by(L[2], L[3], control_values=[1, 0]))
    add("ControlledOperation SumOfProducts", cirq.ControlledOperation(
        [L[2], L[3]], cirq.X(L[0]), control_values=cirq.SumOfProducts([[0, 1], [1, 0]], name="xor")))
    add("ControlledOperation qutrit control", cirq.ControlledOperation([Q3[0]], cirq.X(L[0]), control_values=[(1, 2)]))
    add("ControlledOperation of tagged", cirq.ControlledOperation([L[1]], cirq.X(L[0]).with_tags("t")))
    add("ControlledOperation of controlled", cirq.ControlledOperation([L[2]], cirq.X(L[0]).controlled_by(L[1])))
    add("ControlledOperation of matrix", cirq.ControlledOperation([G[0]], cirq.MatrixGate(cirq.unitary(cirq.Y**g)).on(G[1])))
    add("ControlledOperation of global phase", cirq.ControlledOperation([L[0]], cirq.global_phase_operation(1j)))
    # classical control
    k2 = cirq.MeasurementKey("m", ("a", "b"))
    conds = ["m", k2, cirq.KeyCondition(cirq.MeasurementKey("m")), cirq.KeyCondition(cirq.MeasurementKey("m"), 0),
             cirq.KeyCondition(k2, 2), sympy.Symbol("m") > 0, cirq.SympyCondition(sympy.Eq(sympy.Symbol("m"), 2)),
             cirq.BitMaskKeyCondition("m", -1, 2, True, 3), cirq.BitMaskKeyCondition("m", 0, 0, False, None),
             sympy.And(sympy.Symbol("m") > 0, sympy.Symbol("n") < 1)]
    for c in conds:
        add(f"X.with_classical_controls({c!r})", cirq.X(L[0]).with_classical_controls(c))
    add("CZ 2 conds", cirq.CZ(L[0], L[1]).with_classical_controls("m", "n"))
    add("tagged classically controlled", cirq.X(L[0]).with_classical_controls("m").with_tags("t"))
    add("classically controlled tagged", cirq.X(L[0]).with_tags("t").with_classical_controls("m"))
    return out


def pauli_pool(seed, thorough):
    g = core.generic(seed, 7)
    out = []

    def add(label, v):
        out.append((label, v))

    q = cirq.LineQubit.range(4)
    n = [cirq.NamedQubit("q2"), cirq.NamedQubit("q10")]
    gq = cirq.GridQubit(1, 2)
    coefs = [1, -1, 1j, -1j, 0.5, g, complex(g, -g), 0, A, 2 * A + 1, np.complex64(1j), np.float64(0.25), 1.0, -1.0]
    maps = [{}, {q[0]: cirq.X}, {q[0]: cirq.Y, q[1]: cirq.Z}, {q[1]: cirq.Z, q[0]: cirq.Y}, {q[2]: cirq.X, q[0]: cirq.X, q[3]: cirq.Z},
            {n[0]: cirq.X, n[1]: cirq.Y}, {gq: cirq.Z, q[0]: cirq.X}, {cirq.LineQid(0, 3): cirq.X} if False else {q[3]: cirq.Y}]
    for mi, m in enumerate(maps):
        for c in coefs:
            add(f"PauliString(map{mi},{c!r})", cirq.PauliString(qubit_pauli_map=m, coefficient=c))
    add("X*Y same qubit", cirq.X(q[0]) * cirq.Y(q[0]))
    add("X*Z*2", cirq.X(q[0]) * cirq.Z(q[1]) * 2)
    add("-X", -cirq.X(q[0]))
    add("PauliString(I)", cirq.PauliString(cirq.I(q[0])))
    for m in maps[:4]:
        add(f"MutablePauliString({len(m)})", cirq.MutablePauliString(cirq.PauliString(qubit_pauli_map=m)))
        add(f"MutablePauliString({len(m)},1j)", cirq.MutablePauliString(cirq.PauliString(qubit_pauli_map=m), coefficient=1j))
    ps = [cirq.X(q[0]) * cirq.Y(q[1]), cirq.Z(q[0]) * cirq.Z(q[2]), -cirq.X(q[0]), cirq.PauliString(qubit_pauli_map={n[0]: cirq.X})]
    for pi_, p in enumerate(ps):
        for en, ep in [(1, 0), (0.5, 0), (0, 0.5), (0.25, -0.25), (A, 0), (g, -g), (2.5, 0.5), (1, 1)]:
            add(f"PauliStringPhasor(ps{pi_},{en!r},{ep!r})", cirq.PauliStringPhasor(p, exponent_neg=en, exponent_pos=ep))
        add(f"PauliStringPhasor(ps{pi_}, extra qubits)", cirq.PauliStringPhasor(p, qubits=list(p.qubits) + [q[3]], exponent_neg=0.5))
        add(f"ps{pi_}**0.5", p**0.5 if p.coefficient in (1, -1) else p)
    sums = [cirq.PauliSum(), cirq.PauliSum.from_pauli_strings([ps[0]]), ps[0] + ps[1], ps[0] - 2.5 * ps[1] + 1j * ps[2],
            ps[0] + 1, 0.5 * cirq.X(q[0]) + 0.5 * cirq.Z(q[0]), cirq.X(q[0]) + cirq.X(q[0]), ps[0] * g + ps[3] * (1 - g),
            cirq.X(q[1]) + cirq.X(q[0]), cirq.X(n[1]) + cirq.X(n[0]) + cirq.Z(gq)]
    for i, s in enumerate(sums):
        add(f"PauliSum[{i}]", s)
    for pd_, c in [({q[0]: 0}, 1), ({q[0]: 1}, 1), ({q[0]: 0, q[1]: 1}, 1), ({q[1]: 1, q[0]: 0}, 0.5), ({q[0]: 1}, 1j),
                   ({n[0]: 1, n[1]: 0}, -1), ({}, 1), ({gq: 0}, g)]:
        add(f"ProjectorString({pd_},{c!r})", cirq.ProjectorString(pd_, c))
    pj = [cirq.ProjectorString({q[0]: 0}), cirq.ProjectorString({q[0]: 1, q[1]: 0}, 0.5), cirq.ProjectorString({q[1]: 1}, 1j)]
    add("ProjectorSum 1", cirq.ProjectorSum.from_projector_strings(pj[0]))
    add("ProjectorSum 3", cirq.ProjectorSum.from_projector_strings(pj))
    add("ProjectorSum sum", cirq.ProjectorSum.from_projector_strings(pj[:2]) + cirq.ProjectorSum.from_projector_strings(pj[2]))
    add("ProjectorSum empty", cirq.ProjectorSum())
    # observables / settings
    st = cirq.KET_PLUS(q[0]) * cirq.KET_ONE(q[1])
    ios = cirq.work.InitObsSetting(init_state=st, observable=cirq.X(q[0]) * cirq.Z(q[1]))
    ios2 = cirq.work.InitObsSetting(init_state=cirq.KET_ZERO(q[0]) * cirq.KET_ZERO(q[1]), observable=cirq.Z(q[0]) * 0.5)
    add("InitObsSetting", ios)
    add("InitObsSetting 2", ios2)
    ms = cirq.work._MeasurementSpec(max_setting=ios, circuit_params={"a": 0.5, "b": 1})
    add("_MeasurementSpec", ms)
    add("_MeasurementSpec empty params", cirq.work._MeasurementSpec(max_setting=ios2, circuit_params={}))
    add("ObservableMeasuredResult", cirq.work.ObservableMeasuredResult(
        setting=ios, mean=0.25, variance=0.0625, repetitions=100, circuit_params={"a": 0.5}))
    add("ObservableMeasuredResult symbols", cirq.work.ObservableMeasuredResult(
        setting=ios2, mean=-1.0, variance=0.0, repetitions=0, circuit_params={"theta": 2, "phi": g}))
    ba = cirq.work.BitstringAccumulator(
        meas_spec=ms, simul_settings=[ios], qubit_to_index={q[0]: 0, q[1]: 1},
        bitstrings=np.array([[0, 1], [1, 1], [0, 0]], dtype=np.uint8), chunksizes=np.array([3]),
        timestamps=np.array([np.datetime64("2021-01-01T00:00:00")]))
    add("BitstringAccumulator", ba)
    add("BitstringAccumulator empty", cirq.work.BitstringAccumulator(meas_spec=ms, simul_settings=[ios],
                                                                    qubit_to_index={q[0]: 0, q[1]: 1}))
    add("RepetitionsStoppingCriteria", cirq.work.RepetitionsStoppingCriteria(1000))
    add("RepetitionsStoppingCriteria chunk", cirq.work.RepetitionsStoppingCriteria(1000, repetitions_per_chunk=7))
    add("VarianceStoppingCriteria", cirq.work.VarianceStoppingCriteria(1e-3))
    add("VarianceStoppingCriteria chunk", cirq.work.VarianceStoppingCriteria(0.5, repetitions_per_chunk=3))
    return out


def circuit_pool(seed, thorough):
    g = core.generic(seed, 8)
    out = []

    def add(label, v):
        out.append((label, v))

    a, b, c, d = cirq.LineQubit.range(4)
    n2, n10 = cirq.NamedQubit("q2"), cirq.NamedQubit("q10")
    base = cirq.FrozenCircuit(cirq.H(a), cirq.CZ(a, b), cirq.measure(a, b, key="m"))
    par = cirq.FrozenCircuit(cirq.X(a) ** A, cirq.ry(B).on(b))
    one = cirq.FrozenCircuit(cirq.X(a))
    empty = cirq.FrozenCircuit()
    add("Circuit()", cirq.Circuit())
    add("FrozenCircuit()", empty)
    add("Circuit(Moment())", cirq.Circuit(cirq.Moment()))
    add("Circuit moments with gaps", cirq.Circuit(cirq.Moment(cirq.X(a)), cirq.Moment(), cirq.Moment(cirq.CZ(a, b), cirq.Y(c))))
    add("Circuit mixed qubits", cirq.Circuit(cirq.H(n10), cirq.CNOT(n10, n2), cirq.X(cirq.GridQubit(0, 1)), cirq.measure(n2, key="k")))
    add("Circuit base unfrozen", base.unfreeze())
    add("FrozenCircuit base", base)
    add("FrozenCircuit parameterized", par)
    add("Circuit tagged", cirq.Circuit(cirq.X(a), tags=["ct", cirq.VirtualTag()]))
    add("FrozenCircuit tagged", cirq.FrozenCircuit(cirq.X(a), tags=["ft"]))
    add("FrozenCircuit tagged 2", base.with_tags("x", 1))
    add("Moment()", cirq.Moment())
    add("Moment ops", cirq.Moment(cirq.X(a), cirq.CZ(b, c)))
    add("Moment tagged", cirq.Moment(cirq.X(a), tags=("mt",)))
    add("Moment tagged 2", cirq.Moment(cirq.X(a), cirq.Y(b), tags=("mt", cirq.RoutingSwapTag())))
    add("Circuit with tagged moments", cirq.Circuit(cirq.Moment(cirq.X(a), tags=("mt",)), cirq.Moment(cirq.Y(a)),
                                                    cirq.Moment(cirq.Z(a), tags=("mt",))))
    add("Circuit same op twice", cirq.Circuit([cirq.X(a)] * 3))
    same_op = cirq.CZ(a, b).with_tags("shared")
    add("Circuit shared tagged op object", cirq.Circuit(same_op, same_op, cirq.Moment(same_op)))
    # circuit operations
    co = cirq.CircuitOperation(base)
    add("CircuitOperation(base)", co)
    add("CircuitOperation reps 3", cirq.CircuitOperation(base, repetitions=3))
    add("CircuitOperation reps -1", cirq.CircuitOperation(one, repetitions=-1))
    add("CircuitOperation reps 0", cirq.CircuitOperation(one, repetitions=0))
    add("CircuitOperation reps 3 no ids", cirq.CircuitOperation(base, repetitions=3, use_repetition_ids=False))
    add("CircuitOperation reps ids", cirq.CircuitOperation(base, repetitions=2, repetition_ids=["x", "y"], use_repetition_ids=True))
    add("CircuitOperation symbolic reps", cirq.CircuitOperation(one, repetitions=A))
    add("CircuitOperation qubit_map", cirq.CircuitOperation(base, qubit_map={a: c, b: n2}))
    add("CircuitOperation qubit_map swap", cirq.CircuitOperation(base, qubit_map={a: b, b: a}))
    add("CircuitOperation key_map", cirq.CircuitOperation(base, measurement_key_map={"m": "n"}))
    add("CircuitOperation param_resolver", cirq.CircuitOperation(par, param_resolver={A: 0.5, B: A}))
    add("CircuitOperation param_resolver str", cirq.CircuitOperation(par, param_resolver={"a": g}))
    add("CircuitOperation parent_path", cirq.CircuitOperation(base, parent_path=("p", "q")))
    add("CircuitOperation repeat_until", cirq.CircuitOperation(base, use_repetition_ids=False,
                                                               repeat_until=cirq.KeyCondition(cirq.MeasurementKey("m"))))
    add("CircuitOperation repeat_until sympy", cirq.CircuitOperation(
        base, use_repetition_ids=False, repeat_until=cirq.SympyCondition(sympy.Symbol("m") > 0)))
    add("CircuitOperation everything", cirq.CircuitOperation(
        par, repetitions=2, qubit_map={a: d}, measurement_key_map={}, param_resolver={A: 1.5}, repetition_ids=["r0", "r1"],
        parent_path=("pp",), use_repetition_ids=True))
    add("CircuitOperation extern_keys", cirq.CircuitOperation(cirq.FrozenCircuit(cirq.X(a).with_classical_controls("m"))))
    add("CircuitOperation tagged", co.with_tags("t"))
    add("CircuitOperation of empty", cirq.CircuitOperation(empty))
    # shared sub-circuits: VAL/REF memo
    add("shared FrozenCircuit used twice", cirq.Circuit(cirq.CircuitOperation(base), cirq.CircuitOperation(base, repetitions=2)))
    add("shared FrozenCircuit used twice (same op)", cirq.Circuit(co, co))
    add("equal but distinct FrozenCircuits", cirq.Circuit(
        cirq.CircuitOperation(cirq.FrozenCircuit(cirq.X(a))), cirq.CircuitOperation(cirq.FrozenCircuit(cirq.X(a)))))
    add("sub-circuit inside and outside", [base, cirq.CircuitOperation(base), base])
    add("sub-circuit outside then inside circuit", {"c": base, "op": cirq.Circuit(cirq.CircuitOperation(base))})
    nested = cirq.FrozenCircuit(cirq.CircuitOperation(base, repetitions=2), cirq.X(c))
    add("nested 2 levels", cirq.Circuit(cirq.CircuitOperation(nested, repetitions=2)))
    add("nested 2 levels + inner outside", cirq.Circuit(cirq.CircuitOperation(nested), cirq.CircuitOperation(base, qubit_map={a: c, b: d})))
    deep = cirq.FrozenCircuit(cirq.CircuitOperation(nested), cirq.CircuitOperation(nested, qubit_map={a: d}))
    add("nested 3 levels shared", cirq.Circuit(cirq.CircuitOperation(deep), cirq.CircuitOperation(base, measurement_key_map={"m": "z"})))
    add("frozen tagged vs untagged shared", [cirq.CircuitOperation(base), cirq.CircuitOperation(base.with_tags("t"))])
    add("list of two FrozenCircuit differing by tags", [base, base.with_tags("t"), base])
    add("controlled circuit op", cirq.CircuitOperation(one).controlled_by(b))
    add("classically controlled circuit op", cirq.CircuitOperation(one).with_classical_controls("m"))
    add("circuit op in moment", cirq.Moment(cirq.CircuitOperation(one), cirq.Y(b)))
    add("quantum volume result", ccq.QuantumVolumeResult(
        model_circuit=cirq.Circuit(cirq.H(a)), heavy_set=[1, 2], compiled_circuit=cirq.Circuit(cirq.H(a)), sampler_result=0.5))
    return out


# ---------------------------------------------------------------------------------------------
# sweeps, results, tableaux


def sweep_pool(seed, thorough):
    g = core.generic(seed, 9)
    out = []

    def add(label, v):
        out.append((label, v))

    leaves = [cirq.Points("a", [1, 2, 3]), cirq.Points("b", [0.5]), cirq.Points("a", []), cirq.Points(A, [g, -g]),
              cirq.Points("c", [1, 2.5], metadata="md"), cirq.Points("a", [np.float64(0.5), np.int64(2)]),
              cirq.Linspace("a", 0, 1, 3), cirq.Linspace("b", -1, 1, 1), cirq.Linspace("c", 0.5, 0.5, 2),
              cirq.Linspace(B, 0, g, 4), cirq.Linspace("a", 0, 1, 5, metadata={"k": 1}), cirq.Linspace("a", 1, 0, 2),
              cirq.UnitSweep]
    for l in leaves:
        add(f"{l!r}", l)
    la, lb, lc = cirq.Points("a", [1, 2, 3]), cirq.Points("b", [4, 5]), cirq.Linspace("c", 0, 1, 3)
    add("Product(a,b)", cirq.Product(la, lb))
    add("Product(b,a)", cirq.Product(lb, la))
    add("Product()", cirq.Product())
    add("Product(a)", cirq.Product(la))
    add("a*b*c", la * lb * lc)
    add("Zip(a,c)", cirq.Zip(la, lc))
    add("Zip(a,b) unequal", cirq.Zip(la, lb))
    add("Zip()", cirq.Zip())
    add("a+c", la + lc)
    add("ZipLongest(a,b)", cirq.ZipLongest(la, lb))
    add("ZipLongest(b,a)", cirq.ZipLongest(lb, la))
    add("ZipLongest()", cirq.ZipLongest())
    add("Concat(a,a2)", cirq.Concat(la, cirq.Points("a", [9])))
    add("Concat(a)", cirq.Concat(la))
    add("Concat(lin,pts)", cirq.Concat(cirq.Linspace("c", 0, 1, 2), cirq.Points("c", [5])))
    add("Product(Zip(a,c),b)", cirq.Product(cirq.Zip(la, lc), lb))
    add("Zip(Product(a,b),Linspace6)", cirq.Zip(cirq.Product(la, lb), cirq.Linspace("c", 0, 1, 6)))
    add("ZipLongest(Concat,Product)", cirq.ZipLongest(cirq.Concat(la, la), cirq.Product(lb, lc)))
    add("ListSweep dicts", cirq.ListSweep([{"a": 1, "b": 2}, {"a": 3, "b": 4}]))
    add("ListSweep resolvers", cirq.ListSweep([cirq.ParamResolver({"a": 0.5}), cirq.ParamResolver({"a": 1.5})]))
    add("ListSweep symbols", cirq.ListSweep([{A: 1}, {A: B}]))
    add("ListSweep empty", cirq.ListSweep([]))
    add("to_sweep(dict product)", cirq.dict_to_product_sweep({"a": [1, 2], "b": [3]}))
    add("dict_to_zip_sweep", cirq.dict_to_zip_sweep({"a": [1, 2], "b": [3, 4]}))
    add("DeviceParameter", cirq_google.study.DeviceParameter(path=["a", "b"], idx=2, value=0.5, units="GHz"))
    add("DeviceParameter min", cirq_google.study.DeviceParameter(path=["a"]))
    add("Points with DeviceParameter metadata", cirq.Points("a", [1, 2], metadata=cirq_google.study.DeviceParameter(path=["p"], idx=0)))
    add("google Metadata", cirq_google.study.Metadata(
        device_parameters=[cirq_google.study.DeviceParameter(path=["a"], idx=1)], is_const=True, label="l", unit="ns"))
    add("google Metadata default", cirq_google.study.Metadata())
    return out


def result_pool(seed, thorough):
    out = []

    def add(label, v):
        out.append((label, v))

    shapes = [(0, 1), (1, 1), (3, 1), (2, 3), (4, 2)]
    for reps, nq in shapes:
        arr = (np.arange(reps * nq).reshape(reps, nq) % 2).astype(np.uint8)
        for dt in (np.uint8, np.int64, np.bool_, np.int8):
            add(f"ResultDict measurements {reps}x{nq} {dt.__name__}",
                cirq.ResultDict(params=cirq.ParamResolver({}), measurements={"m": arr.astype(dt)}))
    add("ResultDict no keys", cirq.ResultDict(params=cirq.ParamResolver({"a": 0.5}), measurements={}))
    add("ResultDict two keys", cirq.ResultDict(params=cirq.ParamResolver({"a": 1, "b": 2.5}), measurements={
        "x": np.array([[0, 1], [1, 1]], dtype=np.uint8), "y": np.array([[1], [0]], dtype=np.uint8)}))
    add("ResultDict key order", cirq.ResultDict(params=cirq.ParamResolver({}), measurements={
        "q10": np.array([[1]], dtype=np.uint8), "q2": np.array([[0]], dtype=np.uint8)}))
    add("ResultDict qutrit values", cirq.ResultDict(params=cirq.ParamResolver({}), measurements={
        "t": np.array([[0, 2], [1, 2], [2, 0]], dtype=np.uint8)}))
    add("ResultDict records 3d", cirq.ResultDict(params=cirq.ParamResolver({}), records={
        "r": np.array([[[0, 1], [1, 1]], [[1, 0], [0, 0]]], dtype=np.uint8)}))
    add("ResultDict records instances differ", cirq.ResultDict(params=cirq.ParamResolver({"a": A}), records={
        "r": np.zeros((2, 3, 1), dtype=np.uint8), "s": np.ones((2, 1, 2), dtype=np.uint8)}))
    add("ResultDict records zero instances", cirq.ResultDict(params=cirq.ParamResolver({}), records={
        "r": np.zeros((2, 0, 1), dtype=np.uint8)}))
    add("ResultDict wide 70", cirq.ResultDict(params=cirq.ParamResolver({}), measurements={
        "w": (np.arange(140).reshape(2, 70) % 3 == 0).astype(np.uint8)}))
    add("ResultDict keypath", cirq.ResultDict(params=cirq.ParamResolver({}), measurements={"a:b:m": np.array([[1]], dtype=np.uint8)}))
    add("EngineResult", cirq_google.EngineResult(job_id="j", params=cirq.ParamResolver({"a": 1}),
                                                 measurements={"m": np.array([[0, 1], [1, 0]], dtype=np.uint8)}))
    add("EngineResult records", cirq_google.EngineResult(job_id="", params=cirq.ParamResolver({}),
                                                         records={"m": np.array([[[0, 1]], [[1, 0]]], dtype=np.uint8)}))
    q = cirq.LineQubit.range(2)
    add("SingleQubitReadoutCalibrationResult", cirq.experiments.SingleQubitReadoutCalibrationResult(
        zero_state_errors={q[0]: 0.1, q[1]: 0.2}, one_state_errors={q[0]: 0.3, q[1]: 0.4}, repetitions=1000, timestamp=0.5))
    add("SingleQubitReadoutCalibrationResult grid", cirq.experiments.SingleQubitReadoutCalibrationResult(
        zero_state_errors={cirq.GridQubit(0, 1): 0.0}, one_state_errors={cirq.GridQubit(0, 1): 1.0}, repetitions=0, timestamp=1e9))
    cmx = np.array([[0.9, 0.1], [0.2, 0.8]])
    add("TensoredConfusionMatrices 1", cirq.TensoredConfusionMatrices(cmx, [q[0]], repetitions=10, timestamp=1.5))
    add("TensoredConfusionMatrices 2", cirq.TensoredConfusionMatrices([cmx, np.eye(4)], [[q[0]], [q[1], cirq.LineQubit(5)]],
                                                                      repetitions=100, timestamp=0))
    add("XEBPhasedFSimCharacterizationOptions default", cirq.experiments.XEBPhasedFSimCharacterizationOptions())
    add("XEBPhasedFSimCharacterizationOptions custom", cirq.experiments.XEBPhasedFSimCharacterizationOptions(
        characterize_theta=False, characterize_phi=False, theta_default=0.5, zeta_default=0.0, chi_default=None,
        gamma_default=-0.25, phi_default=1))
    for args in [(0, False, False), (1, True, False), (0, True, True), (2, False, True)]:
        add(f"GridInteractionLayer{args}", cirq.experiments.GridInteractionLayer(*args))
    return out


def tableau_bfs(limit_depth):
    """BFS closure of the 2-qubit Clifford tableaux under H0,H1,S0,S1,CZ (all 11520 when limit_depth is None)."""
    q = cirq.LineQubit.range(2)

    def tab(ops):
        return cirq.CliffordGate.from_op_list(ops, q).clifford_tableau

    gens = [tab([cirq.H(q[0])]), tab([cirq.H(q[1])]), tab([cirq.S(q[0])]), tab([cirq.S(q[1])]), tab([cirq.CZ(*q)])]

    def key(t):
        return (t.matrix().tobytes(), t.rs.tobytes())

    start = cirq.CliffordTableau(2)
    seen = {key(start)}
    order = [start]
    frontier = [start]
    depth = 0
    while frontier and (limit_depth is None or depth < limit_depth):
        nxt = []
        for t in frontier:
            for gt in gens:
                u = t.then(gt)
                k = key(u)
                if k not in seen:
                    seen.add(k)
                    order.append(u)
                    nxt.append(u)
        frontier = nxt
        depth += 1
    return order


def tableau_pool(seed, thorough):
    out = []
    for i, c in enumerate(cirq.SingleQubitCliffordGate.all_single_qubit_cliffords):
        out.append((f"CliffordTableau 1q[{i}]", c.clifford_tableau))
    for n in (1, 2, 3):
        for init in (0, 1, 2**n - 1):
            out.append((f"CliffordTableau({n},{init})", cirq.CliffordTableau(n, initial_state=init)))
    tabs = tableau_bfs(None if thorough else 3)
    for i, t in enumerate(tabs):
        out.append((f"CliffordTableau 2q bfs[{i}]", t))
    step = 1 if not thorough else 16
    for i in range(0, len(tabs), step):
        out.append((f"CliffordGate 2q bfs[{i}]", cirq.CliffordGate.from_clifford_tableau(tabs[i])))
    for n in (1, 2, 3):
        for init in (0, 1, 2**n - 1):
            out.append((f"StabilizerStateChForm({n},{init})", cirq.StabilizerStateChForm(n, init)))
    st = cirq.StabilizerStateChForm(2)
    st.apply_h(0)
    st.apply_cx(0, 1)
    st.apply_z(1, 0.5)
    out.append(("StabilizerStateChForm bell+S", st))
    q = cirq.LineQubit.range(2)
    out.append(("CliffordState default", cirq.CliffordState({q[0]: 0, q[1]: 1})))
    out.append(("CliffordState initial 2", cirq.CliffordState({q[0]: 0, q[1]: 1}, initial_state=2)))
    out.append(("CliffordState from ch form", cirq.CliffordState({q[0]: 0, q[1]: 1}, initial_state=st)))
    return out


# ---------------------------------------------------------------------------------------------
# gatesets, noise models, devices, vendor workflow objects


def gateset_pool(seed, thorough):
    g = core.generic(seed, 10)
    out = []

    def add(label, v):
        out.append((label, v))

    gates = [cirq.X, cirq.XPowGate, cirq.Z**0.5, cirq.CZPowGate, cirq.CZ, cirq.ZPowGate, cirq.MeasurementGate,
             cirq.PhasedXZGate, cirq.FSimGate(g, 0.5), cirq.GlobalPhaseGate, cirq.XPowGate(global_shift=-0.5)]
    for gt in gates:
        add(f"GateFamily({gt!r})", cirq.GateFamily(gt))
        add(f"GateFamily({gt!r},ignore_global_phase=False)", cirq.GateFamily(gt, ignore_global_phase=False))
    add("GateFamily named", cirq.GateFamily(cirq.X, name="nm", description="desc"))
    add("GateFamily tags_to_accept", cirq.GateFamily(cirq.ZPowGate, tags_to_accept=[cirq_google.PhysicalZTag()]))
    add("GateFamily tags_to_ignore", cirq.GateFamily(cirq.ZPowGate, tags_to_ignore=[cirq_google.PhysicalZTag()]))
    add("GateFamily both tags", cirq.GateFamily(cirq.CZ, tags_to_accept=["a"], tags_to_ignore=["b"]))
    add("GateFamily 2 accept tags", cirq.GateFamily(cirq.CZ, tags_to_accept=["a", "b"]))
    add("GateFamily description newline", cirq.GateFamily(cirq.X, name="n", description="line1\nline2"))
    add("GateFamily description quote", cirq.GateFamily(cirq.X, name='say "n"', description="it's \"quoted\""))
    for gt in (cirq.XPowGate, cirq.CZPowGate, cirq.ZZPowGate):
        add(f"AnyIntegerPowerGateFamily({gt.__name__})", cirq.AnyIntegerPowerGateFamily(gt))
    for n in (None, 1, 2, 3):
        add(f"AnyUnitaryGateFamily({n})", cirq.AnyUnitaryGateFamily(n))
    for gt in (cirq.X, cirq.ZPowGate, cirq.CZ):
        for mx in (None, 1, 3):
            add(f"ParallelGateFamily({gt!r},{mx})", cirq.ParallelGateFamily(gt, max_parallel_allowed=mx))
    add("ParallelGateFamily named", cirq.ParallelGateFamily(cirq.X, name="pn", description="pd", max_parallel_allowed=2))
    add("Gateset()", cirq.Gateset())
    add("Gateset(X)", cirq.Gateset(cirq.X))
    add("Gateset(X, XPowGate, CZ)", cirq.Gateset(cirq.X, cirq.XPowGate, cirq.CZ))
    add("Gateset(CZ, X) order", cirq.Gateset(cirq.CZ, cirq.XPowGate, cirq.X))
    add("Gateset named", cirq.Gateset(cirq.X, cirq.MeasurementGate, name="gs"))
    add("Gateset no unroll", cirq.Gateset(cirq.X, unroll_circuit_op=False))
    add("Gateset families", cirq.Gateset(cirq.GateFamily(cirq.ZPowGate, tags_to_accept=["t"]), cirq.AnyUnitaryGateFamily(1),
                                         cirq.ParallelGateFamily(cirq.H), cirq.AnyIntegerPowerGateFamily(cirq.CZPowGate)))
    add("Gateset duplicates", cirq.Gateset(cirq.X, cirq.X, cirq.GateFamily(cirq.X)))
    add("Gateset FSimGateFamily", cirq.Gateset(cirq_google.FSimGateFamily(gates_to_accept=[cirq.CZ])))
    for kw in [{}, {"atol": 1e-6}, {"allow_partial_czs": True}, {"additional_gates": [cirq.XXPowGate]},
               {"additional_gates": [cirq.GateFamily(cirq.ZZ), cirq.H]}, {"preserve_moment_structure": False},
               {"reorder_operations": True, "preserve_moment_structure": False},
               {"allow_partial_czs": True, "atol": 0.5, "reorder_operations": True, "preserve_moment_structure": False}]:
        add(f"CZTargetGateset({kw})", cirq.CZTargetGateset(**kw))
    for kw in [{}, {"atol": 1e-6}, {"required_sqrt_iswap_count": 2}, {"required_sqrt_iswap_count": 3, "use_sqrt_iswap_inv": True},
               {"use_sqrt_iswap_inv": True}, {"additional_gates": [cirq.CZPowGate]}, {"required_sqrt_iswap_count": 0}]:
        add(f"SqrtIswapTargetGateset({kw})", cirq.SqrtIswapTargetGateset(**kw))
    for kw in [{}, {"atol": 1e-5}, {"eject_paulis": True}, {"additional_gates": [cirq.XXPowGate]},
               {"eject_paulis": True, "additional_gates": [cirq.GateFamily(cirq.ZZ)]}]:
        add(f"GoogleCZTargetGateset({kw})", cirq_google.GoogleCZTargetGateset(**kw))
    add("SycamoreTargetGateset()", cirq_google.SycamoreTargetGateset())
    add("SycamoreTargetGateset(atol)", cirq_google.SycamoreTargetGateset(atol=1e-4))
    for kw in [{}, {"atol": 1e-6}]:
        add(f"IonQTargetGateset({kw})", cirq_ionq.IonQTargetGateset(**kw))
        add(f"AriaNativeGateset({kw})", cirq_ionq.AriaNativeGateset(**kw))
        add(f"ForteNativeGateset({kw})", cirq_ionq.ForteNativeGateset(**kw))
    add("PasqalGateset()", cirq_pasqal.PasqalGateset())
    add("PasqalGateset(False)", cirq_pasqal.PasqalGateset(include_additional_controlled_ops=False))
    fs = [{"gates_to_accept": [cirq.CZ]}, {"gates_to_accept": [cirq_google.SYC, cirq.SQRT_ISWAP], "allow_symbols": True},
          {"gate_types_to_check": [cirq.FSimGate]}, {"gates_to_accept": [cirq.FSimGate(0.25, 0.5)], "allow_symbols": True, "atol": 1e-3},
          {"gates_to_accept": [cirq.FSimGate, cirq.ISwapPowGate], "gate_types_to_check": [cirq.PhasedFSimGate]}, {}]
    for kw in fs:
        add(f"FSimGateFamily({kw})", cirq_google.FSimGateFamily(**kw))
    return out


def noise_device_pool(seed, thorough):
    g = core.generic(seed, 11)
    out = []

    def add(label, v):
        out.append((label, v))

    q = cirq.LineQubit.range(3)
    gq = cirq.GridQubit.rect(2, 2)
    add("NO_NOISE", cirq.NO_NOISE)
    for gate in (cirq.depolarize(0.25), cirq.X, cirq.amplitude_damp(0.5), cirq.Z**0.5):
        add(f"ConstantQubitNoiseModel({gate!r})", cirq.ConstantQubitNoiseModel(gate))
        add(f"ConstantQubitNoiseModel({gate!r},prepend)", cirq.ConstantQubitNoiseModel(gate, prepend=True))
    OpId = cirq.devices.noise_utils.OpIdentifier
    for args in [(cirq.XPowGate,), (cirq.XPowGate, q[0]), (cirq.CZPowGate, q[0], q[1]), (cirq.CZPowGate, q[1], q[0]),
                 (cirq.MeasurementGate, gq[0]), (cirq.ZPowGate, cirq.NamedQubit("q10"))]:
        add(f"OpIdentifier{tuple(map(repr, args))}", OpId(*args))
    for prep, phys in itertools.product((False, True), (False, True)):
        add(f"InsertionNoiseModel({prep},{phys})", cirq.devices.InsertionNoiseModel(
            ops_added={OpId(cirq.XPowGate, q[0]): cirq.depolarize(0.25).on(q[0]), OpId(cirq.CZPowGate, q[0], q[1]): cirq.Z(q[1])},
            prepend=prep, require_physical_tag=phys))
    add("InsertionNoiseModel empty", cirq.devices.InsertionNoiseModel())
    for heat, cool, deph in [(None, None, None), (1e-5, 1e-4, 2e-4), ({q[0]: 1e-5}, {q[0]: 1e-4, q[1]: 2e-4}, None), (0, g * 1e-3, 1e-3)]:
        for phys, skip in [(True, True), (False, False)]:
            add(f"ThermalNoiseModel({heat},{cool},{deph},{phys},{skip})", cirq.devices.ThermalNoiseModel(
                qubits={q[0], q[1]}, gate_durations_ns={cirq.PhasedXZGate: 25.0, cirq.CZPowGate: 30.0},
                heat_rate_GHz=heat, cool_rate_GHz=cool, dephase_rate_GHz=deph, require_physical_tag=phys, skip_measurements=skip))
    add("ThermalNoiseModel prepend", cirq.devices.ThermalNoiseModel(
        qubits={q[0]}, gate_durations_ns={cirq.ZPowGate: 0.0}, cool_rate_GHz=1e-4, prepend=True))
    for p in (0, 0.25, 0.5, g / 4 if 0 < g / 4 < 1 else 0.1):
        add(f"DepolarizingNoiseModel({p})", ccn.DepolarizingNoiseModel(p))
        add(f"DepolarizingNoiseModel({p},prepend)", ccn.DepolarizingNoiseModel(p, prepend=True))
        add(f"ReadoutNoiseModel({p})", ccn.ReadoutNoiseModel(p))
        add(f"ReadoutNoiseModel({p},False)", ccn.ReadoutNoiseModel(p, prepend=False))
        add(f"DampedReadoutNoiseModel({p})", ccn.DampedReadoutNoiseModel(p))
        add(f"DampedReadoutNoiseModel({p},False)", ccn.DampedReadoutNoiseModel(p, prepend=False))
        add(f"DepolarizingWithReadoutNoiseModel({p},0.125)", ccn.DepolarizingWithReadoutNoiseModel(p, 0.125))
        add(f"DepolarizingWithReadoutNoiseModel(0.125,{p})", ccn.DepolarizingWithReadoutNoiseModel(0.125, p))
        add(f"DepolarizingWithDampedReadoutNoiseModel({p},0.125,0.0625)", ccn.DepolarizingWithDampedReadoutNoiseModel(p, 0.125, 0.0625))
        add(f"DepolarizingWithDampedReadoutNoiseModel(0.0625,{p},0.125)", ccn.DepolarizingWithDampedReadoutNoiseModel(0.0625, p, 0.125))
        add(f"DepolarizingWithDampedReadoutNoiseModel(0.125,0.0625,{p})", ccn.DepolarizingWithDampedReadoutNoiseModel(0.125, 0.0625, p))
    add("PerQubitDepolarizingWithDampedReadoutNoiseModel", cirq_google.experimental.PerQubitDepolarizingWithDampedReadoutNoiseModel(
        depol_probs={q[0]: 0.25, q[1]: 0.125}, bitflip_probs={q[0]: 0.0625}, decay_probs={q[1]: 0.5}))
    add("PerQubitDepolarizingWithDampedReadoutNoiseModel none", cirq_google.experimental.PerQubitDepolarizingWithDampedReadoutNoiseModel())
    # devices
    add("UNCONSTRAINED_DEVICE", cirq.UNCONSTRAINED_DEVICE)
    graph = nx.Graph([(q[0], q[1]), (q[1], q[2])])
    add("DeviceMetadata", cirq.DeviceMetadata(q, graph))
    add("DeviceMetadata no edges", cirq.DeviceMetadata([cirq.NamedQubit("q10"), cirq.NamedQubit("q2")], nx.Graph()))
    pairs = [(gq[0], gq[1]), (gq[0], gq[2]), (gq[1], gq[3]), (gq[2], gq[3])]
    gs = cirq.Gateset(cirq.XPowGate, cirq.CZPowGate, cirq.MeasurementGate)
    durs = {cirq.GateFamily(cirq.XPowGate): cirq.Duration(nanos=25), cirq.GateFamily(cirq.CZPowGate): cirq.Duration(nanos=32.5),
            cirq.GateFamily(cirq.MeasurementGate): cirq.Duration(micros=1)}
    gdm = cirq.GridDeviceMetadata(pairs, gs, durs)
    add("GridDeviceMetadata", gdm)
    add("GridDeviceMetadata minimal", cirq.GridDeviceMetadata(pairs[:1], cirq.Gateset(cirq.CZ)))
    add("GridDeviceMetadata isolated + targets", cirq.GridDeviceMetadata(
        pairs[:2], gs, durs, all_qubits=gq + [cirq.GridQubit(5, 5)],
        compilation_target_gatesets=[cirq.CZTargetGateset(), cirq.SqrtIswapTargetGateset()]))
    add("GridDeviceMetadata reversed pairs", cirq.GridDeviceMetadata([(b, a) for a, b in reversed(pairs)], gs, durs))
    add("GridDevice", cirq_google.GridDevice(gdm))
    for n in (1, 2, 5):
        add(f"LineTopology({n + 1})", cirq.LineTopology(n + 1))
    for w, h in [(1, 1), (2, 2), (3, 2), (2, 3)]:
        add(f"TiltedSquareLattice({w},{h})", cirq.TiltedSquareLattice(w, h))
    p3 = [cirq_pasqal.ThreeDQubit(0, 0, 0), cirq_pasqal.ThreeDQubit(1, 0, 0), cirq_pasqal.ThreeDQubit(0, 1, 0.5)]
    p2 = [cirq_pasqal.TwoDQubit(0, 0), cirq_pasqal.TwoDQubit(1, 0), cirq_pasqal.TwoDQubit(10, 2)]
    add("PasqalDevice named", cirq_pasqal.PasqalDevice([cirq.NamedQubit("q10"), cirq.NamedQubit("q2")]))
    add("PasqalVirtualDevice 3d", cirq_pasqal.PasqalVirtualDevice(1.5, p3))
    add("PasqalVirtualDevice 2d", cirq_pasqal.PasqalVirtualDevice(2.0, p2))
    add("PasqalVirtualDevice grid", cirq_pasqal.PasqalVirtualDevice(1.0, cirq.GridQubit.rect(2, 2)))
    add("PasqalVirtualDevice radius generic", cirq_pasqal.PasqalVirtualDevice(1 + abs(g), cirq.LineQubit.range(2)))
    return out


def google_workflow_pool(seed, thorough):
    out = []

    def add(label, v):
        out.append((label, v))

    cg = cirq_google
    q = cirq.LineQubit.range(2)
    circ = cirq.FrozenCircuit(cirq.H(q[0]), cirq.CZ(*q), cirq.measure(*q, key="z"))
    add("BitstringsMeasurement", cg.BitstringsMeasurement(n_repetitions=100))
    spec = cg.KeyValueExecutableSpec(executable_family="fam", key_value_pairs=(("a", 1), ("b", "x"), ("c", 0.5)))
    add("KeyValueExecutableSpec", spec)
    add("KeyValueExecutableSpec.from_dict", cg.KeyValueExecutableSpec.from_dict({"n": 3, "name": "x"}, executable_family="f2"))
    add("KeyValueExecutableSpec empty", cg.KeyValueExecutableSpec(executable_family="e"))
    ex = cg.QuantumExecutable(circuit=circ, measurement=cg.BitstringsMeasurement(10))
    add("QuantumExecutable minimal", ex)
    ex2 = cg.QuantumExecutable(circuit=cirq.FrozenCircuit(cirq.X(q[0]) ** A, cirq.measure(q[0], key="m")),
                               measurement=cg.BitstringsMeasurement(5), params={"a": 0.5}, spec=spec,
                               problem_topology=cirq.LineTopology(2))
    add("QuantumExecutable full", ex2)
    add("QuantumExecutable params tuple", cg.QuantumExecutable(circuit=circ, measurement=cg.BitstringsMeasurement(1),
                                                               params=(("a", 1), ("b", 2.5))))
    add("QuantumExecutableGroup", cg.QuantumExecutableGroup([ex, ex2]))
    add("QuantumExecutableGroup shared circuit", cg.QuantumExecutableGroup(
        [ex, cg.QuantumExecutable(circuit=circ, measurement=cg.BitstringsMeasurement(20))]))
    add("QuantumExecutableGroup empty", cg.QuantumExecutableGroup([]))
    add("NaiveQubitPlacer", cg.NaiveQubitPlacer())
    add("RandomDevicePlacer", cg.RandomDevicePlacer())
    topo = cirq.LineTopology(2)
    add("HardcodedQubitPlacer", cg.HardcodedQubitPlacer({topo: {0: cirq.GridQubit(0, 0), 1: cirq.GridQubit(0, 1)}}))
    tl = cirq.TiltedSquareLattice(1, 1)
    add("HardcodedQubitPlacer tilted", cg.HardcodedQubitPlacer(
        {tl: {n: cirq.GridQubit(*n) for n in tl.graph.nodes}, topo: {0: cirq.GridQubit(3, 3), 1: cirq.GridQubit(3, 4)}}))
    add("EngineProcessorRecord", cg.EngineProcessorRecord("rainbow"))
    add("SimulatedProcessorRecord", cg.SimulatedProcessorRecord("rainbow"))
    add("SimulatedProcessorRecord noise", cg.SimulatedProcessorRecord("rainbow", noise_strength=0.5))
    add("SimulatedProcessorRecord inf", cg.SimulatedProcessorRecord("weber", noise_strength=float("inf")))
    add("SimulatedProcessorWithLocalDeviceRecord", cg.SimulatedProcessorWithLocalDeviceRecord("rainbow", noise_strength=0.25))
    rc = cg.QuantumRuntimeConfiguration(processor_record=cg.SimulatedProcessorRecord("rainbow"), run_id="r1", random_seed=7,
                                        qubit_placer=cg.RandomDevicePlacer(), target_gateset=cirq.CZTargetGateset())
    add("QuantumRuntimeConfiguration full", rc)
    rc0 = cg.QuantumRuntimeConfiguration(processor_record=cg.EngineProcessorRecord("p"))
    add("QuantumRuntimeConfiguration minimal", rc0)
    ri = cg.RuntimeInfo(execution_index=3, qubit_placement={0: cirq.GridQubit(0, 0), 1: cirq.GridQubit(0, 1)},
                        timings_s={"placement": 0.5, "run": 1.25})
    add("RuntimeInfo", ri)
    add("RuntimeInfo minimal", cg.RuntimeInfo(execution_index=0))
    add("RuntimeInfo tuple keys", cg.RuntimeInfo(execution_index=1, qubit_placement={(0, 0): cirq.GridQubit(0, 0)}))
    sri = cg.SharedRuntimeInfo(run_id="r1", device=cirq.UNCONSTRAINED_DEVICE,
                               run_start_time=datetime.datetime(2021, 1, 1, tzinfo=datetime.timezone.utc),
                               run_end_time=datetime.datetime(2021, 1, 2, 3, 4, 5, 600000, tzinfo=datetime.timezone.utc))
    add("SharedRuntimeInfo", sri)
    add("SharedRuntimeInfo minimal", cg.SharedRuntimeInfo(run_id="r0"))
    res = cirq.ResultDict(params=cirq.ParamResolver({"a": 0.5}), measurements={"z": np.array([[0, 1], [1, 1]], dtype=np.uint8)})
    er = cg.ExecutableResult(spec=spec, runtime_info=ri, raw_data=res)
    add("ExecutableResult", er)
    add("ExecutableResult no spec", cg.ExecutableResult(spec=None, runtime_info=cg.RuntimeInfo(execution_index=0), raw_data=res))
    add("ExecutableGroupResult", cg.ExecutableGroupResult(runtime_configuration=rc, shared_runtime_info=sri, executable_results=[er, er]))
    add("ExecutableGroupResult empty", cg.ExecutableGroupResult(runtime_configuration=rc0,
                                                                shared_runtime_info=cg.SharedRuntimeInfo(run_id="x"),
                                                                executable_results=[]))
    add("ExecutableGroupResultFilesystemRecord", cg.ExecutableGroupResultFilesystemRecord(
        runtime_configuration_path="a.json.gz", shared_runtime_info_path="b.json.gz",
        executable_result_paths=["c.0.json.gz", "c.1.json.gz"], run_id="r1"))
    add("CalibrationLayer", cg.CalibrationLayer(calibration_type="xeb", program=cirq.Circuit(cirq.X(q[0])), args={"a": 1, "b": "s", "c": 0.5}))
    add("CalibrationLayer empty args", cg.CalibrationLayer(calibration_type="", program=cirq.Circuit(), args={}))
    # calibration from a metrics proto
    from cirq_google.api import v2
    snap = v2.metrics_pb2.MetricsSnapshot(timestamp_ms=1562544000021, metrics=[
        v2.metrics_pb2.Metric(name="xeb", targets=["0_0", "0_1"], values=[v2.metrics_pb2.Value(double_val=0.9999)]),
        v2.metrics_pb2.Metric(name="xeb", targets=["0_0", "1_0"], values=[v2.metrics_pb2.Value(double_val=0.9998)]),
        v2.metrics_pb2.Metric(name="t1", targets=["0_0"], values=[v2.metrics_pb2.Value(double_val=321)]),
        v2.metrics_pb2.Metric(name="globalMetric", values=[v2.metrics_pb2.Value(int32_val=12300)]),
        v2.metrics_pb2.Metric(name="strmetric", targets=["q0_1"], values=[v2.metrics_pb2.Value(str_val="abc")]),
    ])
    add("Calibration", cg.Calibration(snap))
    add("Calibration empty", cg.Calibration())
    add("Calibration from metrics dict", cg.Calibration(metrics={"m": {(cirq.GridQubit(0, 0),): [1.5], (cirq.GridQubit(0, 1),): [2.5, 3]}}))
    # google ops
    import cirq_google.ops.lzs_reset as lzs
    import cirq_google.ops.multi_level_reset as mlr
    import cirq_google.ops.leakage_iswap as lis
    add("LZSResetViaResonator", lzs.LZSResetViaResonator())
    add("LZSResetViaResonator kwargs", lzs.LZSResetViaResonator(num_qubits=2, a=1, b=0.5))
    add("MultilevelResetViaResonator", mlr.MultilevelResetViaResonator())
    add("MultilevelResetViaResonator kwargs", mlr.MultilevelResetViaResonator(num_qubits=1, x="s"))
    add("LeakageISWAP", lis.LeakageISWAP())
    add("LeakageISWAP not phase matched", lis.LeakageISWAP(phase_matched=False))
    # tunits payloads are not resolvable by the default resolvers (the repos' spec: "TODO tunits"); symbols only
    add("AnalogDetuneQubit symbols", cg.ops.analog_detune_gates.AnalogDetuneQubit(
        length=A, w=B, target_freq=sympy.Symbol("f"), prev_freq=None))
    add("AnalogDetuneQubit symbols dict", cg.ops.analog_detune_gates.AnalogDetuneQubit(
        length=A, w=B, target_freq=None, prev_freq=sympy.Symbol("p"), neighbor_coupler_g_dict={"c": sympy.Symbol("g")},
        prev_neighbor_coupler_g_dict={"c": sympy.Symbol("h")}, linear_rise=False))
    add("AnalogDetuneCouplerOnly symbols", cg.ops.analog_detune_gates.AnalogDetuneCouplerOnly(
        length=A, w=B, g_0=sympy.Symbol("g0"), g_max=sympy.Symbol("g1"), g_ramp_exponent=1.5,
        neighbor_qubits_freq=(sympy.Symbol("f0"), None), prev_neighbor_qubits_freq=(None, sympy.Symbol("f1"))))
    add("WaitGateWithUnit symbol", cg.ops.wait_gate.WaitGateWithUnit(A, num_qubits=2))
    return out


def _ns():
    import tunits
    return tunits.ns


def _ghz():
    import tunits
    return tunits.GHz


def _mhz():
    import tunits
    return tunits.MHz


# ---------------------------------------------------------------------------------------------
# equal time values in every unit x numeric form (equal => equal hash needs the SAME total written differently)


def duration_pool(seed, thorough):
    """-> (cirq values, raw datetime.timedelta values).  Totals (in picoseconds) x unit x numeric form."""
    out = []
    tds = []
    units = [("picos", 1), ("nanos", 1000), ("micros", 1000_000), ("millis", 1000_000_000)]
    forms = [("int", int), ("float", float), ("np.int64", np.int64), ("np.int32", np.int32), ("np.float64", np.float64),
             ("np.float32", np.float32)]
    # whole microseconds (the timedelta hash branch), non-whole microseconds, sub-nanosecond, zero, negative
    totals = [0, 1_000_000, 2_000_000, 1_000_000_000, 500_000_000, 3_000_000_000, -1_000_000, 1_500_000, 2500, 1000, 1, 7]
    if thorough:
        totals += [60_000_000_000_000, 999_000_000, 1_000_001, 250_000, -2_000_000_000]
    q = cirq.LineQubit(0)
    for total in totals:
        for unit, mult in units:
            for fname, conv in forms:
                if fname.startswith("np.int") or fname == "int":
                    if total % mult or (fname == "np.int32" and abs(total // mult) >= 2**31):
                        continue
                    v = conv(total // mult)
                else:
                    v = conv(total / mult)
                    if float(v) * mult != total:
                        continue  # this numeric form cannot represent the total exactly in this unit
                d = cirq.Duration(**{unit: v})
                out.append((f"Duration({unit}={fname}({v!r})) total {total} ps", d))
        if total % 1_000_000 == 0:
            tds.append((f"timedelta(microseconds={total // 1_000_000})", datetime.timedelta(microseconds=total // 1_000_000)))
            out.append((f"Duration(timedelta {total} ps)", cirq.Duration(datetime.timedelta(microseconds=total // 1_000_000))))
        # arithmetic / mixed-unit ways to reach the same total
        out.append((f"Duration(picos={total}) * 1.0", cirq.Duration(picos=total) * 1.0))
        out.append((f"Duration(picos={3 * total}) / 3", cirq.Duration(picos=3 * total) / 3))
        out.append((f"Duration(picos={total}) + Duration()", cirq.Duration(picos=total) + cirq.Duration()))
        if total % 2 == 0:
            out.append((f"Duration(picos={total // 2}, nanos={total / 2000!r})", cirq.Duration(picos=total // 2, nanos=total / 2000)))
        out.append((f"resolved Duration(nanos=a) a={total / 1000!r}",
                    cirq.resolve_parameters(cirq.Duration(nanos=A), {"a": total / 1000})))
        if total % 1000 == 0:
            out.append((f"resolved Duration(nanos=a) a={total // 1000!r}",
                        cirq.resolve_parameters(cirq.Duration(nanos=A), {"a": total // 1000})))
        # timestamps (not JSON-serializable: repr / pickle / copy / hash only)
        for fname, conv in forms[:2] + forms[4:5]:
            out.append((f"Timestamp(picos={fname}) {total}", cirq.Timestamp(picos=conv(total))))
            if total % 1000 == 0 or fname != "int":
                v = conv(total // 1000) if fname == "int" else conv(total / 1000)
                out.append((f"Timestamp(nanos={fname}) {total}", cirq.Timestamp(nanos=v)))
    # values whose hash is built from a duration
    for total in (1_000_000, 2500, 0):
        variants = [cirq.Duration(picos=total), cirq.Duration(picos=float(total)), cirq.Duration(nanos=total / 1000)]
        if total % 1_000_000 == 0:
            variants.append(cirq.Duration(micros=total // 1_000_000))
            variants.append(cirq.Duration(micros=float(total // 1_000_000)))
        for vi, d in enumerate(variants):
            gate = cirq.WaitGate(d)
            out.append((f"WaitGate(variant {vi} of {total} ps)", gate))
            out.append((f"WaitGate.on (variant {vi} of {total} ps)", gate.on(q)))
            out.append((f"Moment(wait) (variant {vi} of {total} ps)", cirq.Moment(gate.on(q))))
            out.append((f"FrozenCircuit(wait) (variant {vi} of {total} ps)", cirq.FrozenCircuit(gate.on(q))))
    out.append(("cirq.wait(q, nanos=1000.0)", cirq.wait(q, nanos=1000.0)))
    out.append(("cirq.wait(q, micros=1)", cirq.wait(q, micros=1)))
    return out, tds


# ---------------------------------------------------------------------------------------------


def build(tier, seed):
    thorough = tier == "thorough"
    groups = {}
    groups["qids"] = qid_pool(thorough)
    groups["raw"] = raw_pool(seed)
    groups["values"] = value_pool(seed)
    groups["gates"] = gate_pool(seed, thorough)
    groups["ops"] = op_pool(seed, thorough)
    groups["paulis"] = pauli_pool(seed, thorough)
    groups["circuits"] = circuit_pool(seed, thorough)
    groups["sweeps"] = sweep_pool(seed, thorough)
    groups["results"] = result_pool(seed, thorough)
    groups["tableaux"] = tableau_pool(seed, thorough)
    groups["gatesets"] = gateset_pool(seed, thorough)
    groups["noise_devices"] = noise_device_pool(seed, thorough)
    groups["google_workflow"] = google_workflow_pool(seed, thorough)
    groups["durations"], groups["_timedeltas"] = duration_pool(seed, thorough)
    return groups
