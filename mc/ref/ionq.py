"""Independent interpreter of IonQ's documented JSON job format (API v0.4, "ionq.circuit.v1" and
"ionq.multi-circuit.v1"), written with plain numpy.  Nothing in here imports cirq or cirq_ionq.

Documented semantics implemented here
-------------------------------------
input = {"gateset": "qis" | "native", "qubits": n, "circuit": [op, ...]}        (single circuit)
input = {"gateset": ..., "qubits": n, "circuits": [{"circuit": [op, ...]}, ...]} (multi circuit)

An op is {"gate": name, "target": t | "targets": [t..], optional "control": c | "controls": [c..], ...}.

QIS gates (angles in RADIANS, field "rotation"):
    x y z h, not (= x)
    s = diag(1, i), si = s^-1, t = diag(1, e^{i pi/4}), ti = t^-1, v = sqrt(x), vi = v^-1
    rx ry rz  : exp(-i rotation P / 2)
    xx yy zz  : exp(-i rotation P(x)P / 2)
    cnot      : x on "target" controlled by "control";  swap
    pauliexp  : exp(-i * time * sum_k coefficients[k] * P_k), P_k given by the string terms[k]; the term strings
                are little-endian w.r.t. the op's targets list: the LAST character acts on targets[0]
                (cirq_ionq/serializer.py: "Cirq uses big-endian ordering while IonQ API uses little-endian ordering");
                negative evolution times are not supported by the API.
Native gates (phases / angles in TURNS):
    gpi(phase)   = [[0, e^{-2 pi i phase}], [e^{2 pi i phase}, 0]]
    gpi2(phase)  = exp(-i pi/4 * gpi(phase))
    ms(phases=[p0, p1], angle=0.25) = exp(-i pi angle * gpi(p0) (x) gpi(p1))
    zz(angle)    = exp(-i pi angle * Z (x) Z)      (cirq_ionq emits the value in the field "phase"; both names accepted)

Qubit i of the program is wire i; unitaries are assembled big-endian (wire 0 = most significant bit) so that they are
directly comparable with `circuit.unitary(qubit_order=LineQubit.range(n))`.

Results: the API reports a histogram {str(k): probability} where k is the LITTLE-endian integer of the
outcome: bit i of k (k >> i & 1) is the result of qubit i.

Measurements do not exist in the API; cirq_ionq documents (Serializer._serialize_measurements) how it passes them
through the job metadata: every measurement is key + chr(31) + comma separated targets, the measurements are joined
with chr(30), and the resulting string is cut in chunks of at most 40 characters stored under "measurement0",
"measurement1", ... (at most 9 chunks).
"""
from __future__ import annotations

import cmath
import json
import math
from typing import Dict, List, Sequence, Tuple

import numpy as np


class PayloadRejected(Exception):
    """The program violates the documented format: the IonQ API would refuse it (never silently run it)."""


I2 = np.eye(2, dtype=np.complex128)
PX = np.array([[0, 1], [1, 0]], dtype=np.complex128)
PY = np.array([[0, -1j], [1j, 0]], dtype=np.complex128)
PZ = np.array([[1, 0], [0, -1]], dtype=np.complex128)
HAD = np.array([[1, 1], [1, -1]], dtype=np.complex128) / math.sqrt(2)
PAULI = {"I": I2, "X": PX, "Y": PY, "Z": PZ}


def kron(*ms):
    out = np.eye(1, dtype=np.complex128)
    for m in ms:
        out = np.kron(out, m)
    return out


def rot(p: np.ndarray, theta: float) -> np.ndarray:
    """exp(-i theta p / 2) for an involution p (p @ p = 1)."""
    d = p.shape[0]
    return math.cos(theta / 2) * np.eye(d, dtype=np.complex128) - 1j * math.sin(theta / 2) * p


def phase_gate(angle: float) -> np.ndarray:
    return np.array([[1, 0], [0, cmath.exp(1j * angle)]], dtype=np.complex128)


def sqrt_x(sign: int) -> np.ndarray:
    # principal square root of X: (1+i)/2 [[1, -i], [-i, 1]]; inverse is its conjugate
    m = 0.5 * np.array([[1 + 1j, 1 - 1j], [1 - 1j, 1 + 1j]], dtype=np.complex128)
    return m if sign > 0 else m.conj().T


CNOT = np.array([[1, 0, 0, 0], [0, 1, 0, 0], [0, 0, 0, 1], [0, 0, 1, 0]], dtype=np.complex128)
SWAP = np.array([[1, 0, 0, 0], [0, 0, 1, 0], [0, 1, 0, 0], [0, 0, 0, 1]], dtype=np.complex128)


def _num(x, what):
    if isinstance(x, bool) or not isinstance(x, (int, float, np.integer, np.floating)):
        raise PayloadRejected(f"{what} must be a number, got {x!r}")
    x = float(x)
    if not math.isfinite(x):
        raise PayloadRejected(f"{what} must be finite, got {x!r}")
    return x


def _idx(x, what):
    if isinstance(x, bool) or not isinstance(x, (int, np.integer)):
        raise PayloadRejected(f"{what} must be an integer qubit index, got {x!r}")
    return int(x)


def gpi_axis(phase_turns: float) -> np.ndarray:
    a = 2 * math.pi * phase_turns
    return np.array([[0, cmath.exp(-1j * a)], [cmath.exp(1j * a), 0]], dtype=np.complex128)


def pauli_term(term: str, k: int) -> np.ndarray:
    """Matrix (on k wires, wire j = targets[j]) of a little-endian term string."""
    if not isinstance(term, str) or len(term) != k:
        raise PayloadRejected(f"pauliexp term {term!r} must be a string of {k} characters")
    mats = []
    for j in range(k):
        ch = term[k - 1 - j]  # last character acts on targets[0]
        if ch not in PAULI:
            raise PayloadRejected(f"bad pauli character {ch!r} in {term!r}")
        mats.append(PAULI[ch])
    return kron(*mats)


def controlled(mat: np.ndarray, n_controls: int) -> np.ndarray:
    d = mat.shape[0]
    D = d * (2 ** n_controls)
    out = np.eye(D, dtype=np.complex128)
    out[D - d:, D - d:] = mat
    return out


def op_matrix(op: dict, gateset: str) -> Tuple[np.ndarray, List[int]]:
    """(matrix, wires) of one program op; wires = controls followed by targets, matrix big-endian over them."""
    if not isinstance(op, dict) or "gate" not in op:
        raise PayloadRejected(f"op without gate: {op!r}")
    name = op["gate"]
    if "targets" in op and "target" in op:
        raise PayloadRejected(f"both target and targets given: {op!r}")
    if "targets" in op:
        if not isinstance(op["targets"], (list, tuple)):
            raise PayloadRejected(f"targets must be a list: {op!r}")
        targets = [_idx(t, "target") for t in op["targets"]]
    elif "target" in op:
        targets = [_idx(op["target"], "target")]
    else:
        raise PayloadRejected(f"op without targets: {op!r}")
    controls: List[int] = []
    if "controls" in op:
        controls = [_idx(c, "control") for c in op["controls"]]
    elif "control" in op:
        controls = [_idx(op["control"], "control")]
    wires = controls + targets
    if len(set(wires)) != len(wires):
        raise PayloadRejected(f"repeated qubit in {op!r}")
    if any(w < 0 for w in wires):
        raise PayloadRejected(f"negative qubit in {op!r}")

    def need_targets(k):
        if len(targets) != k:
            raise PayloadRejected(f"gate {name} needs {k} target(s): {op!r}")

    if gateset == "qis":
        fixed1 = {
            "x": PX, "not": PX, "y": PY, "z": PZ, "h": HAD,
            "s": phase_gate(math.pi / 2), "si": phase_gate(-math.pi / 2),
            "t": phase_gate(math.pi / 4), "ti": phase_gate(-math.pi / 4),
            "v": sqrt_x(+1), "vi": sqrt_x(-1),
        }
        if name in fixed1:
            need_targets(1)
            m = fixed1[name]
        elif name in ("rx", "ry", "rz"):
            need_targets(1)
            m = rot({"rx": PX, "ry": PY, "rz": PZ}[name], _num(op.get("rotation"), "rotation"))
        elif name in ("xx", "yy", "zz"):
            need_targets(2)
            p = {"xx": PX, "yy": PY, "zz": PZ}[name]
            m = rot(np.kron(p, p), _num(op.get("rotation"), "rotation"))
        elif name == "cnot":
            need_targets(1)
            if len(controls) < 1:
                raise PayloadRejected(f"cnot without control: {op!r}")
            m = PX
        elif name == "swap":
            need_targets(2)
            m = SWAP
        elif name == "pauliexp":
            k = len(targets)
            if k < 1:
                raise PayloadRejected(f"pauliexp without targets: {op!r}")
            terms = op.get("terms")
            coeffs = op.get("coefficients")
            if not isinstance(terms, (list, tuple)) or not isinstance(coeffs, (list, tuple)) or len(terms) != len(coeffs) or not terms:
                raise PayloadRejected(f"pauliexp needs equally long non-empty terms/coefficients: {op!r}")
            time = _num(op.get("time"), "time")
            if time < 0:
                raise PayloadRejected(f"pauliexp does not support negative evolution times: {op!r}")
            ham = np.zeros((2 ** k, 2 ** k), dtype=np.complex128)
            for term, c in zip(terms, coeffs):
                ham = ham + _num(c, "coefficient") * pauli_term(term, k)
            w, v = np.linalg.eigh(ham)
            m = (v * np.exp(-1j * time * w)) @ v.conj().T
        else:
            raise PayloadRejected(f"gate {name!r} is not a QIS gate: {op!r}")
        if controls:
            m = controlled(m, len(controls))
        return m, wires
    if gateset == "native":
        if controls:
            raise PayloadRejected(f"native gates take no controls: {op!r}")
        if name == "gpi":
            need_targets(1)
            return gpi_axis(_num(op.get("phase"), "phase")), wires
        if name == "gpi2":
            need_targets(1)
            return rot(gpi_axis(_num(op.get("phase"), "phase")), math.pi / 2), wires
        if name == "ms":
            need_targets(2)
            ph = op.get("phases")
            if not isinstance(ph, (list, tuple)) or len(ph) != 2:
                raise PayloadRejected(f"ms needs two phases: {op!r}")
            angle = _num(op.get("angle", 0.25), "angle")
            ax = np.kron(gpi_axis(_num(ph[0], "phase")), gpi_axis(_num(ph[1], "phase")))
            return rot(ax, 2 * math.pi * angle), wires
        if name == "zz":
            need_targets(2)
            if "angle" in op:
                angle = _num(op["angle"], "angle")
            else:
                angle = _num(op.get("phase"), "angle")
            return rot(np.kron(PZ, PZ), 2 * math.pi * angle), wires
        raise PayloadRejected(f"gate {name!r} is not a native gate: {op!r}")
    raise PayloadRejected(f"unknown gateset {gateset!r}")


def expand(mat: np.ndarray, wires: Sequence[int], n: int) -> np.ndarray:
    """Full 2^n x 2^n matrix (big-endian, wire 0 most significant) applying mat on `wires` (in that order)."""
    k = len(wires)
    if any(w >= n for w in wires):
        raise PayloadRejected(f"qubit index {max(wires)} out of range for {n} qubits")
    if k == 0:
        return np.eye(2 ** n, dtype=np.complex128) * mat.reshape(())
    D = 2 ** n
    full = np.eye(D, dtype=np.complex128).reshape((2,) * n + (D,))
    m = np.asarray(mat, dtype=np.complex128).reshape((2,) * (2 * k))
    out = np.tensordot(m, full, axes=(list(range(k, 2 * k)), list(wires)))
    out = np.moveaxis(out, list(range(k)), list(wires))
    return out.reshape(D, D)


_EXPAND_CACHE: Dict[tuple, np.ndarray] = {}


def op_full(op: dict, gateset: str, n: int) -> np.ndarray:
    try:
        key = (json.dumps(op, sort_keys=True), gateset, n)
    except (TypeError, ValueError) as e:
        raise PayloadRejected(f"op is not JSON serialisable: {op!r} ({e})")
    hit = _EXPAND_CACHE.get(key)
    if hit is None:
        m, wires = op_matrix(op, gateset)
        hit = expand(m, wires, n)
        if len(_EXPAND_CACHE) > 200000:
            _EXPAND_CACHE.clear()
        _EXPAND_CACHE[key] = hit
    return hit


def check_header(inp: dict) -> Tuple[str, int]:
    if not isinstance(inp, dict):
        raise PayloadRejected("input must be an object")
    gateset = inp.get("gateset", "qis")
    if gateset not in ("qis", "native"):
        raise PayloadRejected(f"unknown gateset {gateset!r}")
    n = inp.get("qubits")
    if isinstance(n, bool) or not isinstance(n, (int, np.integer)) or n < 1:
        raise PayloadRejected(f"qubits must be a positive integer, got {n!r}")
    return gateset, int(n)


def circuit_unitary(ops: Sequence[dict], gateset: str, n: int) -> np.ndarray:
    U = np.eye(2 ** n, dtype=np.complex128)
    for op in ops:
        U = op_full(op, gateset, n) @ U
    return U


def program_unitary(inp: dict) -> np.ndarray:
    """Unitary of a single-circuit input."""
    gateset, n = check_header(inp)
    if "circuit" not in inp or not isinstance(inp["circuit"], (list, tuple)):
        raise PayloadRejected("single-circuit input needs a 'circuit' list")
    return circuit_unitary(inp["circuit"], gateset, n)


def program_unitaries(inp: dict) -> List[np.ndarray]:
    """Unitaries of a multi-circuit input (all over the shared qubit count)."""
    gateset, n = check_header(inp)
    cs = inp.get("circuits")
    if not isinstance(cs, (list, tuple)):
        raise PayloadRejected("multi-circuit input needs a 'circuits' list")
    out = []
    for c in cs:
        if not isinstance(c, dict) or not isinstance(c.get("circuit"), (list, tuple)):
            raise PayloadRejected("every entry of 'circuits' needs a 'circuit' list")
        out.append(circuit_unitary(c["circuit"], gateset, n))
    return out


# ------------------------------------------------------------------------------------------------------------
# results


def le_key_to_bits(k: int, n: int) -> Tuple[int, ...]:
    """Bits (qubit 0, qubit 1, ..., qubit n-1) of a little-endian histogram key."""
    if k < 0 or k >= 2 ** n:
        raise PayloadRejected(f"histogram key {k} out of range for {n} qubits")
    return tuple((k >> i) & 1 for i in range(n))


def bits_to_le_key(bits: Sequence[int]) -> int:
    return sum(int(b) << i for i, b in enumerate(bits))


def be_index_to_bits(i: int, n: int) -> Tuple[int, ...]:
    """Bits (wire 0 .. wire n-1) of a big-endian basis index."""
    return tuple((i >> (n - 1 - w)) & 1 for w in range(n))


def ideal_histogram(U: np.ndarray, n: int, eps: float = 1e-12) -> Dict[str, float]:
    """What an ideal simulator returns for the all-zero input: {little-endian key: probability} (sparse)."""
    amp = U[:, 0]
    out = {}
    for i in range(2 ** n):
        p = float(abs(amp[i]) ** 2)
        if p > eps:
            out[str(bits_to_le_key(be_index_to_bits(i, n)))] = p
    return out


# ------------------------------------------------------------------------------------------------------------
# measurement metadata (documented by cirq_ionq.Serializer._serialize_measurements)

UNIT_SEP = chr(31)
RECORD_SEP = chr(30)
MAX_CHUNK = 40
MAX_CHUNKS = 9


def decode_measurement_metadata(md: dict) -> List[Tuple[str, List[int]]]:
    """Ordered list of (key, targets) encoded in a single circuit's metadata dict; checks the chunk format."""
    chunks = {}
    for k, v in md.items():
        if k.startswith("measurement") and k[len("measurement"):].isdigit():
            chunks[int(k[len("measurement"):])] = v
    if not chunks:
        return []
    if sorted(chunks) != list(range(len(chunks))):
        raise PayloadRejected(f"measurement chunks are not numbered 0..{len(chunks) - 1}: {sorted(chunks)}")
    if len(chunks) > MAX_CHUNKS:
        raise PayloadRejected(f"more than {MAX_CHUNKS} measurement chunks")
    for i in range(len(chunks)):
        if not isinstance(chunks[i], str) or len(chunks[i]) > MAX_CHUNK or len(chunks[i]) == 0:
            raise PayloadRejected(f"measurement chunk {i} is not a string of 1..{MAX_CHUNK} characters: {chunks[i]!r}")
        if i < len(chunks) - 1 and len(chunks[i]) != MAX_CHUNK:
            raise PayloadRejected(f"non-final measurement chunk {i} is not full")
    full = "".join(chunks[i] for i in range(len(chunks)))
    out = []
    for rec in full.split(RECORD_SEP):
        parts = rec.split(UNIT_SEP)
        if len(parts) != 2:
            raise PayloadRejected(f"measurement record {rec!r} does not have exactly one unit separator")
        key, tg = parts
        try:
            targets = [int(t) for t in tg.split(",")]
        except ValueError:
            raise PayloadRejected(f"bad measurement targets {tg!r}")
        out.append((key, targets))
    return out


def encode_measurement_metadata(pairs: Sequence[Tuple[str, Sequence[int]]]) -> Dict[str, str]:
    """Documented encoding (inverse of decode_measurement_metadata)."""
    full = RECORD_SEP.join(f"{k}{UNIT_SEP}{','.join(str(int(t)) for t in ts)}" for k, ts in pairs)
    chunks = [full[i:i + MAX_CHUNK] for i in range(0, len(full), MAX_CHUNK)]
    if len(chunks) > MAX_CHUNKS:
        raise PayloadRejected("measurement metadata too long")
    return {f"measurement{i}": c for i, c in enumerate(chunks)}


def _self_test():
    from mc.ref import embed as E

    rng = np.random.RandomState(5)
    for n, wires in [(3, [2, 0]), (4, [1, 3, 0]), (2, [1]), (3, [0, 1, 2]), (4, [3, 1])]:
        k = len(wires)
        m = rng.randn(2 ** k, 2 ** k) + 1j * rng.randn(2 ** k, 2 ** k)
        assert np.allclose(expand(m, wires, n), E.embed(m, wires, (2,) * n))
    # cnot: control 1 -> target 0 maps |01> to |11>
    m, w = op_matrix({"gate": "cnot", "control": 1, "target": 0}, "qis")
    U = expand(m, w, 2)
    assert abs(U[3, 1] - 1) < 1e-12
    # v*v = x, s*s = z, t*t = s
    assert np.allclose(sqrt_x(1) @ sqrt_x(1), PX) and np.allclose(sqrt_x(1) @ sqrt_x(-1), I2)
    assert np.allclose(phase_gate(math.pi / 4) @ phase_gate(math.pi / 4), phase_gate(math.pi / 2))
    # little-endian term: "XZ" on targets [0, 1] = Z on targets[0], X on targets[1]
    assert np.allclose(pauli_term("XZ", 2), np.kron(PZ, PX))
    # gpi2 formula
    ph = 0.17
    g2 = op_matrix({"gate": "gpi2", "target": 0, "phase": ph}, "native")[0]
    ref = np.array([[1, -1j * cmath.exp(-2j * math.pi * ph)], [-1j * cmath.exp(2j * math.pi * ph), 1]]) / math.sqrt(2)
    assert np.allclose(g2, ref)
    # fully entangling ms(0,0): (1 - i XX)/sqrt2
    ms = op_matrix({"gate": "ms", "targets": [0, 1], "phases": [0, 0]}, "native")[0]
    assert np.allclose(ms, (np.eye(4) - 1j * np.kron(PX, PX)) / math.sqrt(2))
    zz = op_matrix({"gate": "zz", "targets": [0, 1], "angle": 0.1}, "native")[0]
    assert np.allclose(np.diag(zz), [cmath.exp(-1j * math.pi * 0.1), cmath.exp(1j * math.pi * 0.1), cmath.exp(1j * math.pi * 0.1), cmath.exp(-1j * math.pi * 0.1)])
    assert le_key_to_bits(1, 3) == (1, 0, 0) and bits_to_le_key((0, 1, 1)) == 6 and be_index_to_bits(1, 3) == (0, 0, 1)
    md = {"measurement0": "a" * 38 + UNIT_SEP + "1", "measurement1": ",0" + RECORD_SEP + "b" + UNIT_SEP + "2", "shots": "5"}
    assert decode_measurement_metadata(md) == [("a" * 38, [1, 0]), ("b", [2])]
    assert encode_measurement_metadata([("a" * 38, [1, 0]), ("b", [2])]) == {k: v for k, v in md.items() if k != "shots"}


_self_test()
