"""Independent OpenQASM 2.0 / 3.0-subset reader and interpreter (property C19).

Nothing of cirq is imported here (in particular NOT cirq.contrib.qasm_import).  The standard gate
libraries are *text*: QELIB1 is qelib1.inc as printed in the OpenQASM 2.0 paper (arXiv:1707.03429,
every gate body written in terms of the built-ins U and CX) plus the later additions of the reference
implementation's qelib1.inc (swap, cswap, crx, cry, rxx, rzz, sx, sxdg, u0, u, p); STDGATES is
stdgates.inc of the OpenQASM 3 specification (gate bodies with `ctrl @`, `inv @`, `pow(k) @`, `gphase`).
Both texts are parsed by the same parser that parses the program under test.

    prog = parse(text)            -> Program (flat list of Item on the declared registers)
    prog.unitary()                -> matrix on all declared qubits (big-endian: first declared qubit is
                                     the most significant digit), only for programs without
                                     measure/reset/if
    prog.run(rho0=None)           -> {history: (prob, rho)} exact branching interpretation; history is
                                     a tuple (creg name, tuple of (bit, value) writes in program order)
                                     sorted by creg name

Conventions taken from the language documents:
* U(theta,phi,lambda) = Rz(phi) Ry(theta) Rz(lambda) (2.0 paper) -- the 3.0 definition differs by a
  global phase only; the reader uses the 3.0 matrix e^{it/2}[[c, -e^{il}s],[e^{ip}s, e^{i(p+l)}c]] in 3.0 mode
  (this matters under `ctrl @`).
* a classical register used as an integer has bit 0 as its LOW-order bit (2.0 paper: "interpreted as an
  integer, using the bit at index zero as the low order bit"; 3.0: bit[n] -> int cast is little-endian).
* `if (c==n) qop;` guards exactly ONE quantum operation (2.0 grammar); in 3.0 `if (cond) stmt` or
  `if (cond) { stmts }`.
* 2.0 real literals need a decimal point (`1e-5` is not a real in 2.0), identifiers start with a
  lower-case letter.
Errors in the text raise QasmError (never silently skipped).
"""
from __future__ import annotations

import cmath
import math
import re
from typing import Dict, List, Optional, Sequence, Tuple

import numpy as np

from mc.ref import embed as E


class QasmError(Exception):
    pass


# ------------------------------------------------------------------------------------------------
# library texts

QELIB1_PAPER = r"""
// --- QE Hardware primitives ---
gate u3(theta,phi,lambda) q { U(theta,phi,lambda) q; }
gate u2(phi,lambda) q { U(pi/2,phi,lambda) q; }
gate u1(lambda) q { U(0,0,lambda) q; }
gate cx c,t { CX c,t; }
gate id a { U(0,0,0) a; }
// --- QE Standard Gates ---
gate x a { u3(pi,0,pi) a; }
gate y a { u3(pi,pi/2,pi/2) a; }
gate z a { u1(pi) a; }
gate h a { u2(0,pi) a; }
gate s a { u1(pi/2) a; }
gate sdg a { u1(-pi/2) a; }
gate t a { u1(pi/4) a; }
gate tdg a { u1(-pi/4) a; }
// --- Standard rotations ---
gate rx(theta) a { u3(theta,-pi/2,pi/2) a; }
gate ry(theta) a { u3(theta,0,0) a; }
gate rz(phi) a { u1(phi) a; }
// --- QE Standard User-Defined Gates  ---
gate cz a,b { h b; cx a,b; h b; }
gate cy a,b { sdg b; cx a,b; s b; }
gate ch a,b {
h b; sdg b;
cx a,b;
h b; t b;
cx a,b;
t b; h b; s b; x b; s a;
}
gate ccx a,b,c
{
  h c;
  cx b,c; tdg c;
  cx a,c; t c;
  cx b,c; tdg c;
  cx a,c; t b; t c; h c;
  cx a,b; t a; tdg b;
  cx a,b;
}
gate crz(lambda) a,b
{
  u1(lambda/2) b;
  cx a,b;
  u1(-lambda/2) b;
  cx a,b;
}
gate cu1(lambda) a,b
{
  u1(lambda/2) a;
  cx a,b;
  u1(-lambda/2) b;
  cx a,b;
  u1(lambda/2) b;
}
gate cu3(theta,phi,lambda) c, t
{
  // implements controlled-U(theta,phi,lambda) with  target t and control c
  u1((lambda-phi)/2) t;
  cx c,t;
  u3(-theta/2,0,-(phi+lambda)/2) t;
  cx c,t;
  u3(theta/2,phi,0) t;
}
"""

# later additions of the reference qelib1.inc (openqasm repository / Qiskit legacy header)
QELIB1_EXT = r"""
gate u0(gamma) q { U(0,0,0) q; }
gate u(theta,phi,lambda) q { U(theta,phi,lambda) q; }
gate p(lambda) q { U(0,0,lambda) q; }
gate sx a { sdg a; h a; sdg a; }
gate sxdg a { s a; h a; s a; }
gate swap a,b { cx a,b; cx b,a; cx a,b; }
gate cswap a,b,c { cx c,b; ccx a,b,c; cx c,b; }
gate crx(lambda) a,b { u1(pi/2) b; cx a,b; u3(-lambda/2,0,0) b; cx a,b; u3(lambda/2,-pi/2,0) b; }
gate cry(lambda) a,b { ry(lambda/2) b; cx a,b; ry(-lambda/2) b; cx a,b; }
gate rxx(theta) a,b { u3(pi/2, theta, 0) a; h b; cx a,b; u1(-theta) b; cx a,b; h b; u2(-pi, pi-theta) a; }
gate rzz(theta) a,b { cx a,b; u1(theta) b; cx a,b; }
"""
QELIB1_EXT_NAMES = ("u0", "u", "p", "sx", "sxdg", "swap", "cswap", "crx", "cry", "rxx", "rzz")

# stdgates.inc of the OpenQASM 3 specification (language/standard_library)
STDGATES = r"""
gate p(lambda) a { ctrl @ gphase(lambda) a; }
gate x a { U(pi, 0, pi) a; gphase(-pi/2); }
gate y a { U(pi, pi/2, pi/2) a; gphase(-pi/2); }
gate z a { p(pi) a; }
gate h a { U(pi/2, 0, pi) a; gphase(-pi/4); }
gate s a { pow(0.5) @ z a; }
gate sdg a { inv @ pow(0.5) @ z a; }
gate t a { pow(0.5) @ s a; }
gate tdg a { inv @ pow(0.5) @ s a; }
gate sx a { pow(0.5) @ x a; }
gate rx(theta) a { U(theta, -pi/2, pi/2) a; gphase(-theta/2); }
gate ry(theta) a { U(theta, 0, 0) a; gphase(-theta/2); }
gate rz(lambda) a { gphase(-lambda/2); U(0, 0, lambda) a; }
gate cx a, b { ctrl @ x a, b; }
gate cy a, b { ctrl @ y a, b; }
gate cz a, b { ctrl @ z a, b; }
gate cp(lambda) a, b { ctrl @ p(lambda) a, b; }
gate crx(theta) a, b { ctrl @ rx(theta) a, b; }
gate cry(theta) a, b { ctrl @ ry(theta) a, b; }
gate crz(theta) a, b { ctrl @ rz(theta) a, b; }
gate ch a, b { ctrl @ h a, b; }
gate swap a, b { cx a, b; cx b, a; cx a, b; }
gate ccx a, b, c { ctrl @ ctrl @ x a, b, c; }
gate cswap a, b, c { ctrl @ swap a, b, c; }
gate cu(theta, phi, lambda, gamma) a, b { p(gamma-theta/2) a; ctrl @ U(theta, phi, lambda) a, b; }
gate CX a, b { ctrl @ U(pi, 0, pi) a, b; }
gate phase(lambda) q { U(0, 0, lambda) q; }
gate cphase(lambda) a, b { ctrl @ phase(lambda) a, b; }
gate id a { U(0, 0, 0) a; }
gate u1(lambda) q { U(0, 0, lambda) q; }
gate u2(phi, lambda) q { gphase(-(phi+lambda+pi/2)/2); U(pi/2, phi, lambda) q; }
gate u3(theta, phi, lambda) q { gphase(-(phi+lambda+theta)/2); U(theta, phi, lambda) q; }
"""

# ------------------------------------------------------------------------------------------------
# tokenizer

_TOKEN_RE = re.compile(
    r"""
    (?P<ws>\s+)
  | (?P<lcomment>//[^\n]*)
  | (?P<bcomment>/\*.*?\*/)
  | (?P<real>(?:[0-9]+\.[0-9]*|\.[0-9]+)(?:[eE][-+]?[0-9]+)?)
  | (?P<real3>[0-9]+[eE][-+]?[0-9]+)
  | (?P<int>[0-9]+)
  | (?P<string>"[^"\n]*")
  | (?P<id>[A-Za-z_πτℇ][A-Za-z0-9_]*)
  | (?P<sym>->|==|!=|&&|\|\||<=|>=|\*\*|[-+*/^()\[\]{},;=!&|<>@:])
    """,
    re.X | re.S,
)


class Tok:
    __slots__ = ("kind", "text", "pos")

    def __init__(self, kind, text, pos):
        self.kind = kind
        self.text = text
        self.pos = pos

    def __repr__(self):
        return f"{self.kind}:{self.text!r}@{self.pos}"


def tokenize(text: str, version3: Optional[bool] = None) -> List[Tok]:
    out = []
    i = 0
    n = len(text)
    while i < n:
        m = _TOKEN_RE.match(text, i)
        if m is None:
            raise QasmError(f"illegal character {text[i]!r} at offset {i}: ...{text[max(0, i - 30):i + 10]!r}")
        kind = m.lastgroup
        if kind not in ("ws", "lcomment", "bcomment"):
            if kind == "real3":
                kind = "real_noDot"
            out.append(Tok(kind, m.group(), i))
        i = m.end()
    return out


# ------------------------------------------------------------------------------------------------
# expressions (AST as nested tuples)

_FUNCS = {"sin": math.sin, "cos": math.cos, "tan": math.tan, "exp": math.exp, "ln": math.log, "sqrt": math.sqrt,
          "arcsin": math.asin, "arccos": math.acos, "arctan": math.atan}
_CONSTS = {"pi": math.pi, "π": math.pi, "tau": 2 * math.pi, "τ": 2 * math.pi, "euler": math.e, "ℇ": math.e}


def eval_expr(ast, env: Dict[str, float], cstate=None, cregs=None):
    k = ast[0]
    if k == "num":
        return ast[1]
    if k == "id":
        name = ast[1]
        if name in env:
            return env[name]
        if name in _CONSTS:
            return _CONSTS[name]
        if cstate is not None and name in cstate:
            bits = cstate[name]
            return sum(b << i for i, b in enumerate(bits))  # bit 0 = low-order bit
        if name in ("true", "false"):
            return name == "true"
        raise QasmError(f"unknown identifier {name!r} in expression")
    if k == "index":
        name, idx = ast[1], ast[2]
        if cstate is None or name not in cstate:
            raise QasmError(f"unknown classical register {name!r} in expression")
        i = int(eval_expr(idx, env, cstate, cregs))
        bits = cstate[name]
        if not 0 <= i < len(bits):
            raise QasmError(f"bit index {name}[{i}] out of range (size {len(bits)})")
        return bits[i]
    if k == "neg":
        return -eval_expr(ast[1], env, cstate, cregs)
    if k == "not":
        return not bool(eval_expr(ast[1], env, cstate, cregs))
    if k == "call":
        return _FUNCS[ast[1]](eval_expr(ast[2], env, cstate, cregs))
    if k == "bin":
        op = ast[1]
        a = eval_expr(ast[2], env, cstate, cregs)
        if op == "&&":
            return bool(a) and bool(eval_expr(ast[3], env, cstate, cregs))
        if op == "||":
            return bool(a) or bool(eval_expr(ast[3], env, cstate, cregs))
        b = eval_expr(ast[3], env, cstate, cregs)
        if op == "+":
            return a + b
        if op == "-":
            return a - b
        if op == "*":
            return a * b
        if op == "/":
            return a / b
        if op in ("^", "**"):
            return a ** b
        if op == "==":
            return a == b
        if op == "!=":
            return a != b
        if op == "<":
            return a < b
        if op == ">":
            return a > b
        if op == "<=":
            return a <= b
        if op == ">=":
            return a >= b
        if op == "&":
            return int(a) & int(b)
        if op == "|":
            return int(a) | int(b)
    raise QasmError(f"bad expression node {ast!r}")


# ------------------------------------------------------------------------------------------------
# matrices

def u_matrix(theta, phi, lam, v3: bool) -> np.ndarray:
    c = math.cos(theta / 2)
    s = math.sin(theta / 2)
    if v3:
        # 3.0 spec: 1/2 [[1+e^{it}, -i e^{il}(1-e^{it})], [i e^{ip}(1-e^{it}), e^{i(p+l)}(1+e^{it})]]
        #         = e^{it/2} [[c, -e^{il}s], [e^{ip}s, e^{i(p+l)}c]]   (= e^{i(t+p+l)/2} * the 2.0 matrix)
        g = cmath.exp(1j * theta / 2)
        return g * np.array([[c, -cmath.exp(1j * lam) * s],
                             [cmath.exp(1j * phi) * s, cmath.exp(1j * (phi + lam)) * c]], dtype=np.complex128)
    # 2.0 paper: Rz(phi) Ry(theta) Rz(lambda)
    return np.array([[cmath.exp(-1j * (phi + lam) / 2) * c, -cmath.exp(-1j * (phi - lam) / 2) * s],
                     [cmath.exp(1j * (phi - lam) / 2) * s, cmath.exp(1j * (phi + lam) / 2) * c]], dtype=np.complex128)


CX_MATRIX = np.array([[1, 0, 0, 0], [0, 1, 0, 0], [0, 0, 0, 1], [0, 0, 1, 0]], dtype=np.complex128)


def _unitary_power(m: np.ndarray, k: float) -> np.ndarray:
    """Principal k-th power of a unitary (eigenphases taken in (-pi, pi])."""
    w, v = np.linalg.eig(m)
    # m is normal: orthonormalise eigenvectors inside degenerate eigenspaces via QR on grouped vectors
    order = np.argsort(np.round(np.angle(w), 9), kind="stable")
    w = w[order]
    v = v[:, order]
    q, _ = np.linalg.qr(v)
    # q spans the same flags as v for grouped (sorted) eigenvalues; recompute eigenvalues by Rayleigh quotients
    lam = np.array([q[:, i].conj() @ m @ q[:, i] for i in range(len(w))])
    if not np.allclose(q @ np.diag(lam) @ q.conj().T, m, atol=1e-9):
        raise QasmError("pow @: could not diagonalise operand")
    ang = np.angle(lam)
    ang = np.where(np.isclose(ang, -math.pi, atol=1e-12), math.pi, ang)
    return q @ np.diag(np.exp(1j * ang * k)) @ q.conj().T


def _controlled(m: np.ndarray, neg: bool = False) -> np.ndarray:
    d = m.shape[0]
    out = np.eye(2 * d, dtype=np.complex128)
    if neg:
        out[:d, :d] = m
    else:
        out[d:, d:] = m
    return out


# ------------------------------------------------------------------------------------------------
# program representation

class Item:
    """kind: 'gate' (matrix, qubits), 'measure' (qubit, creg, bit), 'reset' (qubit), 'barrier' (qubits),
    'gphase' (angle).  cond: None or expression AST evaluated on the classical state."""
    __slots__ = ("kind", "name", "params", "matrix", "qubits", "creg", "bit", "cond", "angle", "line")

    def __init__(self, kind, **kw):
        self.kind = kind
        self.name = kw.get("name")
        self.params = kw.get("params", ())
        self.matrix = kw.get("matrix")
        self.qubits = tuple(kw.get("qubits", ()))
        self.creg = kw.get("creg")
        self.bit = kw.get("bit")
        self.cond = kw.get("cond")
        self.angle = kw.get("angle")
        self.line = kw.get("line")

    def __repr__(self):
        c = f" if {self.cond}" if self.cond is not None else ""
        if self.kind == "gate":
            return f"<{self.name}{list(self.params)} {list(self.qubits)}{c}>"
        if self.kind == "measure":
            return f"<measure {self.qubits[0]} -> {self.creg}[{self.bit}]{c}>"
        return f"<{self.kind} {list(self.qubits)}{c}>"


class GateDef:
    __slots__ = ("name", "params", "qargs", "body", "source")

    def __init__(self, name, params, qargs, body, source):
        self.name = name
        self.params = params
        self.qargs = qargs
        self.body = body  # list of ('call', mods, name, [param asts], [formal qubit names]) / ('gphase', mods, ast, [qubits]) / ('barrier',)
        self.source = source


_LIB_GATES: Dict[bool, Dict[str, GateDef]] = {}
_LIB_MCACHE: Dict[bool, Dict[tuple, np.ndarray]] = {False: {}, True: {}}


class Program:
    def __init__(self):
        self.version = None
        self.v3 = False
        self.includes: List[str] = []
        self.qregs: Dict[str, Tuple[int, int]] = {}   # name -> (offset, size)
        self.cregs: Dict[str, int] = {}               # name -> size
        self.items: List[Item] = []
        self.gates: Dict[str, GateDef] = {}
        self.nqubits = 0
        self.gate_names_used: List[str] = []
        self.n_numeric_params = 0
        self._mcache: Dict[tuple, np.ndarray] = {}

    # --- gate matrices ---------------------------------------------------------------------
    def gate_matrix(self, name: str, params: Sequence[float], nq: Optional[int] = None) -> np.ndarray:
        key = (name, tuple(params))
        gd0 = self.gates.get(name)
        cache = _LIB_MCACHE[self.v3] if (gd0 is None or gd0.source == "library") else self._mcache
        m = cache.get(key)
        if m is not None:
            return m
        if name == "U":
            if len(params) != 3:
                raise QasmError("U takes 3 parameters")
            m = u_matrix(params[0], params[1], params[2], self.v3)
        elif name == "CX" and not self.v3:
            if params:
                raise QasmError("CX takes no parameters")
            m = CX_MATRIX
        else:
            gd = self.gates.get(name)
            if gd is None:
                raise QasmError(f"gate {name!r} is not defined (includes: {self.includes})")
            if len(params) != len(gd.params):
                raise QasmError(f"gate {name} takes {len(gd.params)} parameters, got {len(params)}")
            env = dict(zip(gd.params, params))
            k = len(gd.qargs)
            shape = (2,) * k
            pos = {q: i for i, q in enumerate(gd.qargs)}
            m = np.eye(2 ** k, dtype=np.complex128)
            for st in gd.body:
                if st[0] == "barrier":
                    continue
                sub, targets = self._body_statement_matrix(st, env, pos)
                m = E.embed(sub, targets, shape) @ m if targets else sub[0, 0] * m
        if len(cache) < 200000:
            cache[key] = m
        return m

    def _body_statement_matrix(self, st, env, pos):
        kind, mods, what, pasts, qnames = st
        for q in qnames:
            if q not in pos:
                raise QasmError(f"gate body refers to unknown qubit {q!r}")
        if len(set(qnames)) != len(qnames):
            raise QasmError(f"duplicate qubit arguments {qnames}")
        targets = [pos[q] for q in qnames]
        if kind == "gphase":
            base = np.array([[cmath.exp(1j * eval_expr(what, env))]], dtype=np.complex128)
            nbase = 0
        else:
            params = [float(eval_expr(p, env)) for p in pasts]
            base = self.gate_matrix(what, params)
            nbase = int(round(math.log2(base.shape[0])))
        m = base
        nctrl = 0
        for mod in reversed(mods):  # innermost modifier is the right-most
            if mod[0] == "inv":
                m = m.conj().T
            elif mod[0] == "pow":
                kk = float(eval_expr(mod[1], env))
                m = _unitary_power(m, kk) if m.shape[0] > 1 else m ** kk
            elif mod[0] in ("ctrl", "negctrl"):
                cnt = 1 if mod[1] is None else int(eval_expr(mod[1], env))
                for _ in range(cnt):
                    m = _controlled(m, neg=(mod[0] == "negctrl"))
                    nctrl += 1
        if len(targets) != nctrl + nbase:
            raise QasmError(f"{what if kind == 'call' else 'gphase'}: expected {nctrl + nbase} qubit arguments, got {len(targets)}")
        return m, targets

    # --- semantics ------------------------------------------------------------------------------
    def is_unitary_program(self) -> bool:
        return all(it.kind in ("gate", "barrier", "gphase") and it.cond is None for it in self.items)

    def unitary(self) -> np.ndarray:
        if not self.is_unitary_program():
            raise QasmError("program has measure/reset/if: no unitary")
        shape = (2,) * self.nqubits
        U = np.eye(2 ** self.nqubits, dtype=np.complex128)
        for it in self.items:
            if it.kind == "gate":
                U = E.embed(it.matrix, it.qubits, shape) @ U
            elif it.kind == "gphase":
                U = cmath.exp(1j * it.angle) * U
        return U

    def run(self, rho0=None, eps=1e-12):
        n = self.nqubits
        shape = (2,) * n
        D = 2 ** n
        if rho0 is None:
            rho0 = np.zeros((D, D), dtype=np.complex128)
            rho0[0, 0] = 1
        rho0 = np.asarray(rho0, dtype=np.complex128)
        if rho0.ndim == 1:
            rho0 = np.outer(rho0, rho0.conj())
        c0 = tuple((name, (0,) * size) for name, size in sorted(self.cregs.items()))
        # branch: (p, rho, cstate tuple, history tuple)
        h0 = tuple((name, ()) for name, _ in c0)
        branches = [(1.0, rho0, c0, h0)]
        P0 = np.array([[1, 0], [0, 0]], dtype=np.complex128)
        P1 = np.array([[0, 0], [0, 1]], dtype=np.complex128)
        LOWER = np.array([[0, 1], [0, 0]], dtype=np.complex128)
        for it in self.items:
            if it.kind == "barrier":
                continue
            nb = []
            for p, rho, cst, hist in branches:
                if it.cond is not None:
                    cs = {k: v for k, v in cst}
                    if not bool(eval_expr(it.cond, {}, cs)):
                        nb.append((p, rho, cst, hist))
                        continue
                if it.kind == "gate":
                    M = E.embed(it.matrix, it.qubits, shape)
                    nb.append((p, M @ rho @ M.conj().T, cst, hist))
                elif it.kind == "gphase":
                    nb.append((p, rho, cst, hist))
                elif it.kind == "reset":
                    A = E.embed(P0, it.qubits, shape)
                    B = E.embed(LOWER, it.qubits, shape)
                    nb.append((p, A @ rho @ A.conj().T + B @ rho @ B.conj().T, cst, hist))
                elif it.kind == "measure":
                    for val, proj in ((0, P0), (1, P1)):
                        Pm = E.embed(proj, it.qubits, shape)
                        r2 = Pm @ rho @ Pm
                        pr = float(np.trace(r2).real)
                        if pr <= eps:
                            continue
                        c2 = tuple((k, (v[:it.bit] + (val,) + v[it.bit + 1:]) if k == it.creg else v) for k, v in cst)
                        h2 = tuple((k, v + ((it.bit, val),) if k == it.creg else v) for k, v in hist)
                        nb.append((p * pr, r2 / pr, c2, h2))
                else:
                    raise QasmError(f"cannot interpret item {it!r}")
            acc = {}
            for p, rho, cst, hist in nb:
                key = (cst, hist)
                if key in acc:
                    p0, r0 = acc[key]
                    acc[key] = (p0 + p, (p0 * r0 + p * rho) / (p0 + p))
                else:
                    acc[key] = (p, rho)
            branches = [(p, rho, k[0], k[1]) for k, (p, rho) in acc.items()]
        out = {}
        for p, rho, cst, hist in branches:
            if hist in out:
                p0, r0 = out[hist]
                out[hist] = (p0 + p, (p0 * r0 + p * rho) / (p0 + p))
            else:
                out[hist] = (p, rho)
        return out


# ------------------------------------------------------------------------------------------------
# parser

_KEYWORDS2 = {"OPENQASM", "include", "qreg", "creg", "gate", "opaque", "measure", "reset", "barrier", "if", "U", "CX", "pi"}


class _Parser:
    def __init__(self, text: str, prog: Program, library: bool = False):
        self.toks = tokenize(text)
        self.i = 0
        self.prog = prog
        self.library = library
        self.text = text

    # token helpers
    def peek(self, k=0) -> Optional[Tok]:
        j = self.i + k
        return self.toks[j] if j < len(self.toks) else None

    def at(self, text) -> bool:
        t = self.peek()
        return t is not None and t.text == text and t.kind != "string"

    def next(self) -> Tok:
        t = self.peek()
        if t is None:
            raise QasmError("unexpected end of input")
        self.i += 1
        return t

    def expect(self, text) -> Tok:
        t = self.next()
        if t.text != text or t.kind == "string":
            raise QasmError(f"expected {text!r} but found {t.text!r} at offset {t.pos}: ...{self.text[max(0, t.pos - 40):t.pos + 20]!r}")
        return t

    def ident(self) -> str:
        t = self.next()
        if t.kind != "id":
            raise QasmError(f"expected identifier but found {t.text!r} at offset {t.pos}")
        if not self.prog.v3 and not self.library and not re.match(r"[a-z][A-Za-z0-9_]*\Z", t.text):
            raise QasmError(f"{t.text!r} is not a valid OpenQASM 2.0 identifier ([a-z][A-Za-z0-9_]*)")
        return t.text

    def natural(self) -> int:
        t = self.next()
        if t.kind != "int":
            raise QasmError(f"expected non-negative integer but found {t.text!r} at offset {t.pos}")
        return int(t.text)

    # expressions: precedence || < && < | < & < ==,!= < <,> < +,- < *,/ < unary < ^,**
    def expr(self):
        return self._binlevel(0)

    _LEVELS = [("||",), ("&&",), ("|",), ("&",), ("==", "!="), ("<", ">", "<=", ">="), ("+", "-"), ("*", "/")]

    def _binlevel(self, lvl):
        if lvl == len(self._LEVELS):
            return self._unary()
        left = self._binlevel(lvl + 1)
        while self.peek() is not None and self.peek().kind == "sym" and self.peek().text in self._LEVELS[lvl]:
            op = self.next().text
            if not self.prog.v3 and op not in ("+", "-", "*", "/", "=="):
                raise QasmError(f"operator {op!r} is not OpenQASM 2.0")
            right = self._binlevel(lvl + 1)
            left = ("bin", op, left, right)
        return left

    def _unary(self):
        if self.at("-"):
            self.next()
            return ("neg", self._unary())
        if self.at("+"):
            self.next()
            return self._unary()
        if self.at("!"):
            if not self.prog.v3:
                raise QasmError("operator '!' is not OpenQASM 2.0")
            self.next()
            return ("not", self._unary())
        return self._power()

    def _power(self):
        base = self._atom()
        if self.at("^") or self.at("**"):
            op = self.next().text
            if op == "**" and not self.prog.v3:
                raise QasmError("operator '**' is not OpenQASM 2.0")
            if op == "^" and self.prog.v3 and not self.library:
                raise QasmError("'^' is xor, not power, in OpenQASM 3 (unsupported here)")
            return ("bin", op, base, self._unary())
        return base

    def _atom(self):
        t = self.next()
        if t.kind == "real":
            return ("num", float(t.text))
        if t.kind == "real_noDot":
            if not self.prog.v3:
                raise QasmError(f"{t.text!r} is not a valid OpenQASM 2.0 real literal (needs a decimal point)")
            return ("num", float(t.text))
        if t.kind == "int":
            return ("num", int(t.text))
        if t.text == "(" and t.kind == "sym":
            e = self.expr()
            self.expect(")")
            return e
        if t.kind == "id":
            if t.text in _FUNCS and self.at("("):
                self.next()
                e = self.expr()
                self.expect(")")
                return ("call", t.text, e)
            if self.at("["):
                self.next()
                idx = self.expr()
                self.expect("]")
                return ("index", t.text, idx)
            return ("id", t.text)
        raise QasmError(f"unexpected {t.text!r} in expression at offset {t.pos}")

    # gate definition bodies
    def modifiers(self):
        mods = []
        while self.peek() is not None and self.peek().kind == "id" and self.peek().text in ("ctrl", "negctrl", "inv", "pow") \
                and (self.peek(1) is not None and self.peek(1).text in ("@", "(")):
            if not self.prog.v3:
                raise QasmError("gate modifiers are not OpenQASM 2.0")
            name = self.next().text
            arg = None
            if self.at("("):
                self.next()
                arg = self.expr()
                self.expect(")")
            if name == "pow" and arg is None:
                raise QasmError("pow needs an argument")
            if name == "inv" and arg is not None:
                raise QasmError("inv takes no argument")
            self.expect("@")
            mods.append((name, arg))
        return mods

    def gate_def(self, start_pos):
        name = self.next()
        if name.kind != "id":
            raise QasmError(f"bad gate name {name.text!r}")
        params = []
        if self.at("("):
            self.next()
            while not self.at(")"):
                params.append(self.next().text)
                if self.at(","):
                    self.next()
            self.expect(")")
        qargs = [self.next().text]
        while self.at(","):
            self.next()
            qargs.append(self.next().text)
        self.expect("{")
        body = []
        while not self.at("}"):
            if self.at("barrier"):
                self.next()
                while not self.at(";"):
                    self.next()
                self.expect(";")
                body.append(("barrier",))
                continue
            mods = self.modifiers()
            t = self.next()
            if t.kind != "id":
                raise QasmError(f"bad statement in gate body at offset {t.pos}: {t.text!r}")
            if t.text == "gphase":
                self.expect("(")
                a = self.expr()
                self.expect(")")
                qn = []
                while not self.at(";"):
                    qn.append(self.next().text)
                    if self.at(","):
                        self.next()
                self.expect(";")
                body.append(("gphase", mods, a, [], qn))
                continue
            pasts = []
            if self.at("("):
                self.next()
                while not self.at(")"):
                    pasts.append(self.expr())
                    if self.at(","):
                        self.next()
                self.expect(")")
            qn = [self.next().text]
            while self.at(","):
                self.next()
                qn.append(self.next().text)
            self.expect(";")
            body.append(("call", mods, t.text, pasts, qn))
        self.expect("}")
        if name.text in self.prog.gates or name.text in ("U",) or (name.text == "CX" and not self.prog.v3):
            raise QasmError(f"gate {name.text!r} redefined")
        self.prog.gates[name.text] = GateDef(name.text, params, qargs, body, "library" if self.library else "user")

    # arguments on declared registers: returns list of lists (for broadcasting)
    def qarg(self):
        name = self.ident()
        if name not in self.prog.qregs:
            raise QasmError(f"quantum register {name!r} is not declared")
        off, size = self.prog.qregs[name]
        if self.at("["):
            self.next()
            i = self.natural()
            self.expect("]")
            if i >= size:
                raise QasmError(f"{name}[{i}] out of range (size {size})")
            return [off + i], False
        return [off + j for j in range(size)], True

    def carg(self):
        name = self.ident()
        if name not in self.prog.cregs:
            raise QasmError(f"classical register {name!r} is not declared")
        size = self.prog.cregs[name]
        if self.at("["):
            self.next()
            i = self.natural()
            self.expect("]")
            if i >= size:
                raise QasmError(f"{name}[{i}] out of range (size {size})")
            return [(name, i)], False
        return [(name, j) for j in range(size)], True

    def program(self):
        p = self.prog
        if not self.library:
            self.expect("OPENQASM")
            t = self.next()
            if t.kind not in ("real", "int"):
                raise QasmError(f"bad version {t.text!r}")
            p.version = t.text
            if t.text in ("2.0", "2"):
                p.v3 = False
            elif t.text in ("3.0", "3"):
                p.v3 = True
            else:
                raise QasmError(f"unsupported OPENQASM version {t.text}")
            self.expect(";")
        while self.peek() is not None:
            self.statement(None)

    def statement(self, cond):
        p = self.prog
        t = self.peek()
        line = self.text.count("\n", 0, t.pos) + 1
        if t.kind == "id" and t.text == "include" and cond is None:
            self.next()
            s = self.next()
            if s.kind != "string":
                raise QasmError("include needs a string")
            self.expect(";")
            fname = s.text[1:-1]
            p.includes.append(fname)
            if (fname == "qelib1.inc" and not p.v3) or (fname == "stdgates.inc" and p.v3):
                if fname in p.includes[:-1]:
                    raise QasmError(f"{fname} included twice")
                lib = _LIB_GATES.get(p.v3)
                if lib is None:
                    tmp = Program()
                    tmp.v3 = p.v3
                    _Parser(STDGATES if p.v3 else QELIB1_PAPER + QELIB1_EXT, tmp, library=True).program()
                    lib = _LIB_GATES[p.v3] = tmp.gates
                for k_, v_ in lib.items():
                    if k_ in p.gates:
                        raise QasmError(f"gate {k_!r} redefined by include")
                    p.gates[k_] = v_
            else:
                raise QasmError(f"cannot include {fname!r} in OPENQASM {p.version}")
            return
        if t.kind == "id" and t.text == "gate" and cond is None:
            self.next()
            self.gate_def(t.pos)
            return
        if t.kind == "id" and t.text == "opaque":
            raise QasmError("opaque gates have no semantics")
        if t.kind == "id" and t.text in ("qreg", "creg") and cond is None:
            if p.v3:
                raise QasmError(f"{t.text} used in an OPENQASM 3 program (deprecated form rejected by this reader)")
            self.next()
            name = self.ident()
            self.expect("[")
            size = self.natural()
            self.expect("]")
            self.expect(";")
            self._declare(t.text == "qreg", name, size)
            return
        if t.kind == "id" and t.text in ("qubit", "bit") and cond is None and p.v3:
            self.next()
            size = 1
            if self.at("["):
                self.next()
                size = self.natural()
                self.expect("]")
            name = self.ident()
            self.expect(";")
            self._declare(t.text == "qubit", name, size)
            return
        if t.kind == "id" and t.text == "if":
            self.next()
            self.expect("(")
            c = self.expr()
            self.expect(")")
            if not p.v3:
                if not (c[0] == "bin" and c[1] == "==" and c[2][0] == "id" and c[3][0] == "num" and isinstance(c[3][1], int)):
                    raise QasmError(f"OpenQASM 2.0 if condition must be `creg==int`, got {c!r}")
            self._check_cond_names(c)
            full = c if cond is None else ("bin", "&&", cond, c)
            if self.at("{"):
                if not p.v3:
                    raise QasmError("block if is not OpenQASM 2.0")
                self.next()
                while not self.at("}"):
                    self.statement(full)
                self.expect("}")
            else:
                if not p.v3 and self.at("if"):
                    raise QasmError("nested if is not OpenQASM 2.0")
                self.statement(full)
            if p.v3 and self.at("else"):
                self.next()
                neg = ("not", c) if cond is None else ("bin", "&&", cond, ("not", c))
                if self.at("{"):
                    self.next()
                    while not self.at("}"):
                        self.statement(neg)
                    self.expect("}")
                else:
                    self.statement(neg)
            return
        if t.kind == "id" and t.text == "measure":
            self.next()
            qs, qb = self.qarg()
            if self.at("->"):
                self.next()
                cs, cb = self.carg()
                self.expect(";")
                self._emit_measure(qs, qb, cs, cb, cond, line)
            else:
                self.expect(";")
                if not p.v3:
                    raise QasmError("measure without target register")
            return
        if t.kind == "id" and t.text == "reset":
            self.next()
            qs, _ = self.qarg()
            self.expect(";")
            for q in qs:
                p.items.append(Item("reset", qubits=(q,), cond=cond, line=line))
            return
        if t.kind == "id" and t.text == "barrier":
            self.next()
            qs = []
            if not self.at(";"):
                a, _ = self.qarg()
                qs += a
                while self.at(","):
                    self.next()
                    a, _ = self.qarg()
                    qs += a
            self.expect(";")
            p.items.append(Item("barrier", qubits=tuple(qs), line=line))
            return
        if t.kind == "id" and t.text == "gphase" and p.v3:
            self.next()
            self.expect("(")
            a = self.expr()
            self.expect(")")
            self.expect(";")
            p.items.append(Item("gphase", angle=float(eval_expr(a, {})), cond=cond, line=line))
            return
        # 3.0 assignment  c[0] = measure q[0];
        if p.v3 and t.kind == "id" and t.text in p.cregs:
            cs, cb = self.carg()
            self.expect("=")
            self.expect("measure")
            qs, qb = self.qarg()
            self.expect(";")
            self._emit_measure(qs, qb, cs, cb, cond, line)
            return
        # gate call (possibly with modifiers)
        mods = self.modifiers()
        g = self.next()
        if g.kind != "id":
            raise QasmError(f"unexpected {g.text!r} at offset {g.pos}: ...{self.text[max(0, g.pos - 40):g.pos + 20]!r}")
        pasts = []
        if self.at("("):
            self.next()
            while not self.at(")"):
                pasts.append(self.expr())
                if self.at(","):
                    self.next()
                elif not self.at(")"):
                    raise QasmError(f"bad parameter list for {g.text}")
            self.expect(")")
        args = [self.qarg()]
        while self.at(","):
            self.next()
            args.append(self.qarg())
        self.expect(";")
        params = [float(eval_expr(a, {})) for a in pasts]
        p.n_numeric_params += len(params)
        # build the matrix through the same path as gate bodies (supports modifiers)
        formal = [f"a{i}" for i in range(len(args))]
        pos = {f: i for i, f in enumerate(formal)}
        m, tg = p._body_statement_matrix(("call", mods, g.text, [("num", v) for v in params], formal), {}, pos)
        p.gate_names_used.append(g.text)
        # broadcasting over whole registers
        sizes = {len(a[0]) for a in args if a[1]}
        if len(sizes) > 1:
            raise QasmError(f"register size mismatch in broadcast call of {g.text}")
        reps = sizes.pop() if sizes else 1
        for r in range(reps):
            qs = [a[0][r] if a[1] else a[0][0] for a in args]
            if len(set(qs)) != len(qs):
                raise QasmError(f"gate {g.text} applied to duplicate qubits {qs} (line {line})")
            p.items.append(Item("gate", name=g.text, params=tuple(params), matrix=m, qubits=tuple(qs), cond=cond, line=line))

    def _check_cond_names(self, c):
        if c[0] in ("id",):
            if c[1] not in self.prog.cregs and c[1] not in _CONSTS and c[1] not in ("true", "false"):
                raise QasmError(f"condition refers to undeclared classical register {c[1]!r}")
        elif c[0] == "index":
            if c[1] not in self.prog.cregs:
                raise QasmError(f"condition refers to undeclared classical register {c[1]!r}")
            self._check_cond_names(c[2])
        elif c[0] in ("neg", "not"):
            self._check_cond_names(c[1])
        elif c[0] == "call":
            self._check_cond_names(c[2])
        elif c[0] == "bin":
            self._check_cond_names(c[2])
            self._check_cond_names(c[3])

    def _declare(self, quantum, name, size):
        p = self.prog
        if name in p.qregs or name in p.cregs or name in p.gates:
            raise QasmError(f"identifier {name!r} declared twice")
        if size <= 0:
            raise QasmError(f"register {name} has size {size}")
        if quantum:
            p.qregs[name] = (p.nqubits, size)
            p.nqubits += size
        else:
            p.cregs[name] = size

    def _emit_measure(self, qs, qb, cs, cb, cond, line):
        if qb != cb or len(qs) != len(cs):
            raise QasmError(f"measure: register/bit shape mismatch ({len(qs)} qubits -> {len(cs)} bits)")
        for q, (cn, ci) in zip(qs, cs):
            self.prog.items.append(Item("measure", qubits=(q,), creg=cn, bit=ci, cond=cond, line=line))


def parse(text: str) -> Program:
    prog = Program()
    _Parser(text, prog).program()
    return prog


# ------------------------------------------------------------------------------------------------
# self-test (run at import of the check): qelib1 / stdgates identities against textbook matrices

def _rz(a):
    return np.diag([cmath.exp(-1j * a / 2), cmath.exp(1j * a / 2)])


def _ry(a):
    c, s = math.cos(a / 2), math.sin(a / 2)
    return np.array([[c, -s], [s, c]], dtype=np.complex128)


def _rx(a):
    c, s = math.cos(a / 2), math.sin(a / 2)
    return np.array([[c, -1j * s], [-1j * s, c]], dtype=np.complex128)


def self_test() -> int:
    """Returns the number of identities checked; raises AssertionError on a reader bug."""
    X = np.array([[0, 1], [1, 0]], dtype=np.complex128)
    Y = np.array([[0, -1j], [1j, 0]], dtype=np.complex128)
    Z = np.diag([1, -1]).astype(np.complex128)
    H = (X + Z) / math.sqrt(2)
    S = np.diag([1, 1j])
    T = np.diag([1, cmath.exp(1j * math.pi / 4)])
    SX = 0.5 * np.array([[1 + 1j, 1 - 1j], [1 - 1j, 1 + 1j]])
    I2 = np.eye(2)
    n = 0

    def ctl(m, k=1):
        for _ in range(k):
            m = _controlled(m)
        return m

    SWAP = np.eye(4)[[0, 2, 1, 3]].astype(np.complex128)
    th, ph, la = 0.37, -1.21, 2.05
    for ver, inc in (("2.0", "qelib1.inc"), ("3.0", "stdgates.inc")):
        decl = "qreg q[3];" if ver == "2.0" else "qubit[3] q;"
        head = f'OPENQASM {ver};\ninclude "{inc}";\n{decl}\n'

        def mat(stmt, nq):
            pr = parse(head + stmt)
            U = pr.unitary()
            # program acts on q[0..nq-1]; strip idle wires
            k = 3 - nq
            M = U.reshape(2 ** nq, 2 ** k, 2 ** nq, 2 ** k)[:, 0, :, 0]
            assert np.allclose(np.kron(M, np.eye(2 ** k)), U), stmt
            return M

        exact3 = ver == "3.0"   # stdgates matrices are exact; qelib1 bodies are defined up to a global phase only
        table = [
            ("x q[0];", 1, X), ("y q[0];", 1, Y), ("z q[0];", 1, Z), ("h q[0];", 1, H), ("s q[0];", 1, S),
            ("sdg q[0];", 1, S.conj().T), ("t q[0];", 1, T), ("tdg q[0];", 1, T.conj().T), ("id q[0];", 1, I2),
            ("sx q[0];", 1, SX),
            (f"rx({th}) q[0];", 1, _rx(th)), (f"ry({th}) q[0];", 1, _ry(th)), (f"rz({th}) q[0];", 1, _rz(th)),
            (f"u3({th},{ph},{la}) q[0];", 1, _rz(ph) @ _ry(th) @ _rz(la)),
            (f"u2({ph},{la}) q[0];", 1, _rz(ph) @ _ry(math.pi / 2) @ _rz(la)),
            (f"u1({la}) q[0];", 1, np.diag([1, cmath.exp(1j * la)])),
            (f"U({th},{ph},{la}) q[0];", 1, _rz(ph) @ _ry(th) @ _rz(la)),
            ("cx q[0],q[1];", 2, ctl(X)), ("cy q[0],q[1];", 2, ctl(Y)), ("cz q[0],q[1];", 2, ctl(Z)),
            ("ch q[0],q[1];", 2, ctl(H)), ("swap q[0],q[1];", 2, SWAP),
            (f"crz({la}) q[0],q[1];", 2, ctl(_rz(la))),
            (f"crx({la}) q[0],q[1];", 2, ctl(_rx(la))), (f"cry({la}) q[0],q[1];", 2, ctl(_ry(la))),
            ("ccx q[0],q[1],q[2];", 3, ctl(X, 2)), ("cswap q[0],q[1],q[2];", 3, ctl(SWAP)),
            ("pi_test", 0, None),
        ]
        if ver == "2.0":
            table += [
                ("sxdg q[0];", 1, SX.conj().T),
                (f"cu1({la}) q[0],q[1];", 2, np.diag([1, 1, 1, cmath.exp(1j * la)])),
                (f"cu3({th},{ph},{la}) q[0],q[1];", 2, ctl(u_matrix(th, ph, la, False))),  # paper: controlled Rz.Ry.Rz (SU(2) form)
                (f"rzz({la}) q[0],q[1];", 2, np.diag([1, cmath.exp(1j * la), cmath.exp(1j * la), 1])),
                ("CX q[0],q[1];", 2, ctl(X)),
            ]
        else:
            table += [
                (f"cp({la}) q[0],q[1];", 2, np.diag([1, 1, 1, cmath.exp(1j * la)])),
                (f"p({la}) q[0];", 1, np.diag([1, cmath.exp(1j * la)])),
                ("inv @ s q[0];", 1, S.conj().T), ("pow(2) @ t q[0];", 1, S), ("ctrl @ ctrl @ z q[0],q[1],q[2];", 3, ctl(Z, 2)),
                ("negctrl @ x q[0],q[1];", 2, np.kron(X, I2) @ ctl(X) @ np.kron(X, I2)),
            ]
        for stmt, nq, ref in table:
            if ref is None:
                continue
            M = mat(stmt, nq)
            assert E.eq_up_to_phase(ref, M, 1e-9), (ver, stmt, np.round(M, 4))
            n += 1
        # exact (phase-sensitive) matrices of stdgates, needed for the ctrl @ constructions
        if ver == "3.0":
            for stmt, ref in (("x q[0];", X), ("y q[0];", Y), ("z q[0];", Z), ("h q[0];", H), ("s q[0];", S), ("t q[0];", T),
                              ("sx q[0];", SX), (f"rx({th}) q[0];", _rx(th)), (f"ry({th}) q[0];", _ry(th)), (f"rz({th}) q[0];", _rz(th))):
                assert E.eq_exact(ref, mat(stmt, 1), 1e-9), (stmt,)
                n += 1
        # wire order, broadcast, sequencing (later statements multiply from the left)
        U = parse(head + "x q[2];").unitary()
        assert E.eq_up_to_phase(np.kron(np.eye(4), X), U, 1e-9); n += 1
        U = parse(head + "cx q[2],q[0];").unitary()
        assert E.eq_up_to_phase(E.embed(ctl(X), [2, 0], (2, 2, 2)), U, 1e-9); n += 1
        U = parse(head + "h q;").unitary()
        assert E.eq_up_to_phase(np.kron(np.kron(H, H), H), U, 1e-9); n += 1
        U = parse(head + "h q[0]; // c\n/* x q[0]; */ s q[0];").unitary()
        assert E.eq_up_to_phase(S @ H, U.reshape(2, 4, 2, 4)[:, 0, :, 0], 1e-9); n += 1
        U = parse(head + "rx(pi*0.5) q[0]; rz(-pi/4+2*0.125*pi) q[1]; ry(3.0e-1*pi) q[2];").unitary()
        assert E.eq_up_to_phase(np.kron(np.kron(_rx(math.pi / 2), I2), _ry(0.3 * math.pi)), U, 1e-9); n += 1
        # user gate definition
        U = parse(head + "gate foo(a) u,v { rx(a) u; cx u,v; }\nfoo(pi/3) q[1],q[0];").unitary()
        assert E.eq_up_to_phase(E.embed(ctl(X) @ np.kron(_rx(math.pi / 3), I2), [1, 0], (2, 2, 2)), U, 1e-9); n += 1
        # measurement, reset, conditionals
        cdecl = "creg c[2]; creg d[1];" if ver == "2.0" else "bit[2] c; bit[1] d;"
        m1 = "measure q[0] -> c[1];" if ver == "2.0" else "c[1] = measure q[0];"
        pr = parse(head + cdecl + f"h q[0]; {m1} if (c==2) x q[1]; if (c==1) x q[2];")
        d = pr.run()
        keys = {k: v[0] for k, v in d.items()}
        assert len(d) == 2, d.keys()
        for hist, (p_, rho) in d.items():
            assert abs(p_ - 0.5) < 1e-12
            hd = dict(hist)
            bit = hd["c"][0][1]
            assert hd["c"][0][0] == 1 and hd["d"] == ()
            # c[1]=1 means c==2 -> x on q[1]; q[2] never flipped
            idx = (bit << 2) | (bit << 1)
            assert abs(rho[idx, idx] - 1) < 1e-12, (hist, np.round(np.diag(rho).real, 3))
        n += 1
        pr = parse(head + cdecl + "x q[0]; reset q[0]; h q[1]; reset q[1];")
        d = pr.run()
        (p_, rho), = d.values()
        assert abs(rho[0, 0] - 1) < 1e-12; n += 1
        # rejections
        bad_programs = [head + "foo q[0];", head + "x q[3];", head + "x q[0]", head + "cx q[0],q[0];", head + "x r[0];",
                        head + cdecl + "if (e==1) x q[0];", head + "rx(1.0 q[0];", head + "x q[0]; $"]
        if ver == "2.0":
            bad_programs += [head + "rx(1e-5) q[0];", head + "creg C[1];", head + cdecl + "if (c!=1) x q[0];",
                             head + cdecl + "if (c==1) { x q[0]; }", head + "inv @ s q[0];"]
        else:
            bad_programs += [head + "sxdg q[0];", head + "cu1(0.3) q[0],q[1];"]
        for bp in bad_programs:
            try:
                parse(bp)
            except QasmError:
                n += 1
            else:
                raise AssertionError(f"reader accepted malformed program: {bp!r}")
    # 3.0-only forms
    head3 = 'OPENQASM 3.0;\ninclude "stdgates.inc";\nqubit[2] q;\nbit[2] c;\n'
    d = parse(head3 + "x q[1]; c[1] = measure q[1]; if (c!=0) x q[0]; if (c[1]==1 && c[0]==0) { h q[1]; h q[1]; } else { x q[0]; }").run()
    (hist, (p_, rho)), = d.items()
    assert abs(rho[3, 3] - 1) < 1e-12 and dict(hist)["c"] == ((1, 1),); n += 1
    d = parse(head3 + "rx(1e-5*pi) q[0];").unitary(); n += 1
    return n
