"""Closed-form reference matrices / Kraus sets for Cirq's gate library (property C03).

Everything here is typed in from the class docstrings of the gate families and from standard textbook
definitions, with plain numpy / cmath only.  NO cirq object or protocol is used (cirq is not imported).

Conventions
* big-endian: the first qubit of a gate is the most significant digit of the matrix index;
* exponents t are "half turns" (a phase of exp(i*pi*t)); `s` is EigenGate's ``global_shift`` whose documented
  effect is the global factor exp(i*pi*s*t) on the whole matrix;
* angles named rads/theta/phi/... are radians unless the family's docstring says otherwise (IonQ uses turns).
"""
from __future__ import annotations

import cmath
import itertools
import math
from typing import Callable, Iterable, Sequence

import numpy as np

C = np.complex128
I2 = np.eye(2, dtype=C)
PX = np.array([[0, 1], [1, 0]], dtype=C)
PY = np.array([[0, -1j], [1j, 0]], dtype=C)
PZ = np.array([[1, 0], [0, -1]], dtype=C)
PAULI = {"I": I2, "X": PX, "Y": PY, "Z": PZ}


def ph(t: float) -> complex:
    """exp(i*pi*t)"""
    return cmath.exp(1j * math.pi * t)


def ei(x: float) -> complex:
    """exp(i*x)"""
    return cmath.exp(1j * x)


def kron(*ms):
    out = np.eye(1, dtype=C)
    for m in ms:
        out = np.kron(out, np.asarray(m, dtype=C))
    return out


def block_diag(*ms):
    n = sum(m.shape[0] for m in ms)
    out = np.zeros((n, n), dtype=C)
    k = 0
    for m in ms:
        d = m.shape[0]
        out[k:k + d, k:k + d] = m
        k += d
    return out


def dag(m):
    return np.asarray(m).conj().T


# ------------------------------------------------------------------------------------------------
# single-qubit / single-qudit families


def xpow(t, s=0.0, d=2):
    """XPowGate docstring (d=2): e^{i pi t (s+1/2)} [[cos, -i sin], [-i sin, cos]](pi t/2).

    d>2: the generalized Pauli X (cyclic shift |j> -> |j+1 mod d>) raised to t on the eigenphase branch
    2*pi*k/d, k=0..d-1 (for d=2 this is the docstring matrix): X^t = sum_k e^{2 pi i k t/d} |f_k><f_k|,
    |f_k> = d^{-1/2} sum_j w^{-jk} |j>, w = e^{2 pi i/d}.
    """
    if d == 2:
        c = math.cos(math.pi * t / 2)
        sn = math.sin(math.pi * t / 2)
        return ph(t * (s + 0.5)) * np.array([[c, -1j * sn], [-1j * sn, c]], dtype=C)
    w = cmath.exp(2j * math.pi / d)
    out = np.zeros((d, d), dtype=C)
    for k in range(d):
        f = np.array([w ** (-j * k) for j in range(d)], dtype=C) / math.sqrt(d)
        out += cmath.exp(2j * math.pi * k * t / d) * np.outer(f, f.conj())
    return ph(s * t) * out


def zpow(t, s=0.0, d=2):
    """ZPowGate docstring (d=2): e^{i pi s t} diag(1, e^{i pi t}); qudit clock matrix diag(w^j)^t, w=e^{2 pi i/d}."""
    return ph(s * t) * np.diag([cmath.exp(2j * math.pi * j * t / d) for j in range(d)]).astype(C)


def ypow(t, s=0.0):
    """YPowGate docstring: g=[e^{i pi t/2}] [[g c, -g s],[g s, g c]] times the global-shift factor."""
    c = math.cos(math.pi * t / 2)
    sn = math.sin(math.pi * t / 2)
    g = ph(t / 2)
    return ph(s * t) * np.array([[g * c, -g * sn], [g * sn, g * c]], dtype=C)


def hpow(t, s=0.0):
    """HPowGate docstring."""
    c = math.cos(math.pi * t / 2)
    sn = math.sin(math.pi * t / 2)
    g = ph(t / 2)
    r = math.sqrt(2)
    return ph(s * t) * np.array([[g * (c - 1j * sn / r), -1j * g * sn / r],
                                 [-1j * g * sn / r, g * (c + 1j * sn / r)]], dtype=C)


def rx(r):
    c, sn = math.cos(r / 2), math.sin(r / 2)
    return np.array([[c, -1j * sn], [-1j * sn, c]], dtype=C)


def ry(r):
    c, sn = math.cos(r / 2), math.sin(r / 2)
    return np.array([[c, -sn], [sn, c]], dtype=C)


def rz(r):
    return np.array([[ei(-r / 2), 0], [0, ei(r / 2)]], dtype=C)


def phased_xpow(t, p, s=0.0):
    """PhasedXPowGate docstring matrix (exponent t, phase_exponent p) times the global-shift factor."""
    c = math.cos(math.pi * t / 2)
    sn = math.sin(math.pi * t / 2)
    return ph(s * t) * np.array([[ph(t / 2) * c, -1j * ph(t / 2 - p) * sn],
                                 [-1j * ph(t / 2 + p) * sn, ph(t / 2) * c]], dtype=C)


def phased_xz(x, z, a):
    """PhasedXZGate docstring matrix."""
    c = math.cos(math.pi * x / 2)
    sn = math.sin(math.pi * x / 2)
    return np.array([[ph(x / 2) * c, -1j * ph(x / 2 - a) * sn],
                     [-1j * ph(x / 2 + z + a) * sn, ph(x / 2 + z) * c]], dtype=C)


def identity(shape: Sequence[int]):
    return np.eye(int(np.prod(shape)) if len(shape) else 1, dtype=C)


def global_phase(coefficient: complex):
    return np.array([[coefficient]], dtype=C)


# ------------------------------------------------------------------------------------------------
# two-qubit families


def czpow(t, s=0.0):
    return ph(s * t) * np.diag([1, 1, 1, ph(t)]).astype(C)


def cxpow(t, s=0.0):
    """CXPowGate docstring: identity on the control-0 block, [[g c, -i g s],[-i g s, g c]] on the control-1 block."""
    return ph(s * t) * block_diag(I2, xpow(t))


def cypow(t, s=0.0):
    return ph(s * t) * block_diag(I2, ypow(t))


def swappow(t, s=0.0):
    c = math.cos(math.pi * t / 2)
    sn = math.sin(math.pi * t / 2)
    g = ph(t / 2)
    return ph(s * t) * np.array([[1, 0, 0, 0], [0, g * c, -1j * g * sn, 0], [0, -1j * g * sn, g * c, 0], [0, 0, 0, 1]], dtype=C)


def iswappow(t, s=0.0):
    c = math.cos(math.pi * t / 2)
    sn = math.sin(math.pi * t / 2)
    return ph(s * t) * np.array([[1, 0, 0, 0], [0, c, 1j * sn, 0], [0, 1j * sn, c, 0], [0, 0, 0, 1]], dtype=C)


def phased_iswappow(t, p, s=0.0):
    """PhasedISwapPowGate docstring: c=cos(pi t/2), s=sin(pi t/2), f=e^{2 pi i p}."""
    c = math.cos(math.pi * t / 2)
    sn = math.sin(math.pi * t / 2)
    f = cmath.exp(2j * math.pi * p)
    return ph(s * t) * np.array([[1, 0, 0, 0], [0, c, 1j * sn * f, 0], [0, 1j * sn * f.conjugate(), c, 0], [0, 0, 0, 1]], dtype=C)


def givens(a):
    c, sn = math.cos(a), math.sin(a)
    return np.array([[1, 0, 0, 0], [0, c, -sn, 0], [0, sn, c, 0], [0, 0, 0, 1]], dtype=C)


def riswap(r):
    """exp(+i r (XX+YY)/2): (XX+YY)/2 is sigma_x on span{|01>,|10>} and 0 elsewhere."""
    c, sn = math.cos(r), math.sin(r)
    return np.array([[1, 0, 0, 0], [0, c, 1j * sn, 0], [0, 1j * sn, c, 0], [0, 0, 0, 1]], dtype=C)


def cphase(r):
    return np.diag([1, 1, 1, ei(r)]).astype(C)


def _parity(t, s, sign_corner):
    c = ph(t / 2) * math.cos(math.pi * t / 2)
    sn = -1j * ph(t / 2) * math.sin(math.pi * t / 2)
    k = sign_corner * sn
    return ph(s * t) * np.array([[c, 0, 0, k], [0, c, sn, 0], [0, sn, c, 0], [k, 0, 0, c]], dtype=C)


def xxpow(t, s=0.0):
    return _parity(t, s, +1)


def yypow(t, s=0.0):
    return _parity(t, s, -1)


def zzpow(t, s=0.0):
    return ph(s * t) * np.diag([1, ph(t), ph(t), 1]).astype(C)


def ms(r):
    """cirq.MSGate docstring: exp(-i r XX)."""
    c, sn = math.cos(r), -1j * math.sin(r)
    return np.array([[c, 0, 0, sn], [0, c, sn, 0], [0, sn, c, 0], [sn, 0, 0, c]], dtype=C)


def fsim(theta, phi):
    a, b, c = math.cos(theta), -1j * math.sin(theta), ei(-phi)
    return np.array([[1, 0, 0, 0], [0, a, b, 0], [0, b, a, 0], [0, 0, 0, c]], dtype=C)


def phased_fsim(theta, zeta, chi, gamma, phi):
    c, sn = math.cos(theta), math.sin(theta)
    return np.array([[1, 0, 0, 0],
                     [0, ei(-gamma - zeta) * c, -1j * ei(-gamma + chi) * sn, 0],
                     [0, -1j * ei(-gamma - chi) * sn, ei(-gamma + zeta) * c, 0],
                     [0, 0, 0, ei(-2 * gamma - phi)]], dtype=C)


def phased_fsim_from_rz(theta, phi, before, after):
    """Docstring circuit Rz(b0)xRz(b1) ; FSim(theta,phi) ; Rz(a0)xRz(a1) (time order) -- equal UP TO GLOBAL PHASE."""
    return kron(rz(after[0]), rz(after[1])) @ fsim(theta, phi) @ kron(rz(before[0]), rz(before[1]))


def pauli_projector(p: str, eigen: int):
    """Projector on the `eigen` (+1/-1) eigenspace of Pauli p."""
    return (I2 + eigen * PAULI[p]) / 2


def pauli_interaction(p0, inv0, p1, inv1, t):
    """'A CZ conjugated by single-qubit Cliffords': phases by e^{i pi t} the product of the two conditions.

    With invert=False the condition is the -1 eigenvector of the axis (as for CZ = (Z,False,Z,False), which phases
    |1>|1>, and CNOT = (Z,False,X,False), which phases |1>|->); invert=True selects the +1 eigenvector.
    """
    P = kron(pauli_projector(p0, +1 if inv0 else -1), pauli_projector(p1, +1 if inv1 else -1))
    return np.eye(4, dtype=C) + (ph(t) - 1) * P


# ------------------------------------------------------------------------------------------------
# three-qubit families


def ccxpow(t, s=0.0):
    return ph(s * t) * block_diag(np.eye(6, dtype=C), xpow(t))


def ccypow(t, s=0.0):
    return ph(s * t) * block_diag(np.eye(6, dtype=C), ypow(t))


def cczpow(t, s=0.0):
    return ph(s * t) * np.diag([1] * 7 + [ph(t)]).astype(C)


def cswap():
    m = np.eye(8, dtype=C)
    m[[5, 6]] = m[[6, 5]]
    return m


def diagonal(angles):
    return np.diag([ei(a) for a in angles]).astype(C)


# ------------------------------------------------------------------------------------------------
# n-qubit structured gates


def qft(n, without_reverse=False):
    """2^{-n/2} sum_{x,y} w^{xy} |x><y|, w=e^{2 pi i/2^n}; without_reverse omits the final qubit-order
    reversing swaps, i.e. the output register is bit-reversed: R.QFT."""
    N = 2 ** n
    w = cmath.exp(2j * math.pi / N)
    m = np.array([[w ** ((x * y) % N) for y in range(N)] for x in range(N)], dtype=C) / math.sqrt(N)
    if without_reverse:
        R = np.zeros((N, N), dtype=C)
        for x in range(N):
            R[int(format(x, f"0{n}b")[::-1], 2) if n else 0, x] = 1
        m = R @ m
    return m


def phase_gradient(n, t):
    N = 2 ** n
    return np.diag([cmath.exp(2j * math.pi * x * t / N) for x in range(N)]).astype(C)


def qubit_permutation(perm):
    """The qubit at offset i is moved to offset perm[i] ('the entry at offset i is the result of permuting i')."""
    n = len(perm)
    m = np.zeros((2 ** n, 2 ** n), dtype=C)
    for bits in itertools.product((0, 1), repeat=n):
        out = [0] * n
        for i in range(n):
            out[perm[i]] = bits[i]
        m[int("".join(map(str, out)), 2), int("".join(map(str, bits)), 2)] = 1
    return m


def qubit_permutation_class_docstring(perm):
    """sum_x |x_{p_0},...,x_{p_{n-1}}><x_0,...,x_{n-1}| (the formula of the class docstring)."""
    n = len(perm)
    m = np.zeros((2 ** n, 2 ** n), dtype=C)
    for bits in itertools.product((0, 1), repeat=n):
        out = [bits[perm[k]] for k in range(n)]
        m[int("".join(map(str, out)), 2), int("".join(map(str, bits)), 2)] = 1
    return m


def _digits_to_int(digits, dims):
    v = 0
    for dgt, d in zip(digits, dims):
        v = v * d + dgt
    return v


def _int_to_digits(v, dims):
    out = []
    for d in reversed(dims):
        out.append(v % d)
        v //= d
    return tuple(reversed(out))


def arithmetic(registers, fn: Callable[..., Sequence[int]]):
    """Permutation matrix of a reversible classical function on big-endian mixed-radix registers.

    registers: sequence of int (classical constant) or tuple of qid dimensions.
    fn(*values) must return the FULL tuple of new register values (already reduced or not; reduced here
    modulo the register size as documented for ArithmeticGate.apply).
    """
    qregs = [tuple(r) for r in registers if not isinstance(r, int)]
    shape = tuple(d for r in qregs for d in r)
    D = int(np.prod(shape)) if shape else 1
    sizes = [int(np.prod(r)) for r in qregs]
    m = np.zeros((D, D), dtype=C)
    for vals in itertools.product(*[range(sz) for sz in sizes]):
        it = iter(vals)
        full = [r if isinstance(r, int) else next(it) for r in registers]
        out_full = list(fn(*full))
        outs = []
        for r, o in zip(registers, out_full):
            if not isinstance(r, int):
                outs.append(o % int(np.prod(r)))
        src_digits = tuple(dg for v, r in zip(vals, qregs) for dg in _int_to_digits(v, r))
        dst_digits = tuple(dg for v, r in zip(outs, qregs) for dg in _int_to_digits(v, r))
        m[_digits_to_int(dst_digits, shape), _digits_to_int(src_digits, shape)] = 1
    return m


def boolean_hamiltonian(n, fns: Sequence[Callable[..., bool]], theta):
    """Diagonal gate sum_x e^{-i (theta/2) sum_k f_k(x)} |x><x|  -- compared UP TO GLOBAL PHASE.

    Magnitude theta/2 per satisfied expression as in the class docstring; sign as in the constructor docstring
    ('exp(-j * theta * polynomial)') -- see the note in checks/c03_gate_matrices.py.
    """
    d = []
    for bits in itertools.product((0, 1), repeat=n):
        k = sum(1 for f in fns if f(*bits))
        d.append(ei(-theta / 2 * k))
    return np.diag(d).astype(C)


def uniform_superposition_state(m, n):
    v = np.zeros(2 ** n, dtype=C)
    v[:m] = 1 / math.sqrt(m)
    return v


def dense_pauli_string(paulis: str, coefficient=1):
    return coefficient * kron(*[PAULI[p] for p in paulis]) if paulis else np.array([[coefficient]], dtype=C)


def pauli_string_phasor(paulis: str, sign: int, e_neg, e_pos):
    """-1 eigenstates of S = sign * P_1 x P_2 ... are multiplied by e^{i pi e_neg}, +1 eigenstates by e^{i pi e_pos}."""
    S = sign * kron(*[PAULI[p] for p in paulis])
    D = S.shape[0]
    Pp = (np.eye(D) + S) / 2
    Pm = (np.eye(D) - S) / 2
    return ph(e_pos) * Pp + ph(e_neg) * Pm


def controlled(sub: np.ndarray, control_dims: Sequence[int], allowed: Iterable[Sequence[int]]):
    """sum_c |c><c| (x) (sub if c in allowed else 1); controls are the first (most significant) qids."""
    allowed = {tuple(a) for a in allowed}
    blocks = []
    for c in itertools.product(*[range(d) for d in control_dims]):
        blocks.append(np.asarray(sub, dtype=C) if c in allowed else np.eye(sub.shape[0], dtype=C))
    return block_diag(*blocks)


def parallel(sub: np.ndarray, copies: int):
    return kron(*([sub] * copies))


# ------------------------------------------------------------------------------------------------
# channels: Kraus sets from the docstrings


def k_bit_flip(p):
    return [math.sqrt(1 - p) * I2, math.sqrt(p) * PX]


def k_phase_flip(p):
    return [math.sqrt(1 - p) * I2, math.sqrt(p) * PZ]


def k_pauli_mixture(probs: dict):
    """sum_i p_i P_i rho P_i for n-qubit Pauli words; a missing identity takes the remaining mass."""
    probs = dict(probs)
    n = len(next(iter(probs)))
    tot = sum(probs.values())
    if "I" * n not in probs and tot < 1:
        probs["I" * n] = 1 - tot
    return [math.sqrt(max(p, 0.0)) * kron(*[PAULI[c] for c in w]) for w, p in probs.items()]


def k_asymmetric_depolarize(px, py, pz):
    return k_pauli_mixture({"I": 1 - px - py - pz, "X": px, "Y": py, "Z": pz})


def k_depolarize(p, n=1):
    """(1-p) rho + p/(4^n-1) sum over the 4^n-1 non-identity Pauli words."""
    words = ["".join(w) for w in itertools.product("IXYZ", repeat=n)]
    return k_pauli_mixture({w: (1 - p if w == "I" * n else p / (4 ** n - 1)) for w in words})


def k_amplitude_damp(gamma):
    return [np.array([[1, 0], [0, math.sqrt(1 - gamma)]], dtype=C), np.array([[0, math.sqrt(gamma)], [0, 0]], dtype=C)]


def k_generalized_amplitude_damp(p, gamma):
    sp, sq = math.sqrt(p), math.sqrt(1 - p)
    g, h = math.sqrt(gamma), math.sqrt(1 - gamma)
    return [sp * np.array([[1, 0], [0, h]], dtype=C), sp * np.array([[0, g], [0, 0]], dtype=C),
            sq * np.array([[h, 0], [0, 1]], dtype=C), sq * np.array([[0, 0], [g, 0]], dtype=C)]


def k_phase_damp(gamma):
    return [np.array([[1, 0], [0, math.sqrt(1 - gamma)]], dtype=C), np.array([[0, 0], [0, math.sqrt(gamma)]], dtype=C)]


def k_reset(d=2):
    """|0><i| for every level i ('a 1 at a different position in the top row')."""
    out = []
    for i in range(d):
        k = np.zeros((d, d), dtype=C)
        k[0, i] = 1
        out.append(k)
    return out


def k_tensor(*kraus_sets):
    out = [np.eye(1, dtype=C)]
    for ks in kraus_sets:
        out = [np.kron(a, b) for a in out for b in ks]
    return out


def k_state_preparation(state):
    """|psi><i| for every basis state i (psi normalised)."""
    psi = np.asarray(state, dtype=C)
    psi = psi / np.linalg.norm(psi)
    out = []
    for i in range(len(psi)):
        k = np.zeros((len(psi), len(psi)), dtype=C)
        k[:, i] = psi
        out.append(k)
    return out


def k_random_gate(sub_kraus, p):
    """Applies the sub gate with probability p, nothing otherwise."""
    D = sub_kraus[0].shape[0]
    return [math.sqrt(p) * np.asarray(k, dtype=C) for k in sub_kraus] + [math.sqrt(1 - p) * np.eye(D, dtype=C)]


def k_mixture(pairs):
    return [math.sqrt(p) * np.asarray(u, dtype=C) for p, u in pairs]


def k_measurement(shape):
    """Projective computational-basis measurement with the outcome discarded: {|i><i|}."""
    D = int(np.prod(shape))
    out = []
    for i in range(D):
        k = np.zeros((D, D), dtype=C)
        k[i, i] = 1
        out.append(k)
    return out


def superop(kraus):
    """sum_k K (x) K^* (row-major vec convention)."""
    return sum(np.kron(np.asarray(k, dtype=C), np.asarray(k, dtype=C).conj()) for k in kraus)


# ------------------------------------------------------------------------------------------------
# vendor gates


def sycamore():
    return np.array([[1, 0, 0, 0], [0, 0, -1j, 0], [0, -1j, 0, 0], [0, 0, 0, ei(-math.pi / 6)]], dtype=C)


def willow():
    return np.array([[1, 0, 0, 0], [0, 0, -1j, 0], [0, -1j, 0, 0], [0, 0, 0, ei(-math.pi / 9)]], dtype=C)


def ionq_gpi(phi):
    return np.array([[0, ei(-2 * math.pi * phi)], [ei(2 * math.pi * phi), 0]], dtype=C)


def ionq_gpi2(phi):
    return np.array([[1, -1j * ei(-2 * math.pi * phi)], [-1j * ei(2 * math.pi * phi), 1]], dtype=C) / math.sqrt(2)


def ionq_ms(phi0, phi1, theta=0.25):
    c, sn = math.cos(math.pi * theta), math.sin(math.pi * theta)
    tp = 2 * math.pi
    return np.array([[c, 0, 0, -1j * ei(-tp * (phi0 + phi1)) * sn],
                     [0, c, -1j * ei(-tp * (phi0 - phi1)) * sn, 0],
                     [0, -1j * ei(tp * (phi0 - phi1)) * sn, c, 0],
                     [-1j * ei(tp * (phi0 + phi1)) * sn, 0, 0, c]], dtype=C)


def ionq_zz(theta):
    a, b = ei(-math.pi * theta), ei(math.pi * theta)
    return np.diag([a, b, b, a]).astype(C)


# ------------------------------------------------------------------------------------------------
# textbook constants, typed in entry by entry

_r = 1 / math.sqrt(2)
CONST = {
    "I": np.array([[1, 0], [0, 1]], dtype=C),
    "X": np.array([[0, 1], [1, 0]], dtype=C),
    "Y": np.array([[0, -1j], [1j, 0]], dtype=C),
    "Z": np.array([[1, 0], [0, -1]], dtype=C),
    "H": np.array([[_r, _r], [_r, -_r]], dtype=C),
    "S": np.array([[1, 0], [0, 1j]], dtype=C),
    "T": np.array([[1, 0], [0, cmath.exp(1j * math.pi / 4)]], dtype=C),
    "CNOT": np.array([[1, 0, 0, 0], [0, 1, 0, 0], [0, 0, 0, 1], [0, 0, 1, 0]], dtype=C),
    "CY": np.array([[1, 0, 0, 0], [0, 1, 0, 0], [0, 0, 0, -1j], [0, 0, 1j, 0]], dtype=C),
    "CZ": np.diag([1, 1, 1, -1]).astype(C),
    "SWAP": np.array([[1, 0, 0, 0], [0, 0, 1, 0], [0, 1, 0, 0], [0, 0, 0, 1]], dtype=C),
    "ISWAP": np.array([[1, 0, 0, 0], [0, 0, 1j, 0], [0, 1j, 0, 0], [0, 0, 0, 1]], dtype=C),
    "ISWAP_INV": np.array([[1, 0, 0, 0], [0, 0, -1j, 0], [0, -1j, 0, 0], [0, 0, 0, 1]], dtype=C),
    "SQRT_ISWAP": np.array([[1, 0, 0, 0], [0, _r, 1j * _r, 0], [0, 1j * _r, _r, 0], [0, 0, 0, 1]], dtype=C),
    "SQRT_ISWAP_INV": np.array([[1, 0, 0, 0], [0, _r, -1j * _r, 0], [0, -1j * _r, _r, 0], [0, 0, 0, 1]], dtype=C),
    "XX": np.array([[0, 0, 0, 1], [0, 0, 1, 0], [0, 1, 0, 0], [1, 0, 0, 0]], dtype=C),
    "YY": np.array([[0, 0, 0, -1], [0, 0, 1, 0], [0, 1, 0, 0], [-1, 0, 0, 0]], dtype=C),
    "ZZ": np.diag([1, -1, -1, 1]).astype(C),
}
_ccx = np.eye(8, dtype=C)
_ccx[[6, 7]] = _ccx[[7, 6]]
_ccy = np.eye(8, dtype=C)
_ccy[6:, 6:] = CONST["Y"]
CONST["CCX"] = _ccx
CONST["CCY"] = _ccy
CONST["CCZ"] = np.diag([1] * 7 + [-1]).astype(C)
CONST["CSWAP"] = cswap()
# CX followed by SWAP (the "CNS" gate); CZ followed by SWAP
CONST["CXSWAP"] = CONST["SWAP"] @ CONST["CNOT"]
CONST["CZSWAP"] = CONST["SWAP"] @ CONST["CZ"]


# ------------------------------------------------------------------------------------------------


def _self_test():
    close = lambda a, b: np.allclose(a, b, atol=1e-12)
    for t in (0.3, -1.7, 1.0):
        assert close(xpow(t, 0.2, 2), ph(0.2 * t) * sum(ph(k * t) * pauli_projector("X", 1 - 2 * k) for k in (0, 1)))
        assert close(ypow(t, -0.5), ry(math.pi * t))
        assert close(xpow(t, -0.5), rx(math.pi * t))
        assert close(zpow(t, -0.5), rz(math.pi * t))
        assert close(zzpow(t), kron(I2, I2) * (1 + ph(t)) / 2 + kron(PZ, PZ) * (1 - ph(t)) / 2)
        assert close(xxpow(t), kron(I2, I2) * (1 + ph(t)) / 2 + kron(PX, PX) * (1 - ph(t)) / 2)
        assert close(yypow(t), kron(I2, I2) * (1 + ph(t)) / 2 + kron(PY, PY) * (1 - ph(t)) / 2)
        assert close(hpow(t), I2 * (1 + ph(t)) / 2 + CONST["H"] * (1 - ph(t)) / 2)
        assert close(phased_xpow(t, 0.3), zpow(0.3) @ xpow(t) @ zpow(-0.3))
        assert close(phased_xz(t, 0.4, 0.3), zpow(0.4) @ zpow(0.3) @ xpow(t) @ zpow(-0.3))
        assert close(phased_iswappow(t, 0.3), kron(zpow(-0.3), zpow(0.3)) @ iswappow(t) @ kron(zpow(0.3), zpow(-0.3)))
        assert close(ms(t), math.cos(t) * np.eye(4) - 1j * math.sin(t) * kron(PX, PX))
        assert close(fsim(t, 0.7), iswappow(-2 * t / math.pi) @ czpow(-0.7 / math.pi))
    for d in (2, 3, 4):
        sh = np.zeros((d, d))
        for j in range(d):
            sh[(j + 1) % d, j] = 1
        assert close(xpow(1, 0, d), sh)
        assert close(xpow(0.5, 0, d) @ xpow(0.5, 0, d), sh)
        assert close(zpow(1, 0, d), np.diag([cmath.exp(2j * math.pi * j / d) for j in range(d)]))
    assert close(xpow(1), PX) and close(ypow(1), PY) and close(zpow(1), PZ) and close(hpow(1), CONST["H"])
    assert close(cxpow(1), CONST["CNOT"]) and close(swappow(1), CONST["SWAP"]) and close(iswappow(1), CONST["ISWAP"])
    assert close(pauli_interaction("Z", False, "Z", False, 1), CONST["CZ"])
    assert close(pauli_interaction("Z", False, "X", False, 1), CONST["CNOT"])
    assert close(qft(1), CONST["H"])
    assert close(qubit_permutation((1, 0)), CONST["SWAP"])
    # 3-cycle: qubit 0 -> 1, 1 -> 2, 2 -> 0 : |abc> -> |cab>
    P = qubit_permutation((1, 2, 0))
    assert P[0b010, 0b100] == 1 and P[0b001, 0b010] == 1
    assert close(arithmetic([(2, 2), (2,)], lambda a, b: (a + b, b))[:, 0b011], np.eye(8)[0b101])
    for ks in (k_bit_flip(0.3), k_depolarize(0.3, 2), k_generalized_amplitude_damp(0.2, 0.4), k_reset(3),
               k_state_preparation([1, 1j, 0, 2]), k_asymmetric_depolarize(0.1, 0.2, 0.3), k_phase_damp(0.3)):
        assert close(sum(dag(k) @ k for k in ks), np.eye(ks[0].shape[0]))
    assert close(ionq_gpi2(0.0), rx(math.pi / 2)) and close(ionq_gpi(0), PX) and close(ionq_gpi(0.25), PY)
    assert close(ionq_ms(0, 0), ms(math.pi / 4)) and close(ionq_zz(0.1), ei(-0.1 * math.pi) * zzpow(0.2))
    assert close(sycamore(), fsim(math.pi / 2, math.pi / 6))
    assert close(givens(0.3), phased_iswappow(2 * 0.3 / math.pi, 0.25))


_self_test()
