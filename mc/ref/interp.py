"""Reference interpreter (deliberately boring): exact semantics of a flat circuit as a set of
weighted density-matrix branches, one per distinct measurement record.

`run(circuit, qubit_order, rho0=None)` walks the operations moment by moment (operations of one
moment in stored order; they act on disjoint qubits so the order is immaterial for the quantum
part) and returns `{record: (probability, normalised rho)}` where record is a tuple of
(key_string, digits) in measurement order.

* unitary / channel operations: rho -> sum_k K rho K^dagger with K = cirq.kraus(op) (C03/C04 tie
  those to closed forms independently)
* MeasurementGate: projective measurement on the computational basis of each measured qid with
  collapse; the reported digits are the true digits passed through the confusion matrices (row =
  true value, big-endian over the indexed qids) and then the invert mask (qubit digits only)
* PauliMeasurementGate: measurement of the +-1 eigen-projectors of the observable
* classical control: the condition is evaluated on the branch's own record (KeyCondition:
  record[index] != 0 as an integer; SympyCondition: expression over key -> integer of the latest
  record; BitMaskKeyCondition as documented)
* ResetChannel etc. are channels.
CircuitOperations must be flattened by the caller (C12 has its own reference unroller).
"""
from __future__ import annotations

import itertools
from typing import Dict, List, Sequence, Tuple

import numpy as np
import sympy

import cirq

from mc.ref import embed as E

EPS = 1e-12


def digits_to_int(digits, dims):
    v = 0
    for d, b in zip(digits, dims):
        v = v * b + d
    return v


def int_to_digits(v, dims):
    out = []
    for b in reversed(dims):
        out.append(v % b)
        v //= b
    return tuple(reversed(out))


class Branch:
    __slots__ = ("p", "rho", "rec", "dims")

    def __init__(self, p, rho, rec, dims):
        self.p = p
        self.rho = rho
        self.rec = rec  # tuple of (key, digits)
        self.dims = dims  # dict key -> dims tuple (latest)


def _latest(rec, key, index=-1):
    vals = [d for k, d in rec if k == key]
    if not vals:
        raise KeyError(key)
    return vals[index]


def eval_condition(cond, rec, dims) -> bool:
    if isinstance(cond, cirq.KeyCondition):
        k = str(cond.key)
        return digits_to_int(_latest(rec, k, cond.index), dims[k]) != 0
    if isinstance(cond, cirq.BitMaskKeyCondition):
        k = str(cond.key)
        v = digits_to_int(_latest(rec, k, cond.index), dims[k])
        if cond.bitmask is not None:
            v &= cond.bitmask
        return (v == cond.target_value) if cond.equal_target else (v != cond.target_value)
    if isinstance(cond, cirq.SympyCondition):
        repl = {}
        for s in cond.expr.free_symbols:
            if isinstance(s, sympy.Symbol):
                repl[s] = digits_to_int(_latest(rec, s.name), dims[s.name])
        for s in cond.expr.free_symbols:
            if isinstance(s, sympy.Indexed):
                repl[s] = _latest(rec, s.base.name)[int(s.indices[0])]
        return bool(cond.expr.xreplace(repl))
    raise NotImplementedError(type(cond))


def _apply_kraus(rho, ks, axes, shape):
    out = np.zeros_like(rho)
    for k in ks:
        K = E.embed(k, axes, shape)
        out = out + K @ rho @ K.conj().T
    return out


def run(circuit, qubit_order: Sequence, rho0=None, merge=True, ops=None) -> Dict[tuple, Tuple[float, np.ndarray]]:
    qs = list(qubit_order)
    shape = tuple(q.dimension for q in qs)
    idx = {q: i for i, q in enumerate(qs)}
    D = int(np.prod(shape)) if shape else 1
    if rho0 is None:
        rho0 = np.zeros((D, D), dtype=np.complex128)
        rho0[0, 0] = 1
    rho0 = np.asarray(rho0, dtype=np.complex128)
    if rho0.ndim == 1:
        rho0 = np.outer(rho0, rho0.conj())
    branches = [Branch(1.0, rho0, (), {})]
    op_iter = ops if ops is not None else circuit.all_operations()
    for op in op_iter:
        nb: List[Branch] = []
        conds = ()
        base = op
        if isinstance(op.untagged, cirq.ClassicallyControlledOperation):
            cco = op.untagged
            conds = tuple(cco.classical_controls)
            base = cco.without_classical_controls()
        ub = base.untagged
        axes = [idx[q] for q in base.qubits]
        for br in branches:
            if conds and not all(eval_condition(c, br.rec, br.dims) for c in conds):
                nb.append(br)
                continue
            g = ub.gate
            if isinstance(g, cirq.MeasurementGate):
                dims = tuple(q.dimension for q in base.qubits)
                key = str(g.mkey)
                mask = tuple(g.full_invert_mask())
                cmap = dict(g.confusion_map) if getattr(g, "confusion_map", None) else {}
                for true in itertools.product(*[range(d) for d in dims]):
                    P = np.eye(D, dtype=np.complex128)
                    for ax, v, d in zip(axes, true, dims):
                        pr = np.zeros((d, d), dtype=np.complex128)
                        pr[v, v] = 1
                        P = P @ E.embed(pr, [ax], shape)
                    r2 = P @ br.rho @ P
                    pr_ = float(np.trace(r2).real)
                    if pr_ <= EPS:
                        continue
                    r2 = r2 / pr_
                    # confusion: distribution over reported digits given the true digits
                    reported = {tuple(true): 1.0}
                    for indices, mat in cmap.items():
                        mat = np.asarray(mat, dtype=float)
                        md = [dims[k] for k in indices]
                        row = digits_to_int([true[k] for k in indices], md)
                        new = {}
                        for cur, w in reported.items():
                            for val in range(mat.shape[1]):
                                pw = mat[row, val]
                                if pw <= EPS:
                                    continue
                                nd = int_to_digits(val, md)
                                c2 = list(cur)
                                for i_, k in enumerate(indices):
                                    c2[k] = nd[i_]
                                c2 = tuple(c2)
                                new[c2] = new.get(c2, 0.0) + w * pw
                        reported = new
                    for rep, w in reported.items():
                        out = tuple((b ^ 1) if (m and b < 2) else b for b, m in zip(rep, mask))
                        nd_ = dict(br.dims)
                        nd_[key] = dims
                        nb.append(Branch(br.p * pr_ * w, r2, br.rec + ((key, out),), nd_))
            elif isinstance(g, cirq.PauliMeasurementGate):
                key = str(g.mkey)
                obs = g.observable()  # DensePauliString
                coef = complex(obs.coefficient)
                mat = np.eye(1, dtype=np.complex128)
                PM = {0: np.eye(2), 1: np.array([[0, 1], [1, 0]]), 2: np.array([[0, -1j], [1j, 0]]), 3: np.diag([1, -1])}
                for pm in obs.pauli_mask:
                    mat = np.kron(mat, PM[int(pm)])
                mat = coef * mat
                I = np.eye(mat.shape[0])
                for bit, proj in ((0, (I + mat) / 2), (1, (I - mat) / 2)):
                    P = E.embed(proj, axes, shape)
                    r2 = P @ br.rho @ P
                    pr_ = float(np.trace(r2).real)
                    if pr_ <= EPS:
                        continue
                    nd_ = dict(br.dims)
                    nd_[key] = (2,)
                    nb.append(Branch(br.p * pr_, r2 / pr_, br.rec + ((key, (bit,)),), nd_))
            elif isinstance(g, (cirq.KrausChannel, cirq.MixedUnitaryChannel)) and cirq.is_measurement(ub):
                # channel with a measurement key: the record is the index of the branch taken
                key = str(cirq.measurement_key_name(ub))
                ks = cirq.kraus(ub)
                for i_, k in enumerate(ks):
                    K = E.embed(k, axes, shape)
                    r2 = K @ br.rho @ K.conj().T
                    pr_ = float(np.trace(r2).real)
                    if pr_ <= EPS:
                        continue
                    nd_ = dict(br.dims)
                    nd_[key] = (len(ks),)
                    nb.append(Branch(br.p * pr_, r2 / pr_, br.rec + ((key, (i_,)),), nd_))
            else:
                if not base.qubits:
                    # zero-qubit op (global phase): scalar, no effect on rho
                    nb.append(br)
                    continue
                ks = cirq.kraus(base)
                nb.append(Branch(br.p, _apply_kraus(br.rho, ks, axes, shape), br.rec, br.dims))
        if merge:
            acc: Dict[tuple, Branch] = {}
            for b_ in nb:
                if b_.rec in acc:
                    a_ = acc[b_.rec]
                    tot = a_.p + b_.p
                    a_.rho = (a_.p * a_.rho + b_.p * b_.rho) / tot
                    a_.p = tot
                else:
                    acc[b_.rec] = Branch(b_.p, b_.rho, b_.rec, b_.dims)
            branches = list(acc.values())
        else:
            branches = nb
    out: Dict[tuple, Tuple[float, np.ndarray]] = {}
    for b_ in branches:
        if b_.rec in out:
            p0, r0 = out[b_.rec]
            tot = p0 + b_.p
            out[b_.rec] = (tot, (p0 * r0 + b_.p * b_.rho) / tot)
        else:
            out[b_.rec] = (b_.p, b_.rho)
    return out


def total_rho(dist) -> np.ndarray:
    return sum(p * r for p, r in dist.values())


def canon_record(rec):
    """Order between different keys is not semantic: key -> tuple of its instances, sorted by key."""
    d = {}
    for k, digits in rec:
        d.setdefault(k, []).append(tuple(digits))
    return tuple((k, tuple(v)) for k, v in sorted(d.items()))


def canon_dist(dist):
    out = {}
    for rec, (p, rho) in dist.items():
        c = canon_record(rec)
        if c in out:
            p0, r0 = out[c]
            out[c] = (p0 + p, (p0 * r0 + p * rho) / (p0 + p))
        else:
            out[c] = (p, rho)
    return out


def compare_dists(ref, got, atol=1e-8, states=True):
    """ref/got: {record: (p, rho)}.  Returns None or a message."""
    ref = canon_dist(ref)
    got = canon_dist(got)
    kr = {k for k, (p, _) in ref.items() if p > atol}
    kg = {k for k, (p, _) in got.items() if p > atol}
    if kr != kg:
        return f"record supports differ: only in reference {sorted(kr - kg)[:4]}, only in implementation {sorted(kg - kr)[:4]}"
    for k in kr:
        if abs(ref[k][0] - got[k][0]) > atol:
            return f"P(record={k}) = {got[k][0]:.10f}, reference {ref[k][0]:.10f}"
        if states and not np.allclose(ref[k][1], got[k][1], atol=max(atol, 1e-7) * 10):
            return f"post-measurement state for record {k} differs from reference (max dev {np.abs(ref[k][1]-got[k][1]).max():.3g})"
    return None
