"""Independent interpreter of the AQT operation lists, written with plain numpy (no cirq import).

Two documented formats:

* legacy list produced by `AQTSampler._generate_json` (docstring there and AQTSimulator.generate_circuit_from_list):
      ["Z",  t, [q]]            RZ(t*pi)                 = exp(-i t pi Z / 2)
      ["R",  theta, phi, [q]]   R(theta*pi, phi*pi)      = exp(-i theta pi (cos(phi pi) X + sin(phi pi) Y) / 2)
      ["MS", t, [q0, q1]]       RXX(t*pi)                = exp(-i t pi X(x)X / 2)
      ["Meas"]                  measurement of all qubits (only allowed once, as the last entry)
* Arnica v1 list produced by `AQTSampler._parse_legacy_circuit_json` (TypedDicts GateRZ / GateR / GateRXX / Measure):
      {"operation": "RZ", "qubit": q, "phi": t}
      {"operation": "R", "qubit": q, "theta": theta, "phi": phi}
      {"operation": "RXX", "qubits": [q0, q1], "theta": t}
      {"operation": "MEASURE"}      exactly one, last

All angles are in units of pi.  Qubit i is wire i; matrices are assembled big-endian.
Results: one row per repetition, column j = result of qubit j.
"""
from __future__ import annotations

import math
from typing import List, Sequence, Tuple

import numpy as np

from mc.ref.ionq import PX, PY, PZ, expand, rot, PayloadRejected  # plain numpy helpers (no cirq)


def _num(x, what):
    if isinstance(x, bool) or not isinstance(x, (int, float)):
        raise PayloadRejected(f"{what} must be a JSON number, got {x!r}")
    if not math.isfinite(x):
        raise PayloadRejected(f"{what} must be finite")
    return float(x)


def _q(x):
    if isinstance(x, bool) or not isinstance(x, int) or x < 0:
        raise PayloadRejected(f"bad qubit index {x!r}")
    return x


def rz(t):
    return rot(PZ, t * math.pi)


def r(theta, phi):
    axis = math.cos(phi * math.pi) * PX + math.sin(phi * math.pi) * PY
    return rot(axis, theta * math.pi)


def rxx(t):
    return rot(np.kron(PX, PX), t * math.pi)


def legacy_ops(seq) -> Tuple[List[Tuple[np.ndarray, List[int]]], int]:
    """[(matrix, wires)], number of 'Meas' entries.  Raises PayloadRejected on anything undocumented."""
    if not isinstance(seq, list):
        raise PayloadRejected("legacy json must be a list")
    out = []
    n_meas = 0
    for e in seq:
        if not isinstance(e, list) or not e:
            raise PayloadRejected(f"bad entry {e!r}")
        if n_meas:
            raise PayloadRejected("operation after the measurement")
        name = e[0]
        if name == "Z":
            if len(e) != 3 or not isinstance(e[2], list) or len(e[2]) != 1:
                raise PayloadRejected(f"bad Z entry {e!r}")
            out.append((rz(_num(e[1], "angle")), [_q(e[2][0])]))
        elif name == "R":
            if len(e) != 4 or not isinstance(e[3], list) or len(e[3]) != 1:
                raise PayloadRejected(f"bad R entry {e!r}")
            out.append((r(_num(e[1], "theta"), _num(e[2], "phi")), [_q(e[3][0])]))
        elif name == "MS":
            if len(e) != 3 or not isinstance(e[2], list) or len(e[2]) != 2 or e[2][0] == e[2][1]:
                raise PayloadRejected(f"bad MS entry {e!r}")
            out.append((rxx(_num(e[1], "angle")), [_q(e[2][0]), _q(e[2][1])]))
        elif name == "Meas":
            n_meas += 1
        else:
            raise PayloadRejected(f"unknown operation {e!r}")
    return out, n_meas


def arnica_ops(seq) -> List[Tuple[np.ndarray, List[int]]]:
    if not isinstance(seq, list) or not seq:
        raise PayloadRejected("quantum_circuit must be a non-empty list")
    out = []
    for i, e in enumerate(seq):
        if not isinstance(e, dict) or "operation" not in e:
            raise PayloadRejected(f"bad operation {e!r}")
        name = e["operation"]
        last = i == len(seq) - 1
        if name == "MEASURE":
            if not last:
                raise PayloadRejected("MEASURE must be the last operation")
            if set(e) != {"operation"}:
                raise PayloadRejected(f"MEASURE takes no arguments: {e!r}")
            continue
        if last:
            raise PayloadRejected("the circuit must end with exactly one MEASURE")
        if name == "RZ":
            if set(e) != {"operation", "qubit", "phi"}:
                raise PayloadRejected(f"bad RZ {e!r}")
            out.append((rz(_num(e["phi"], "phi")), [_q(e["qubit"])]))
        elif name == "R":
            if set(e) != {"operation", "qubit", "phi", "theta"}:
                raise PayloadRejected(f"bad R {e!r}")
            out.append((r(_num(e["theta"], "theta"), _num(e["phi"], "phi")), [_q(e["qubit"])]))
        elif name == "RXX":
            if set(e) != {"operation", "qubits", "theta"} or not isinstance(e["qubits"], list) or len(e["qubits"]) != 2 \
                    or e["qubits"][0] == e["qubits"][1]:
                raise PayloadRejected(f"bad RXX {e!r}")
            out.append((rxx(_num(e["theta"], "theta")), [_q(e["qubits"][0]), _q(e["qubits"][1])]))
        else:
            raise PayloadRejected(f"unknown operation {e!r}")
    return out


def unitary(ops: Sequence[Tuple[np.ndarray, List[int]]], n: int) -> np.ndarray:
    U = np.eye(2 ** n, dtype=np.complex128)
    for m, wires in ops:
        U = expand(m, wires, n) @ U
    return U


def _self_test():
    # R(theta, 0) is an X rotation, R(theta, 1/2) a Y rotation
    assert np.allclose(r(0.3, 0), rot(PX, 0.3 * math.pi)) and np.allclose(r(0.3, 0.5), rot(PY, 0.3 * math.pi))
    assert np.allclose(r(1, 0), -1j * PX)
    ops, nm = legacy_ops([["R", 1.0, 0.0, [1]], ["MS", 0.5, [0, 1]], ["Meas"]])
    assert nm == 1 and len(ops) == 2
    U = unitary(ops, 2)
    ref = np.kron(np.eye(2), PX)
    ref = ((np.eye(4) - 1j * np.kron(PX, PX)) / math.sqrt(2)) @ (-1j * ref)
    assert np.allclose(U, ref)


_self_test()
