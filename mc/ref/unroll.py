"""Independent reference unroller for `cirq.CircuitOperation` (property C12).

Given the *documented attributes* of a CircuitOperation

    circuit, repetitions (negative = inverse), qubit_map, measurement_key_map, param_resolver,
    parent_path, repetition_ids / use_repetition_ids, repeat_until

(read through the public read-only properties, or supplied as a plain `Spec`), produce the flat
program: a list of *leaf* operations (no CircuitOperation, no cirq.If; classical control only as a
ClassicallyControlledOperation around a leaf) whose measurement keys carry their full scope path and
whose control keys are bound to the measurement they refer to.  A `repeat_until` sub-circuit yields a
`Loop` item (body items + bound condition) because it has no finite flat form.

Nothing here calls a CircuitOperation method (no mapped_circuit / with_* / _decompose_ /
with_rescoped_keys ...): the maps of all enclosing operations are applied at the LEAVES, innermost
operation first, through leaf-level protocols only (`op.with_qubits`, `cirq.inverse(leaf)`,
`cirq.resolve_parameters(leaf, ..., recursive=False)`), measurement gates and conditions are rebuilt
explicitly.

Scoping rule (DESIGN.md C12; cirq `Condition._with_rescoped_keys_`, `Circuit._with_rescoped_keys_`,
`CircuitOperation._with_rescoped_keys_`):

* the body of an operation X placed in a body with scope path P has scope S = P + X.parent_path +
  (repetition id,) [id only when repetition ids are in use];
* a measurement key `k` (own path k.path, name n) inside that body is recorded as S + k.path : N where
  N is n pushed through the measurement_key_maps of X and then of every enclosing operation;
* a control key n (renamed the same way) used at scope S refers to  S[:i] : N  for the LARGEST i such
  that this key is a *candidate*; candidates are (a) keys recorded in a strictly earlier moment of the
  same body (including those recorded by nested operations of those moments) and (b) the keys
  visible from outside: for every enclosing body B with scope S_B, the keys recorded in moments of B
  strictly before the moment holding (the ancestor of) X whose path is not longer than S_B
  ("keys of sibling sub-circuits with a longer path are never candidates");
  if there is no candidate the key stays un-scoped (resolved at top level at run time);
* a `repeat_until` condition may also bind to any key recorded by its own body (any moment).
"""
from __future__ import annotations

import dataclasses
import itertools
from typing import Any, Dict, FrozenSet, Iterable, List, Optional, Sequence, Tuple

import attrs
import sympy

import cirq

FullKey = Tuple[Tuple[str, ...], str]  # (path, name)


class UnrollError(Exception):
    """The attributes do not describe a well-formed operation (documented rejection)."""


@dataclasses.dataclass
class Spec:
    circuit: Any
    repetitions: Any = 1
    qubit_map: Dict[Any, Any] = dataclasses.field(default_factory=dict)
    key_map: Dict[str, str] = dataclasses.field(default_factory=dict)
    params: Dict[Any, Any] = dataclasses.field(default_factory=dict)
    parent_path: Tuple[str, ...] = ()
    repetition_ids: Optional[List[str]] = None
    use_repetition_ids: bool = False
    repeat_until: Any = None


def spec_of(op) -> Spec:
    """Reads the documented read-only properties of a CircuitOperation."""
    return Spec(
        circuit=op.circuit,
        repetitions=op.repetitions,
        qubit_map=dict(op.qubit_map),
        key_map=dict(op.measurement_key_map),
        params=dict(op.param_resolver.param_dict),
        parent_path=tuple(op.parent_path),
        repetition_ids=None if op.repetition_ids is None else list(op.repetition_ids),
        use_repetition_ids=bool(op.use_repetition_ids),
        repeat_until=op.repeat_until,
    )


@dataclasses.dataclass
class Loop:
    body: List[Any]  # flat items of ONE iteration
    cond: Any  # bound condition; the loop stops after the first iteration where it is true


@dataclasses.dataclass(frozen=True)
class _Layer:
    qmap: Tuple[Tuple[Any, Any], ...]
    kmap: Tuple[Tuple[str, str], ...]
    params: Tuple[Tuple[Any, Any], ...]


def _as_int_reps(reps):
    if isinstance(reps, sympy.Basic):
        if reps.free_symbols:
            raise UnrollError(f"symbolic repetitions {reps}")
        reps = float(reps)
    if isinstance(reps, float):
        if abs(reps - round(reps)) > 1e-9 * max(1.0, abs(reps)):
            raise UnrollError(f"non-integer repetitions {reps}")
        reps = round(reps)
    return int(reps)


def iteration_ids(spec: Spec, n_abs: int) -> List[Optional[str]]:
    """The repetition id (or None) of each of the n_abs iterations, following the constructor doc."""
    if not spec.use_repetition_ids:
        return [None] * n_abs
    ids = spec.repetition_ids
    if not ids:  # not populated
        if n_abs != 1:
            ids = [str(i) for i in range(n_abs)]
        else:
            return [None]
    if len(ids) != n_abs:
        raise UnrollError(f"{len(ids)} repetition ids for {n_abs} repetitions")
    return list(ids)


# ------------------------------------------------------------------------------------------------
# leaves


def _rename(name: str, layers: Sequence[_Layer]) -> str:
    for layer in reversed(layers):  # innermost operation first
        d = dict(layer.kmap)
        name = d.get(name, name)
    return name


def _map_qubit(q, layers: Sequence[_Layer]):
    for layer in reversed(layers):
        d = dict(layer.qmap)
        q = d.get(q, q)
    return q


def rebuild_condition(cond, mapping: Dict[cirq.MeasurementKey, cirq.MeasurementKey]):
    """`cond` with every key replaced simultaneously; all other fields are kept."""
    if isinstance(cond, cirq.KeyCondition):
        return cirq.KeyCondition(mapping.get(cond.key, cond.key), cond.index)
    if isinstance(cond, cirq.BitMaskKeyCondition):
        return attrs.evolve(cond, key=mapping.get(cond.key, cond.key))
    if isinstance(cond, cirq.SympyCondition):
        repl = {}
        for s in cond.expr.free_symbols:
            if isinstance(s, sympy.Symbol):
                k = cirq.MeasurementKey.parse_serialized(s.name)
                if k in mapping:
                    repl[s] = sympy.Symbol(str(mapping[k]))
            elif isinstance(s, sympy.Indexed):
                raise NotImplementedError("indexed sympy conditions are outside the reference alphabet")
        return cirq.SympyCondition(cond.expr.xreplace(repl))
    raise NotImplementedError(type(cond))


def _bind_key(key: cirq.MeasurementKey, scope, candidates, layers) -> cirq.MeasurementKey:
    name = _rename(key.name, layers)
    for i in range(len(scope), -1, -1):
        cand = (tuple(scope[:i]) + tuple(key.path), name)
        if cand in candidates:
            return cirq.MeasurementKey(name=name, path=cand[0])
    return cirq.MeasurementKey(name=name, path=tuple(key.path))


def _bind_condition(cond, scope, candidates, layers):
    return rebuild_condition(cond, {k: _bind_key(k, scope, candidates, layers) for k in cond.keys})


def _leaf(op, scope, layers, invert, conds) -> Tuple[Any, List[FullKey]]:
    tags = op.tags
    u = op.untagged
    u = u.with_qubits(*[_map_qubit(q, layers) for q in u.qubits])
    keys: List[FullKey] = []
    g = getattr(u, "gate", None)
    if isinstance(g, cirq.MeasurementGate):
        if invert:
            raise UnrollError("a measurement cannot be inverted")
        k = g.mkey
        full = (tuple(scope) + tuple(k.path), _rename(k.name, layers))
        keys.append(full)
        g2 = cirq.MeasurementGate(
            num_qubits=len(u.qubits),
            key=cirq.MeasurementKey(name=full[1], path=full[0]),
            invert_mask=g.invert_mask,
            qid_shape=cirq.qid_shape(g),
            confusion_map=g.confusion_map,
        )
        u = g2.on(*u.qubits)
    elif cirq.measurement_key_objs(u):
        # other keyed leaves (Pauli measurement, keyed channels): leaf-level protocols
        if invert:
            raise UnrollError("a measurement cannot be inverted")
        for layer in reversed(layers):
            if layer.kmap:
                u = cirq.with_measurement_key_mapping(u, dict(layer.kmap))
        u = cirq.with_key_path_prefix(u, tuple(scope))
        keys.extend((tuple(k.path), k.name) for k in cirq.measurement_key_objs(u))
    if invert:
        inv = cirq.inverse(u, None)
        if inv is None:
            raise UnrollError(f"{u!r} is not invertible")
        u = inv
    for layer in reversed(layers):
        if layer.params:
            u = cirq.resolve_parameters(u, dict(layer.params), recursive=False)
    if tags:
        u = u.with_tags(*tags)
    if conds:
        u = u.with_classical_controls(*conds)
    return u, keys


# ------------------------------------------------------------------------------------------------
# bodies


def _resolved_sign_and_count(spec: Spec):
    n = _as_int_reps(spec.repetitions)
    return (n < 0), abs(n)


def _element(op, scope, visible, earlier, layers, invert, conds, out) -> List[FullKey]:
    """Appends the flat form of one operation of a body to `out`; returns the keys it records."""
    u = op.untagged
    if isinstance(u, cirq.CircuitOperation):
        inner_visible = frozenset(visible) | frozenset(k for k in earlier if len(k[0]) <= len(scope))
        return _unroll(spec_of(u), scope, inner_visible, layers, invert, conds, out)
    if isinstance(u, (cirq.ClassicallyControlledOperation, cirq.If)):
        if invert:
            raise UnrollError("classically controlled operations are not invertible")
        raw = sorted(u.classical_controls, key=repr)  # all conditions gating the innermost operation
        candidates = frozenset(visible) | frozenset(earlier)
        bound = tuple(_bind_condition(c, scope, candidates, layers) for c in raw)
        sub = u.without_classical_controls()
        return _element(sub, scope, visible, earlier, layers, invert, tuple(conds) + bound, out)
    flat, keys = _leaf(op, scope, layers, invert, conds)
    if keys and conds:
        raise UnrollError("a measurement cannot be classically controlled")
    out.append(flat)
    return keys


def _body(spec: Spec, scope, visible, layers, invert, conds, out) -> List[FullKey]:
    moments = list(spec.circuit.moments)
    if invert:
        moments = moments[::-1]
    earlier: List[FullKey] = []
    for moment in moments:
        now: List[FullKey] = []
        for op in moment.operations:
            now.extend(_element(op, scope, visible, frozenset(earlier), layers, invert, conds, out))
        earlier.extend(now)
    return earlier


def _unroll(spec: Spec, scope, visible, layers, invert, conds, out) -> List[FullKey]:
    for q, q2 in spec.qubit_map.items():
        if q.dimension != q2.dimension:
            raise UnrollError("qid dimension conflict")
    layer = _Layer(
        qmap=tuple(spec.qubit_map.items()),
        kmap=tuple(spec.key_map.items()),
        params=tuple((sympy.Symbol(k) if isinstance(k, str) else k, v) for k, v in spec.params.items()),
    )
    layers2 = tuple(layers) + (layer,)
    base_scope = tuple(scope) + tuple(spec.parent_path)
    if spec.repeat_until is not None:
        if spec.use_repetition_ids or not _is_one(spec.repetitions):
            raise UnrollError("repeat_until with repetitions")
        if invert:
            raise UnrollError("a loop cannot be inverted")
        body: List[Any] = []
        keys = _body(spec, base_scope, visible, layers2, False, conds, body)
        cond = _bind_condition(spec.repeat_until, base_scope, frozenset(visible) | frozenset(keys), layers2)
        bound_here = {(tuple(k.path), k.name) for k in cond.keys}
        if not (bound_here & set(keys)):
            raise UnrollError("loop condition is not modified by the body")
        out.append(Loop(body, cond))
        return keys
    neg, count = _resolved_sign_and_count(spec)
    recorded: List[FullKey] = []
    for rid in iteration_ids(spec, count):
        s = base_scope + ((rid,) if rid is not None else ())
        recorded.extend(_body(spec, s, visible, layers2, invert != neg, conds, out))
    return recorded


def _is_one(reps) -> bool:
    try:
        return _as_int_reps(reps) == 1
    except UnrollError:
        return False


# ------------------------------------------------------------------------------------------------
# public API


def unroll_spec(spec: Spec, scope=(), visible=frozenset()) -> List[Any]:
    out: List[Any] = []
    _unroll(spec, tuple(scope), frozenset(visible), (), False, (), out)
    return out


def unroll_op(op, scope=(), visible=frozenset()) -> List[Any]:
    return unroll_spec(spec_of(op.untagged), scope, visible)


def unroll_circuit(circuit) -> List[Any]:
    """Flat items of a top-level circuit (scope (), nothing visible from outside)."""
    out: List[Any] = []
    holder = Spec(circuit=circuit)
    _body(holder, (), frozenset(), (), False, (), out)
    return out


def single_iteration(spec: Spec, scope=(), visible=frozenset()) -> List[Any]:
    """Flat items of ONE forward iteration without repetition id (for symbolic repetition counts)."""
    s2 = dataclasses.replace(spec, repetitions=1, repetition_ids=None, use_repetition_ids=False)
    return unroll_spec(s2, scope, visible)


def has_loop(items: Iterable[Any]) -> bool:
    return any(isinstance(it, Loop) for it in items)


def leaves(items: Iterable[Any]) -> List[Any]:
    """All leaf operations, loops contributing one iteration (for static key / qubit questions)."""
    out = []
    for it in items:
        if isinstance(it, Loop):
            out.extend(leaves(it.body))
        else:
            out.append(it)
    return out


def flat_circuit(items: Sequence[Any]):
    """One operation per moment, program order (loops are not allowed here)."""
    if has_loop(items):
        raise UnrollError("a repeat_until loop has no finite flat circuit")
    return cirq.Circuit([cirq.Moment([op]) for op in items])


def conditions_of(op) -> Tuple[Any, ...]:
    return tuple(sorted(op.classical_controls, key=repr))


def measured_keys(items: Iterable[Any]) -> List[cirq.MeasurementKey]:
    out = []
    for op in leaves(items):
        out.extend(sorted(cirq.measurement_key_objs(op)))
    return out


def _walk_controls(items, measured: set, needed: set):
    for it in items:
        if isinstance(it, Loop):
            _walk_controls(it.body, measured, needed)
            for k in it.cond.keys:
                if k not in measured:
                    needed.add(k)
            continue
        for c in conditions_of(it):
            for k in c.keys:
                if k not in measured:
                    needed.add(k)
        measured.update(cirq.measurement_key_objs(it))


def external_control_keys(items: Sequence[Any]) -> FrozenSet[cirq.MeasurementKey]:
    """Keys read by a condition before (in program order) anything in the program recorded them."""
    measured: set = set()
    needed: set = set()
    _walk_controls(items, measured, needed)
    return frozenset(needed)


def parameter_names(items: Iterable[Any]) -> FrozenSet[str]:
    out = set()
    for op in leaves(items):
        out |= set(cirq.parameter_names(op))
    return frozenset(out)


def expand_loops(items: Sequence[Any], choose) -> Tuple[List[Any], List[Tuple[int, Any, bool]]]:
    """Straight-line program for one choice of iteration counts.

    `choose()` returns the number of iterations (>=1) of the next loop instance met in program
    order.  Returns (ops, checks) where checks = [(number of measurement ops executed so far, bound
    condition, value the condition must have there)] describes the records for which this choice is
    the actual execution.
    """
    ops: List[Any] = []
    checks: List[Tuple[int, Any, bool]] = []

    def nmeas():
        return sum(1 for o in ops if cirq.measurement_key_objs(o))

    def go(seq):
        for it in seq:
            if isinstance(it, Loop):
                k = choose()
                for j in range(k):
                    go(it.body)
                    checks.append((nmeas(), it.cond, j == k - 1))
            else:
                ops.append(it)

    go(items)
    return ops, checks


# ------------------------------------------------------------------------------------------------
# self-test on the documented examples (cirq-core/cirq/circuits/circuit_operation.py doc strings and
# the scoping examples that accompany them in the cirq test-suite documentation of the rule)


def _ctrl_strs(items):
    return [str(k) for op in leaves(items) for c in conditions_of(op) for k in c.keys]


def _meas_strs(items):
    return [str(k) for k in measured_keys(items)]


def self_test():
    q = cirq.LineQubit(0)
    q1 = cirq.LineQubit(1)
    CO = cirq.CircuitOperation
    inner = cirq.FrozenCircuit(cirq.measure(q, key="a"), cirq.X(q).with_classical_controls("a"))

    def two_level(inner_c, use_in, use_out, mid_pre=()):
        middle = cirq.FrozenCircuit(*mid_pre, CO(inner_c, repetitions=2, use_repetition_ids=use_in))
        return CO(middle, repetitions=2, use_repetition_ids=use_out)

    # "use_repetition_ids: When True, any measurement key in the subcircuit will have its path
    # prepended with the repetition id for each repetition.  When False, this will not happen and
    # the measurement key will be repeated."
    assert _ctrl_strs(unroll_op(two_level(inner, True, True))) == ["0:0:a", "0:1:a", "1:0:a", "1:1:a"]
    assert _meas_strs(unroll_op(two_level(inner, True, True))) == ["0:0:a", "0:1:a", "1:0:a", "1:1:a"]
    assert _ctrl_strs(unroll_op(two_level(inner, False, False))) == ["a"] * 4
    assert _ctrl_strs(unroll_op(two_level(inner, False, True))) == ["0:a", "0:a", "1:a", "1:a"]
    assert _ctrl_strs(unroll_op(two_level(inner, True, False))) == ["0:a", "1:a", "0:a", "1:a"]
    for ui, uo in itertools.product((False, True), repeat=2):
        assert not external_control_keys(unroll_op(two_level(inner, ui, uo)))
    # extern scope: the control binds to the key measured by the enclosing body
    inner_b = cirq.FrozenCircuit(cirq.measure(q, key="a"), cirq.X(q).with_classical_controls("b"))
    items = unroll_op(two_level(inner_b, True, True, mid_pre=(cirq.measure(q, key="b"),)))
    assert _ctrl_strs(items) == ["0:b", "0:b", "1:b", "1:b"], _ctrl_strs(items)
    assert _meas_strs(items) == ["0:b", "0:0:a", "0:1:a", "1:b", "1:0:a", "1:1:a"]
    assert not external_control_keys(items)
    # root scope: nothing measures 'b' -> stays unscoped and is an external control key
    items = unroll_op(two_level(inner_b, False, False, mid_pre=(cirq.measure(q, key="c"),)))
    assert _ctrl_strs(items) == ["b"] * 4
    assert external_control_keys(items) == {cirq.MeasurementKey("b")}
    # a key with a longer path than the enclosing scope is never a candidate
    items = unroll_op(two_level(inner_b, True, True, mid_pre=(cirq.measure(q, key=cirq.MeasurementKey("b", ("0",))),)))
    assert _ctrl_strs(items) == ["b"] * 4, _ctrl_strs(items)
    assert _meas_strs(items) == ["0:0:b", "0:0:a", "0:1:a", "1:0:b", "1:0:a", "1:1:a"]
    # transparent (non repeating, no path) wrappers do not hide keys from their siblings
    wrap = lambda *ops: CO(cirq.FrozenCircuit(*ops))
    inner_w = cirq.FrozenCircuit(wrap(wrap(cirq.measure(q, key="a")), wrap(cirq.X(q).with_classical_controls("b"))))
    middle_w = cirq.FrozenCircuit(wrap(wrap(cirq.measure(q, key="b")), wrap(CO(inner_w, repetitions=2, use_repetition_ids=True))))
    items = unroll_op(CO(middle_w, repetitions=2, use_repetition_ids=True))
    assert _ctrl_strs(items) == ["0:b", "0:b", "1:b", "1:b"], _ctrl_strs(items)
    # "parent_path: identifiers for any parent CircuitOperations containing this one"; ids default to
    # range(repetitions); custom ids; key map applies to unindexed names
    op = CO(cirq.FrozenCircuit(cirq.measure(q, key="m")), repetitions=2, use_repetition_ids=True, parent_path=("p",), measurement_key_map={"m": "n"})
    assert _meas_strs(unroll_op(op)) == ["p:0:n", "p:1:n"]
    op = CO(cirq.FrozenCircuit(cirq.measure(q, key="m")), repetitions=2, repetition_ids=["x", "y"])
    assert _meas_strs(unroll_op(op)) == ["x:m", "y:m"]
    op = CO(cirq.FrozenCircuit(cirq.measure(q, key="m")), repetitions=3)
    assert _meas_strs(unroll_op(op)) == ["m", "m", "m"]
    # control before the measurement inside the sub-circuit needs the external key
    op = CO(cirq.FrozenCircuit(cirq.X(q).with_classical_controls("a"), cirq.measure(q, key="a")))
    assert external_control_keys(unroll_op(op)) == {cirq.MeasurementKey("a")}
    # negative repetitions = inverse, qubit map, parameters
    s = sympy.Symbol("s")
    op = CO(cirq.FrozenCircuit(cirq.X(q) ** s, cirq.CNOT(q, q1)), repetitions=-2, qubit_map={q: q1, q1: q}, param_resolver={s: 0.25})
    assert unroll_op(op) == [cirq.CNOT(q1, q), cirq.X(q1) ** -0.25] * 2, unroll_op(op)
    # repeat_until: "will always run at least once, and the measurement key need not be defined
    # prior to the subcircuit (but must be defined in a measurement within the subcircuit)"
    op = CO(cirq.FrozenCircuit(cirq.X(q), cirq.measure(q, key="m")), repeat_until=cirq.KeyCondition(cirq.MeasurementKey("m")), parent_path=("p",))
    (loop,) = unroll_op(op)
    assert isinstance(loop, Loop) and [str(k) for k in loop.cond.keys] == ["p:m"] and not external_control_keys([loop])
    op = CO(cirq.FrozenCircuit(cirq.X(q1), cirq.measure(q1, key="b")), repeat_until=cirq.SympyCondition(sympy.Eq(sympy.Symbol("a"), sympy.Symbol("b"))))
    assert external_control_keys(unroll_op(op)) == {cirq.MeasurementKey("a")}
    # conditions keep all their fields when re-keyed
    c = rebuild_condition(cirq.BitMaskKeyCondition("m", bitmask=1, target_value=1, equal_target=True), {cirq.MeasurementKey("m"): cirq.MeasurementKey("m", ("0",))})
    assert (str(c.key), c.bitmask, c.target_value, c.equal_target) == ("0:m", 1, 1, True)
    c = rebuild_condition(cirq.KeyCondition(cirq.MeasurementKey("m"), 0), {cirq.MeasurementKey("m"): cirq.MeasurementKey("n")})
    assert (str(c.key), c.index) == ("n", 0)
    return True


if __name__ == "__main__":
    self_test()
    print("unroll self-test ok")
