"""E3: scripted random sources on top of the choice explorer (mc.choices).

`ScriptedRandomState(chooser)` is passed as `seed=` / `prng=` to the simulators.  Every
probabilistic decision the code under test makes goes through it, with the probability vector the
code itself computed:

* choice(n, p=P)            -> a choice point over the indices with P[i] > eps; path weight *= P[i]
* choice(n, size=k, p=P)    -> P is *recorded* (it is the exact joint distribution the code samples
                               from) and a deterministic covering sample is returned
* randint(2)                -> fair binary choice point
* random()                  -> answered through the caller-supplied interval oracle (list of branch
                               weights the code will compare the number against); the chooser picks
                               the midpoint of each interval with weight > eps
Any other method raises loudly (HarnessError) so un-owned randomness cannot slip through.
"""
from __future__ import annotations

import numpy as np

from mc.core import HarnessError
from mc.choices import Chooser

EPS = 1e-12


class ScriptedRandomState:
    def __init__(self, chooser: Chooser, oracle=None, label=""):
        self.ch = chooser
        self.oracle = oracle
        self.recorded = []  # (label, p-vector, size) for vectorised draws
        self.label = label
        self.vector_mode = "record"  # or "dfs": a size=k draw becomes k sequential choice points

    # -- numpy RandomState API used by cirq ----------------------------------------------------
    def choice(self, a, size=None, replace=True, p=None):
        n = int(a) if isinstance(a, (int, np.integer)) else len(a)
        if p is None:
            pv = np.ones(n) / n
        else:
            pv = np.asarray(p, dtype=float)
        if not np.all(np.isfinite(pv)) or abs(pv.sum() - 1) > 1e-6:
            raise ValueError(f"probabilities do not sum to 1: {pv}")  # numpy's own behaviour
        if size is None:
            opts = [i for i in range(n) if pv[i] > EPS]
            c = self.ch.choose(len(opts), f"{self.label}choice{n}", weights=[pv[i] for i in opts])
            i = opts[c]
            return i if isinstance(a, (int, np.integer)) else a[i]
        k = int(np.prod(size))
        self.recorded.append((n, pv.copy(), k))
        opts = [i for i in range(n) if pv[i] > EPS]
        if self.vector_mode == "dfs":
            w = [pv[i] for i in opts]
            out = np.array([opts[self.ch.choose(len(opts), f"{self.label}vchoice{n}", weights=w)] for _ in range(k)], dtype=np.int64)
            if not isinstance(a, (int, np.integer)):
                out = np.array([a[i] for i in out])
            return out.reshape(size) if not isinstance(size, (int, np.integer)) else out
        # deterministic covering sample: cycle through the supported outcomes
        out = np.array([opts[j % len(opts)] for j in range(k)], dtype=np.int64)
        if not isinstance(a, (int, np.integer)):
            out = np.array([a[i] for i in out])
        return out.reshape(size) if not isinstance(size, (int, np.integer)) else out

    def randint(self, low, high=None, size=None, dtype=int):
        if high is None:
            low, high = 0, low
        n = int(high) - int(low)
        if size is not None:
            raise HarnessError("vectorised randint not scripted")
        c = self.ch.choose(n, f"{self.label}randint{n}", weights=[1.0 / n] * n)
        return int(low) + c

    def random(self, size=None):
        if size is not None:
            raise HarnessError("vectorised random() not scripted")
        if self.oracle is None:
            raise HarnessError("random() called but no interval oracle installed")
        ws = [float(w) for w in self.oracle()]
        tot = sum(ws)
        if not np.all(np.isfinite(ws)) or tot > 1 + 1e-6 or min(ws, default=0.0) < -1e-9:
            # The reference branch weights are computed from the implementation's current state: weights that
            # are not a sub-probability vector mean that state is not normalised (reported as a violation).
            raise ValueError(f"branch weights {ws} are not a (sub-)probability vector: simulator state is not normalised")
        cum = np.concatenate([[0.0], np.cumsum(ws)])
        opts = [k for k in range(len(ws)) if ws[k] > EPS]
        weights = [ws[k] for k in opts]
        if tot < 1 - 1e-9:
            # the remaining mass [tot, 1) is the code's own floating-point fallback branch
            opts.append(-1)
            weights.append(1 - tot)
        c = self.ch.choose(len(opts), f"{self.label}random{len(ws)}", weights=weights)
        k = opts[c]
        if k == -1:
            return (tot + 1.0) / 2
        return float((cum[k] + cum[k + 1]) / 2)

    random_sample = random

    def __getattr__(self, name):
        raise HarnessError(f"un-scripted random method used by the code under test: {name}")


class ScriptedGenerator(np.random.Generator):
    """A real np.random.Generator subclass (some transformers isinstance-check it) with scripted draws."""

    def __init__(self, chooser: Chooser, floats=(0.25,)):
        super().__init__(np.random.PCG64(0))
        self.ch = chooser
        self.floats = list(floats)

    def choice(self, a, size=None, replace=True, p=None, axis=0, shuffle=True):
        n = int(a) if isinstance(a, (int, np.integer)) else len(a)
        pv = np.ones(n) / n if p is None else np.asarray(p, dtype=float)
        opts = [i for i in range(n) if pv[i] > EPS]

        def one():
            c = self.ch.choose(len(opts), f"gchoice{n}", weights=[pv[i] for i in opts])
            return opts[c]

        if size is None:
            i = one()
            return i if isinstance(a, (int, np.integer)) else a[i]
        k = int(np.prod(size))
        idx = [one() for _ in range(k)]
        if isinstance(a, (int, np.integer)):
            return np.array(idx).reshape(size)
        out = np.empty(k, dtype=object)
        for j, i in enumerate(idx):
            out[j] = a[i]
        return out.reshape(size)

    def integers(self, low, high=None, size=None, dtype=np.int64, endpoint=False):
        if high is None:
            low, high = 0, low
        n = int(high) - int(low) + (1 if endpoint else 0)

        def one():
            return int(low) + self.ch.choose(n, f"gintegers{n}", weights=[1.0 / n] * n)

        if size is None:
            return one()
        k = int(np.prod(size))
        return np.array([one() for _ in range(k)]).reshape(size)

    def random(self, size=None, dtype=np.float64, out=None):
        def one():
            c = self.ch.choose(len(self.floats), "grandom", weights=[1.0 / len(self.floats)] * len(self.floats))
            return self.floats[c]

        if size is None:
            return one()
        k = int(np.prod(size))
        return np.array([one() for _ in range(k)]).reshape(size)

    def uniform(self, low=0.0, high=1.0, size=None):
        r = self.random(size)
        return low + (high - low) * r

    def shuffle(self, *a, **k):
        raise HarnessError("ScriptedGenerator.shuffle not scripted")

    def permutation(self, *a, **k):
        raise HarnessError("ScriptedGenerator.permutation not scripted")

    def normal(self, *a, **k):
        raise HarnessError("ScriptedGenerator.normal not scripted")
