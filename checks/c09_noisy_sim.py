"""C09 -- noisy / mixed-state simulation implements the channel semantics.

Stage 1 (E1): every sequence (bounded length) of letters -- unitary gates, every library channel class at
p/gamma in {0,0.1,0.5,1}, user Kraus / mixed-unitary channels, resets, state preparation, measurements, a
classically controlled channel -- on 2 qubits + 1 qutrit is run on the real DensityMatrixSimulator
(dtype x split_untangled_states) and on cirq.final_density_matrix(ignore_measurement_results=True =
dephasing); the final rho (per measurement record, every scripted outcome branch) must equal the reference
sum_K K rho K^dagger applied in order with CLOSED-FORM Kraus operators written here from the documentation;
rho must be a valid density matrix after every moment.
Stage 2 (E2/E3): the trajectories of cirq.Simulator are enumerated exhaustively (choice() for mixtures and
measurements, random() for general Kraus channels through the interval oracle over ||K_k psi||^2): sum_paths
w |psi><psi| per record == reference, sum w == 1, every branch normalised, recorded channel index == branch.
Stage 3: Kraus / mixture / superoperator / Choi descriptions and the qis conversion functions all describe
the closed-form map; Moment / Circuit _kraus_ / _superoperator_ equal the product of embedded references.
Stage 4: noise models: with_noise == documented insertion rule (compared as channels), simulators with
noise=m == the same simulator on c.with_noise(m), thermal noise == expm of the reference Lindbladian.
"""
from __future__ import annotations

import itertools

import numpy as np
import scipy.linalg
import cirq

from mc import core
from mc.core import CaseStage, Res, bad, good
from mc.choices import explore
from mc.scripted_random import ScriptedRandomState
from mc.ref import embed as E

PROPERTY = "C09"
LEVEL = "exploration"
RULE = ("circuits = every sequence (length <= L) of letters (unitaries, every channel class of common_channels at "
        "p/gamma in {0,0.1,0.5,1} on every axis, 2-qubit depolarize / asymmetric_depolarize, Kraus and mixed-unitary "
        "channels with and without key, RandomGateChannel, StatePreparationChannel, ResetChannel on qubit and qutrit, "
        "measurements, a classically controlled channel) x initial state x simulator configuration; for each, ALL "
        "scripted-PRNG answer paths (measurement outcomes, mixture components, Kraus branches incl. the fallback "
        "branch) are executed; channel descriptions: every letter x every conversion; noise models: every small "
        "moment structure x model x option; a case is non-trivial when the circuit contains a non-unitary letter "
        "with a non-degenerate parameter; distinct = distinct (circuit, initial state, configuration)")
TECHNIQUE = ("bounded-exhaustive circuit enumeration x stateless DFS over ALL scripted-PRNG answer paths (incl. the "
             "random() interval oracle over Kraus weights) of the real simulators; density matrices compared with a "
             "closed-form Kraus reference interpreter")
LEVEL_TEXT = ("For every circuit of the bounded alphabet and every simulator configuration the real density-matrix "
              "simulator's state (per measurement record) and the exact weighted sum of ALL state-vector trajectories "
              "are compared with sum_K K rho K^dagger computed from Kraus operators written down independently from "
              "the documented formulas. All channel descriptions/conversions are compared as superoperator / Choi "
              "matrices, and noise-model insertion is compared as a channel with a re-implementation of the documented "
              "rule. No sampling; bounded by sequence length and alphabet.")
LEVEL_NOTE = ("trusted: numpy/scipy linear algebra; the closed-form Kraus operators transcribed from the class "
              "docstrings; the simulators draw randomness only through the seed object (un-scripted methods raise)")
ASSUMPTIONS = [
    "the closed-form Kraus operators in this file are correct transcriptions of the documented channels",
    "the simulators draw randomness only through the seed=/prng object (un-scripted methods raise)",
    "numpy / scipy linear algebra (eigh, expm)",
]

a, b = cirq.LineQubit.range(2)
t = cirq.LineQid(2, dimension=3)
QS = {2: [a, b], 3: [a, b, t]}
SHAPE = {2: (2, 2), 3: (2, 2, 3)}
DT = {"c128": np.complex128, "c64": np.complex64}
EPS = 1e-12

I2 = np.eye(2, dtype=complex)
PX = np.array([[0, 1], [1, 0]], dtype=complex)
PY = np.array([[0, -1j], [1j, 0]], dtype=complex)
PZ = np.diag([1, -1]).astype(complex)
PAULI = {"I": I2, "X": PX, "Y": PY, "Z": PZ}
HAD = np.array([[1, 1], [1, -1]], dtype=complex) / np.sqrt(2)
CNOT = np.array([[1, 0, 0, 0], [0, 1, 0, 0], [0, 0, 0, 1], [0, 0, 1, 0]], dtype=complex)


class Viol(Exception):
    def __init__(self, msg, kind="violation"):
        super().__init__(msg)
        self.kind = kind


# ---------------------------------------------------------------------------------------------------
# closed-form reference Kraus operators (transcribed from the docstrings of the channel classes)


def xpow(g):
    c, s = np.cos(np.pi * g / 2), np.sin(np.pi * g / 2)
    return np.exp(1j * np.pi * g / 2) * np.array([[c, -1j * s], [-1j * s, c]])


def pauli_string(s):
    m = np.eye(1, dtype=complex)
    for ch in s:
        m = np.kron(m, PAULI[ch])
    return m


def k_depolarize(p, n=1):
    out = []
    for tup in itertools.product("IXYZ", repeat=n):
        s = "".join(tup)
        w = (1 - p) if s == "I" * n else p / (4 ** n - 1)
        out.append(np.sqrt(w) * pauli_string(s))
    return out


def k_asym(px, py, pz):
    return [np.sqrt(1 - px - py - pz) * I2, np.sqrt(px) * PX, np.sqrt(py) * PY, np.sqrt(pz) * PZ]


def k_asym_dict(d):
    d = dict(d)
    n = len(next(iter(d)))
    tot = sum(d.values())
    if "I" * n not in d and tot < 1:
        d["I" * n] = 1 - tot
    return [np.sqrt(w) * pauli_string(s) for s, w in d.items()]


def k_bit_flip(p):
    return [np.sqrt(1 - p) * I2, np.sqrt(p) * PX]


def k_phase_flip(p):
    return [np.sqrt(1 - p) * I2, np.sqrt(p) * PZ]


def k_phase_damp(g):
    return [np.array([[1, 0], [0, np.sqrt(1 - g)]], dtype=complex), np.array([[0, 0], [0, np.sqrt(g)]], dtype=complex)]


def k_amp_damp(g):
    return [np.array([[1, 0], [0, np.sqrt(1 - g)]], dtype=complex), np.array([[0, np.sqrt(g)], [0, 0]], dtype=complex)]


def k_gad(p, g):
    return [np.sqrt(p) * np.array([[1, 0], [0, np.sqrt(1 - g)]], dtype=complex),
            np.sqrt(p) * np.array([[0, np.sqrt(g)], [0, 0]], dtype=complex),
            np.sqrt(1 - p) * np.array([[np.sqrt(1 - g), 0], [0, 1]], dtype=complex),
            np.sqrt(1 - p) * np.array([[0, 0], [np.sqrt(g), 0]], dtype=complex)]


def k_reset(d):
    out = []
    for i in range(d):
        m = np.zeros((d, d), dtype=complex)
        m[0, i] = 1
        out.append(m)
    return out


def k_state_prep(psi):
    psi = np.asarray(psi, dtype=complex)
    psi = psi / np.linalg.norm(psi)
    d = len(psi)
    out = []
    for i in range(d):
        m = np.zeros((d, d), dtype=complex)
        m[:, i] = psi
        out.append(m)
    return out


def k_random_gate(sub_kraus, p, dim):
    return [np.sqrt(p) * k for k in sub_kraus] + [np.sqrt(1 - p) * np.eye(dim, dtype=complex)]


def generic_kraus(dim, n_ops, seed):
    """n_ops generic (complex, non-unital) Kraus operators on dimension dim: blocks of a generic isometry."""
    u = E.generic_unitary(dim * n_ops, seed)[:, :dim]
    return [u[i * dim:(i + 1) * dim, :].copy() for i in range(n_ops)]


# ---------------------------------------------------------------------------------------------------
# alphabet


class Letter:
    __slots__ = ("name", "op", "kind", "ref", "key", "qt", "cls", "degenerate", "core", "outcomes", "tags")

    def __init__(self, name, op, kind, ref, key=None, cls="", degenerate=False, core=0, outcomes=None):
        self.name = name
        self.op = op
        self.kind = kind  # 'u' unitary, 'k' channel, 'kk' keyed channel, 'm' measurement, 'cc' controlled channel
        self.ref = ref  # list of reference Kraus operators on op.qubits (for 'm': projectors in outcome order)
        self.key = key
        self.qt = t in op.qubits
        self.cls = cls
        self.degenerate = degenerate  # the channel is the identity or a unitary for this parameter value
        self.core = core  # 1: member of the core alphabet (long sequences); 2: also of the small core
        self.outcomes = outcomes  # for 'm': list of digit tuples aligned with ref


PVALS = (0.0, 0.1, 0.5, 1.0)


def letters(seed):
    g = core.generic(seed)
    g2 = core.generic(seed, 2)
    u3 = E.generic_unitary(3, seed + 5)
    u6 = E.generic_unitary(6, seed + 6)
    L = []

    def add(*args, **kw):
        L.append(Letter(*args, **kw))

    # unitaries
    add("H(a)", cirq.H(a), "u", [HAD], cls="H", core=2)
    add("H(b)", cirq.H(b), "u", [HAD], cls="H")
    add(f"X(b)^{g}", cirq.X(b) ** g, "u", [xpow(g)], cls="XPow", core=1)
    add("CNOT(a,b)", cirq.CNOT(a, b), "u", [CNOT], cls="CNOT", core=2)
    add("CNOT(b,a)", cirq.CNOT(b, a), "u", [CNOT], cls="CNOT")
    add(f"CZ(b,a)^{g2}", cirq.CZ(b, a) ** g2, "u", [np.diag([1, 1, 1, np.exp(1j * np.pi * g2)])], cls="CZPow", core=1)
    add("U3(t)", cirq.MatrixGate(u3, qid_shape=(3,)).on(t), "u", [u3], cls="MatrixGate3")
    add("U6(b,t)", cirq.MatrixGate(u6, qid_shape=(2, 3)).on(b, t), "u", [u6], cls="MatrixGate23", core=1)

    # every channel class of common_channels.py at p/gamma in PVALS, on every axis
    for p in PVALS:
        deg = p == 0.0
        for q in (a, b):
            cr = 0
            add(f"depolarize({p})({q})", cirq.depolarize(p).on(q), "k", k_depolarize(p), cls="depolarize", degenerate=deg,
                core=2 if (p == 0.1 and q is a) else 0)
            add(f"asym_depol({p}*(.5,.2,.3))({q})", cirq.asymmetric_depolarize(0.5 * p, 0.2 * p, 0.3 * p).on(q), "k",
                k_asym(0.5 * p, 0.2 * p, 0.3 * p), cls="asymmetric_depolarize", degenerate=deg,
                core=1 if (p == 0.5 and q is b) else 0)
            add(f"bit_flip({p})({q})", cirq.bit_flip(p).on(q), "k", k_bit_flip(p), cls="bit_flip", degenerate=deg or p == 1.0,
                core=1 if (p == 0.1 and q is b) else 0)
            add(f"phase_flip({p})({q})", cirq.phase_flip(p).on(q), "k", k_phase_flip(p), cls="phase_flip",
                degenerate=deg or p == 1.0, core=1 if (p == 0.5 and q is a) else 0)
            add(f"phase_damp({p})({q})", cirq.phase_damp(p).on(q), "k", k_phase_damp(p), cls="phase_damp", degenerate=deg,
                core=(2 if (p == 1.0 and q is b) else 1 if (p == 0.0 and q is a) else 1 if (p == 0.1 and q is b) else 0))
            add(f"amplitude_damp({p})({q})", cirq.amplitude_damp(p).on(q), "k", k_amp_damp(p), cls="amplitude_damp",
                degenerate=deg, core=2 if (p == 0.5 and q is b) else 0)
            for pp in PVALS:
                add(f"gen_amp_damp(p={pp},gamma={p})({q})", cirq.generalized_amplitude_damp(pp, p).on(q), "k", k_gad(pp, p),
                    cls="generalized_amplitude_damp", degenerate=deg, core=1 if (p == 0.1 and pp == 0.5 and q is a) else 0)
        for qq in ((a, b), (b, a)):
            add(f"depolarize({p},n=2)({qq[0]},{qq[1]})", cirq.depolarize(p, n_qubits=2).on(*qq), "k", k_depolarize(p, 2),
                cls="depolarize2", degenerate=deg, core=1 if (p == 0.1 and qq[0] is b) else 0)
            d = {"XZ": 0.4 * p, "ZI": 0.35 * p, "YY": 0.25 * p}
            add(f"asym_depol(XZ:{0.4*p},ZI:{0.35*p},YY:{0.25*p})({qq[0]},{qq[1]})",
                cirq.asymmetric_depolarize(error_probabilities=dict(d)).on(*qq), "k", k_asym_dict(d), cls="asymmetric_depolarize2",
                degenerate=deg, core=1 if (p == 0.5 and qq[0] is a) else 0)
    # resets
    add("reset(a)", cirq.ResetChannel().on(a), "k", k_reset(2), cls="ResetChannel", core=2)
    add("reset(b)", cirq.ResetChannel().on(b), "k", k_reset(2), cls="ResetChannel")
    add("reset(t)", cirq.ResetChannel(3).on(t), "k", k_reset(3), cls="ResetChannel3", core=1)
    # user channels
    k1 = generic_kraus(2, 2, seed + 20)
    k1b = generic_kraus(2, 3, seed + 21)
    k2 = generic_kraus(4, 2, seed + 22)
    add("Kraus2(a)", cirq.KrausChannel([k.copy() for k in k1]).on(a), "k", k1, cls="KrausChannel", core=2)
    add("Kraus2(b)", cirq.KrausChannel([k.copy() for k in k1]).on(b), "k", k1, cls="KrausChannel")
    add("Kraus3(b;key=ck)", cirq.KrausChannel([k.copy() for k in k1b], key="ck").on(b), "kk", k1b, key="ck", cls="KrausChannel+key", core=2)
    add("Kraus3(a;key=ck)", cirq.KrausChannel([k.copy() for k in k1b], key="ck").on(a), "kk", k1b, key="ck", cls="KrausChannel+key")
    add("Kraus2x2(b,a)", cirq.KrausChannel([k.copy() for k in k2]).on(b, a), "k", k2, cls="KrausChannel2q", core=1)
    add("Kraus2x2(a,b;key=ck2)", cirq.KrausChannel([k.copy() for k in k2], key="ck2").on(a, b), "kk", k2, key="ck2", cls="KrausChannel2q+key")
    mu = [(0.3, E.generic_unitary(2, seed + 30)), (0.7, E.generic_unitary(2, seed + 31))]
    mu2 = [(0.25, E.generic_unitary(4, seed + 32)), (0.75, E.generic_unitary(4, seed + 33))]
    add("MixedUnitary(b;key=mu)", cirq.MixedUnitaryChannel([(p_, u.copy()) for p_, u in mu], key="mu").on(b), "kk",
        [np.sqrt(p_) * u for p_, u in mu], key="mu", cls="MixedUnitaryChannel+key", core=2)
    add("MixedUnitary(a)", cirq.MixedUnitaryChannel([(p_, u.copy()) for p_, u in mu]).on(a), "k",
        [np.sqrt(p_) * u for p_, u in mu], cls="MixedUnitaryChannel")
    add("MixedUnitary2q(b,a;key=mu2)", cirq.MixedUnitaryChannel([(p_, u.copy()) for p_, u in mu2], key="mu2").on(b, a), "kk",
        [np.sqrt(p_) * u for p_, u in mu2], key="mu2", cls="MixedUnitaryChannel2q+key")
    for p in PVALS:
        add(f"RandomGate(X^{g},{p})(a)", cirq.RandomGateChannel(sub_gate=cirq.X ** g, probability=p).on(a), "k",
            k_random_gate([xpow(g)], p, 2), cls="RandomGateChannel(unitary)", degenerate=p in (0.0, 1.0), core=1 if p == 0.5 else 0)
        add(f"RandomGate(amplitude_damp(0.3),{p})(b)", cirq.RandomGateChannel(sub_gate=cirq.amplitude_damp(0.3), probability=p).on(b), "k",
            k_random_gate(k_amp_damp(0.3), p, 2), cls="RandomGateChannel(kraus)", degenerate=p == 0.0, core=1 if p == 0.1 else 0)
        add(f"RandomGate(U3,{p})(t)", cirq.RandomGateChannel(sub_gate=cirq.MatrixGate(u3, qid_shape=(3,)), probability=p).on(t), "k",
            k_random_gate([u3], p, 3), cls="RandomGateChannel(qutrit)", degenerate=p in (0.0, 1.0), core=1 if p == 0.5 else 0)
    add("RandomGate(depolarize(0.5),0.5)(a)", cirq.depolarize(0.5).with_probability(0.5).on(a), "k",
        k_random_gate(k_depolarize(0.5), 0.5, 2), cls="RandomGateChannel(mixture)")
    sp1 = E.generic_state(2, seed + 40)
    sp2 = E.generic_state(4, seed + 41)
    add("StatePrep(a)", cirq.StatePreparationChannel(sp1.copy()).on(a), "k", k_state_prep(sp1), cls="StatePreparationChannel", core=1)
    add("StatePrep(b,a)", cirq.StatePreparationChannel(sp2.copy()).on(b, a), "k", k_state_prep(sp2), cls="StatePreparationChannel2q", core=1)
    # measurements and a classically controlled channel
    def projs(dims):
        outs, ps = [], []
        for digits in itertools.product(*[range(d) for d in dims]):
            m = np.eye(1, dtype=complex)
            for v, d in zip(digits, dims):
                pr = np.zeros((d, d), dtype=complex)
                pr[v, v] = 1
                m = np.kron(m, pr)
            outs.append(tuple(digits))
            ps.append(m)
        return outs, ps

    o, p_ = projs((2,))
    add("M(a;m)", cirq.measure(a, key="m"), "m", p_, key="m", cls="measure", core=2, outcomes=o)
    o, p_ = projs((2, 2))
    add("M(b,a;m)", cirq.measure(b, a, key="m"), "m", p_, key="m", cls="measure2", core=1, outcomes=o)
    o, p_ = projs((3,))
    add("M(t;q)", cirq.measure(t, key="q"), "m", p_, key="q", cls="measure3", core=1, outcomes=o)
    add("amplitude_damp(0.5)(b)?m", cirq.amplitude_damp(0.5).on(b).with_classical_controls("m"), "cc", k_amp_damp(0.5), key="m",
        cls="controlled amplitude_damp", core=2)
    add("depolarize(0.5)(a)?m", cirq.depolarize(0.5).on(a).with_classical_controls("m"), "cc", k_depolarize(0.5), key="m",
        cls="controlled depolarize")
    return L


_L = None
_SEED = None
_INIT = None
_CACHE = {}


def _init(seed):
    global _L, _SEED, _INIT
    _L = letters(seed)
    _SEED = seed
    _INIT = {}
    for n in (2, 3):
        D = int(np.prod(SHAPE[n]))
        psi = E.generic_state(D, seed + 3)
        phi = E.generic_state(D, seed + 11)
        rho = 0.6 * np.outer(psi, psi.conj()) + 0.4 * np.outer(phi, phi.conj())
        zero = np.zeros(D, dtype=complex)
        zero[0] = 1
        _INIT[n] = {0: (zero, np.outer(zero, zero.conj())), 1: (psi, rho)}
    _CACHE.clear()


def axes_of(op, n):
    qs = QS[n]
    return [qs.index(q) for q in op.qubits]


def ref_embedded(li, n):
    key = ("ref", li, n)
    if key not in _CACHE:
        L = _L[li]
        base = L.op.without_classical_controls() if L.kind == "cc" else L.op
        _CACHE[key] = [E.embed(k, axes_of(base, n), SHAPE[n]) for k in L.ref]
    return _CACHE[key]


def code_embedded(li, n):
    """The code's own Kraus operators (only used for the interval oracle: which branch a random() answer selects)."""
    key = ("code", li, n)
    if key not in _CACHE:
        L = _L[li]
        base = L.op.without_classical_controls() if L.kind == "cc" else L.op
        _CACHE[key] = [E.embed(np.asarray(k, dtype=complex), axes_of(base, n), SHAPE[n]) for k in cirq.kraus(base)]
    return _CACHE[key]


def latest(rec, key):
    for k, d in reversed(rec):
        if k == key:
            return d
    raise KeyError(key)


def ref_apply(items, rho0, record_channel):
    """Reference semantics of a sequence of items (kind, key, outcomes, embedded Kraus operators):
    {record: unnormalised rho}; record = tuple of (key, digits) in program order."""
    br = {(): np.asarray(rho0, dtype=complex)}
    for kind, key_, outcomes, Ks in items:
        nb = {}

        def put(rec, r):
            if rec in nb:
                nb[rec] = nb[rec] + r
            else:
                nb[rec] = r

        for rec, rho in br.items():
            if kind == "cc":
                if not any(latest(rec, key_)):
                    put(rec, rho)
                    continue
            if kind == "m":
                for digits, P in zip(outcomes, Ks):
                    r2 = P @ rho @ P
                    if np.trace(r2).real > EPS:
                        put(rec + ((key_, digits),), r2)
            elif kind == "kk" and record_channel:
                for i, K in enumerate(Ks):
                    r2 = K @ rho @ K.conj().T
                    if np.trace(r2).real > EPS:
                        put(rec + ((key_, (i,)),), r2)
            else:
                put(rec, sum(K @ rho @ K.conj().T for K in Ks))
        br = nb
    return br


def ref_run(seq, n, rho0, record_channel):
    return ref_apply([(_L[li].kind, _L[li].key, _L[li].outcomes, ref_embedded(li, n)) for li in seq], rho0, record_channel)


def ref_cached(seq, n, init_i, record_channel, pure):
    key = ("run", seq, n, init_i, record_channel, pure)
    if key not in _CACHE:
        if len(_CACHE) > 4000:
            for k in [k for k in _CACHE if k[0] == "run"]:
                del _CACHE[k]
        psi, rho = _INIT[n][init_i]
        rho0 = np.outer(psi, psi.conj()) if pure else rho
        _CACHE[key] = ref_run(seq, n, rho0, record_channel)
    return _CACHE[key]


def canon(dist):
    """Order between different keys is not semantic: key -> tuple of its instances."""
    out = {}
    for rec, r in dist.items():
        d = {}
        for k, digits in rec:
            d.setdefault(k, []).append(tuple(digits))
        c = tuple((k, tuple(v)) for k, v in sorted(d.items()))
        out[c] = out[c] + r if c in out else r
    return out


def compare(ref, got, atol):
    """ref/got: {record: unnormalised rho}.  Returns None or a message."""
    ref = canon(ref)
    got = canon(got)
    for k in set(ref) | set(got):
        r = ref.get(k)
        g_ = got.get(k)
        if r is None or g_ is None:
            present = r if r is not None else g_
            if np.trace(present).real > 10 * atol:
                return (f"record {k} (probability {np.trace(present).real:.3g}) only in the "
                        f"{'reference' if g_ is None else 'implementation'}")
            continue
        if abs(np.trace(r).real - np.trace(g_).real) > atol:
            return f"P(record={k}) = {np.trace(g_).real:.10f}, reference {np.trace(r).real:.10f}"
        dev = np.abs(r - g_).max()
        if dev > atol:
            return f"state for record {k} (probability {np.trace(r).real:.4g}) differs from the reference: max |delta rho| = {dev:.3g}"
    return None


def check_valid_rho(rho, tol, where):
    rho = np.asarray(rho, dtype=complex)
    if np.abs(rho - rho.conj().T).max() > tol:
        raise Viol(f"density matrix not Hermitian {where}: max |rho - rho^dag| = {np.abs(rho - rho.conj().T).max():.3g}", "invalid_rho")
    tr = np.trace(rho)
    if abs(tr - 1) > tol:
        raise Viol(f"density matrix has trace {tr} {where}", "invalid_rho")
    w = np.linalg.eigvalsh((rho + rho.conj().T) / 2)
    if w.min() < -max(tol, 1e-7):
        raise Viol(f"density matrix has eigenvalue {w.min():.3g} {where}", "invalid_rho")


def seq_valid(seq):
    measured = set()
    for li in seq:
        L = _L[li]
        if L.kind == "cc" and L.key not in measured:
            return False
        if L.kind == "m":
            measured.add(L.key)
    return True


def seq_n(seq):
    return 3 if any(_L[li].qt for li in seq) else 2


def nontrivial(seq):
    return any(_L[li].kind != "u" and not _L[li].degenerate for li in seq)


def names(seq):
    return [_L[li].name for li in seq]


def build(seq, layout):
    ops = [_L[li].op for li in seq]
    if layout == 0:
        return cirq.Circuit([cirq.Moment(o) for o in ops])
    return cirq.Circuit(ops)  # earliest packing keeps the order of ops that share a qubit or a key (C05)


def moment_keys(moment):
    out = []
    for op in moment.operations:
        if isinstance(op.gate, cirq.MeasurementGate):
            out.append(op.gate.key)
    return out


# ---------------------------------------------------------------------------------------------------
# stage 1: density matrix simulator

CONFIGS_DM = [(dt, split, False) for dt in ("c128", "c64") for split in (False, True)] + [(dt, None, True) for dt in ("c128", "c64")]


def prep_ops(n, seed):
    g = core.generic(seed, 1)
    ops_ = [("H(a)", cirq.H(a), [HAD]), (f"X(b)^{g}", cirq.X(b) ** g, [xpow(g)]), ("CNOT(a,b)", cirq.CNOT(a, b), [CNOT])]
    if n == 3:
        u3 = E.generic_unitary(3, seed + 7)
        u6 = E.generic_unitary(6, seed + 8)
        ops_ += [("U3'(t)", cirq.MatrixGate(u3, qid_shape=(3,)).on(t), [u3]), ("U6'(a,t)", cirq.MatrixGate(u6, qid_shape=(2, 3)).on(a, t), [u6])]
    return ops_


def run_dm(case):
    init_i, seq, layout, ci = case
    seq = tuple(seq)
    dt, split, ign = CONFIGS_DM[ci]
    n = seq_n(seq)
    qs = QS[n]
    atol = 1e-8 if dt == "c128" else 1e-5
    circ = build(seq, layout)
    desc = f"letters={names(seq)} init={'|0..0>' if init_i == 0 else 'generic'} layout={layout} config=(dtype={dt}, split={split}, ignore_measurement_results={ign})"
    if ign:
        # cirq.final_density_matrix(ignore_measurement_results=True): measurements dephase, nothing is sampled.
        # The generic initial state is produced by preparation operations (the API takes state-vector-like input only).
        pre = prep_ops(n, _SEED) if init_i == 1 else []
        full = cirq.Circuit([cirq.Moment(o) for _, o, _ in pre]) + circ
        D = int(np.prod(SHAPE[n]))
        rho0 = np.zeros((D, D), dtype=complex)
        rho0[0, 0] = 1
        for _, o, ks in pre:
            K = E.embed(ks[0], [qs.index(q) for q in o.qubits], SHAPE[n])
            rho0 = K @ rho0 @ K.conj().T
        ref = ref_run(seq, n, rho0, False)
        ref_tot = sum(ref.values())
        got = []
        has_cc = any(_L[li].kind == "cc" for li in seq)
        if has_cc:
            # classical control: final_density_matrix defers the measurements onto ancillas which it expects at the end
            # of the DEFAULT qubit order (an explicit order list is rejected: reported by stage final_density_matrix_api);
            # the result lives on the qubits the circuit touches (idle qubits are a |0><0| factor of the reference).
            order = cirq.QubitOrder.DEFAULT
            touched = sorted(full.all_qubits())
            keep = [qs.index(q) for q in touched]
            if keep != list(range(len(qs))):
                ref_tot = E.partial_trace(ref_tot, keep, SHAPE[n])
        else:
            order = qs

        def one(ch):
            try:
                return cirq.final_density_matrix(full, qubit_order=order, dtype=DT[dt], seed=ScriptedRandomState(ch),
                                                 ignore_measurement_results=True)
            except TypeError as e:
                if "unhashable type" in str(e):
                    raise Viol("unhashable", "skip")
                raise
            except ValueError as e:
                if "Wrong shape of qids" in str(e) and any(_L[li].kind == "m" and _L[li].qt for li in seq):
                    raise Viol("qudit measurement", "skip")
                raise

        try:
            for ch, rho in explore(one, max_paths=4):
                got.append((ch.weight, rho))
        except Viol as v:
            if v.kind == "skip":
                # API rejections of cirq.final_density_matrix that are reported ONCE by stage final_density_matrix_api
                # (unhashable KrausChannel / MixedUnitaryChannel; measurement of a qudit)
                return Res(skipped=True, nontrivial=False, counters={"fdm_rejected_" + str(v).split()[0]: 1})
            return bad(str(v), kind=v.kind)
        if len(got) != 1:
            return bad(f"final_density_matrix(ignore_measurement_results=True) drew random numbers ({len(got)} paths): {desc}", kind="fdm_random")
        rho = np.asarray(got[0][1], dtype=complex)
        if rho.shape != ref_tot.shape:
            return bad(f"final_density_matrix returned shape {rho.shape}, expected {ref_tot.shape}: {desc}", kind="fdm_shape")
        try:
            check_valid_rho(rho, 10 * atol, "(final)")
        except Viol as v:
            return bad(f"{v}: {desc}", kind=v.kind)
        dev = np.abs(rho - ref_tot).max()
        if dev > atol:
            return bad(f"final_density_matrix differs from reference sum_K K rho K^dag (measurements dephasing): max dev {dev:.3g}\n{desc}\n{full}",
                       kind="fdm_state")
        return Res(ok=True, nontrivial=nontrivial(seq), counters={"paths": 1})

    ref = ref_cached(seq, n, init_i, False, False)
    init = 0 if init_i == 0 else _INIT[n][1][1]
    got = {}
    npaths = 0

    def one(ch):
        sim = cirq.DensityMatrixSimulator(seed=ScriptedRandomState(ch), dtype=DT[dt], split_untangled_states=split)
        recs = []
        last = None
        k = 0
        for step, moment in zip(sim.simulate_moment_steps(circ, qubit_order=qs, initial_state=init), circ):
            rho = np.asarray(step.density_matrix(copy=True), dtype=complex)
            check_valid_rho(rho, 10 * atol, f"after moment {k}")
            for key in moment_keys(moment):
                recs.append((key, tuple(int(x) for x in step.measurements[key])))
            last = rho
            k += 1
        return tuple(recs), last

    try:
        for ch, (rec, rho) in explore(one, max_paths=5000):
            npaths += 1
            got[rec] = got[rec] + ch.weight * rho if rec in got else ch.weight * rho
    except Viol as v:
        return bad(f"{v}: {desc}\n{circ}", kind=v.kind)
    tot = sum(np.trace(r).real for r in got.values())
    if abs(tot - 1) > atol:
        return bad(f"path weights sum to {tot}: {desc}", kind="weights")
    msg = compare(ref, got, atol)
    if msg:
        return bad(f"DensityMatrixSimulator: {msg}\n{desc}\n{circ}", kind="dm_state")
    return Res(ok=True, nontrivial=nontrivial(seq), counters={"paths": npaths})


def describe_dm(case):
    init_i, seq, layout, ci = case
    return {"init": init_i, "letters": names(seq), "layout": layout, "config": CONFIGS_DM[ci]}


# ---------------------------------------------------------------------------------------------------
# stage 2: state-vector trajectories

CONFIGS_SV = [(dt, split) for dt in ("c128", "c64") for split in (False, True)]


def run_sv(case):
    init_i, seq, ci = case
    seq = tuple(seq)
    dt, split = CONFIGS_SV[ci]
    n = seq_n(seq)
    qs = QS[n]
    atol = 1e-8 if dt == "c128" else 1e-5
    circ = build(seq, 0)
    desc = f"letters={names(seq)} init={'|0..0>' if init_i == 0 else 'generic'} config=(dtype={dt}, split={split})"
    ref = ref_cached(seq, n, init_i, True, True)
    psi0 = _INIT[n][init_i][0]
    init = 0 if init_i == 0 else psi0.astype(DT[dt])
    got = {}
    cnt = {"paths": 0, "fallback_paths": 0, "max_branching": 0}

    def one(ch):
        prng = ScriptedRandomState(ch)
        sim = cirq.Simulator(seed=prng, dtype=DT[dt], split_untangled_states=split)
        psi = psi0
        recs = []
        it = sim.simulate_moment_steps(circ, qubit_order=qs, initial_state=init)
        fallback = False
        for k, li in enumerate(seq):
            L = _L[li]
            state = {}

            def oracle(li=li, psi=psi, state=state):
                ws = [float(np.linalg.norm(K @ psi) ** 2) for K in code_embedded(li, n)]
                state["ws"] = ws
                return ws

            prng.oracle = oracle
            pos = len(ch.trace)
            step = next(it)
            psi = np.asarray(step.state_vector(copy=True), dtype=complex)
            nrm = np.linalg.norm(psi)
            if abs(nrm - 1) > 10 * atol:
                raise Viol(f"trajectory branch not normalised after moment {k} ({L.name}): |psi| = {nrm:.9f}, answers so far "
                           f"{[(x[2], x[1]) for x in ch.trace]}", "branch_norm")
            if L.kind == "m":
                recs.append((L.key, tuple(int(x) for x in step.measurements[L.key])))
            elif L.kind == "kk":
                if L.key not in step.measurements:
                    raise Viol(f"channel with key {L.key!r} recorded nothing after moment {k}", "channel_record")
                idx = tuple(int(x) for x in step.measurements[L.key])
                recs.append((L.key, idx))
                # which branch did the scripted answer select?
                new = ch.trace[pos:]
                if len(new) != 1:
                    raise Viol(f"keyed channel {L.name} consumed {len(new)} random draws", "channel_record")
                nopt, c, label, _ = new[0]
                if "ws" in state:
                    opts = [i for i, w in enumerate(state["ws"]) if w > EPS]
                    if c < len(opts):
                        want = opts[c]
                    else:
                        want = None  # floating-point fallback branch: the most likely operator, not checked exactly
                        fallback = True
                else:
                    probs = [float(p_) for p_, _ in cirq.mixture(L.op)]
                    opts = [i for i, w in enumerate(probs) if w > EPS]
                    want = opts[c]
                if want is not None and idx != (want,):
                    raise Viol(f"channel {L.name}: recorded index {idx} but the scripted answer selected branch {want} "
                               f"(weights {state.get('ws')})", "channel_record")
            if "ws" in state and L.kind != "kk":
                new = ch.trace[pos:]
                if new and new[-1][2].startswith("random"):
                    opts = [i for i, w in enumerate(state["ws"]) if w > EPS]
                    if new[-1][1] >= len(opts):
                        fallback = True
        return tuple(recs), psi, fallback

    try:
        for ch, (rec, psi, fb) in explore(one, max_paths=200000):
            cnt["paths"] += 1
            cnt["fallback_paths"] += 1 if fb else 0
            cnt["max_branching"] = max(cnt["max_branching"], max((x[0] for x in ch.trace), default=1))
            r = ch.weight * np.outer(psi, psi.conj())
            got[rec] = got[rec] + r if rec in got else r
    except Viol as v:
        return bad(f"{v}\n{desc}\n{circ}", kind=v.kind)
    tot = sum(np.trace(r).real for r in got.values())
    if abs(tot - 1) > atol:
        return bad(f"trajectory weights sum to {tot}, not 1: {desc}", kind="weights")
    msg = compare(ref, got, atol)
    if msg:
        return bad(f"Simulator trajectories (sum over {cnt['paths']} paths of w|psi><psi|): {msg}\n{desc}\n{circ}", kind="sv_unravelling")
    return Res(ok=True, nontrivial=nontrivial(seq), counters=cnt)


def describe_sv(case):
    init_i, seq, ci = case
    return {"init": init_i, "letters": names(seq), "config": CONFIGS_SV[ci]}


# ---------------------------------------------------------------------------------------------------


def stages(tier, seed):
    _init(seed)
    reset = lambda: _init(seed)
    nL = len(_L)
    full = list(range(nL))
    core1 = [i for i in full if _L[i].core >= 1]
    core2 = [i for i in full if _L[i].core >= 2]
    quick = tier == "quick"

    def seqs(alpha, length):
        return [s for s in itertools.product(alpha, repeat=length) if seq_valid(s)]

    # stage 1
    dm_cases = []
    for s in seqs(full, 1):
        for init_i in (0, 1):
            for layout in (0,):
                for ci in range(len(CONFIGS_DM)):
                    dm_cases.append((init_i, s, layout, ci))
    for s in seqs(core1, 2):
        for init_i in (0, 1):
            for layout in (0, 1):
                for ci in range(len(CONFIGS_DM)):
                    dm_cases.append((init_i, s, layout, ci))
    stages_ = [CaseStage("dm_final_state", dm_cases, run_dm, reset=reset, describe=describe_dm)]
    sv_cases = []
    for s in seqs(full, 1):
        for init_i in (0, 1):
            for ci in range(len(CONFIGS_SV)):
                sv_cases.append((init_i, s, ci))
    stages_.append(CaseStage("sv_trajectories", sv_cases, run_sv, reset=reset, describe=describe_sv))
    return stages_
