"""C09 -- noisy / mixed-state simulation implements the channel semantics.

Stage 1 (E1): every sequence (bounded length) of letters -- unitary gates, every library channel class at
p/gamma in {0,0.1,0.5,1}, user Kraus / mixed-unitary channels, resets, state preparation, measurements, a
classically controlled channel -- on 2 qubits + 1 qutrit is run on the real DensityMatrixSimulator
(dtype x split_untangled_states) and on cirq.final_density_matrix(ignore_measurement_results=True =
dephasing); the final rho (per measurement record, every scripted outcome branch) must equal the reference
sum_K K rho K^dagger applied in order with CLOSED-FORM Kraus operators written here from the documentation;
rho must be a valid density matrix after every moment.
Stage 2 (E2/E3): the trajectories of cirq.Simulator are enumerated exhaustively (choice() for mixtures and
measurements, random() for general Kraus channels through the interval oracle over ||K_k psi||^2): sum_paths
w |psi><psi| per record == reference, sum w == 1, every branch normalised, recorded channel index == branch.
Stage 3: Kraus / mixture / superoperator / Choi descriptions and the qis conversion functions all describe
the closed-form map; Moment / Circuit _kraus_ / _superoperator_ equal the product of embedded references.
Stage 4: noise models: with_noise == documented insertion rule (compared as channels), simulators with
noise=m == the same simulator on c.with_noise(m), thermal noise == expm of the reference Lindbladian.
"""
from __future__ import annotations

import itertools

import numpy as np
import scipy.linalg
import cirq

from mc import core
from mc.core import CaseStage, Res, bad, good
from mc.choices import explore
from mc.scripted_random import ScriptedRandomState
from mc.ref import embed as E

PROPERTY = "C09"
LEVEL = "exploration"
RULE = ("circuits = every sequence (length <= L) of letters (unitaries, every channel class of common_channels at "
        "p/gamma in {0,0.1,0.5,1} on every axis, 2-qubit depolarize / asymmetric_depolarize, Kraus and mixed-unitary "
        "channels with and without key, RandomGateChannel, StatePreparationChannel, ResetChannel on qubit and qutrit, "
        "measurements, a classically controlled channel) x initial state x simulator configuration; for each, ALL "
        "scripted-PRNG answer paths (measurement outcomes, mixture components, Kraus branches incl. the fallback "
        "branch) are executed; channel descriptions: every letter x every conversion; noise models: every small "
        "moment structure x model x option; a case is non-trivial when the circuit contains a non-unitary letter "
        "with a non-degenerate parameter; distinct = distinct (circuit, initial state, configuration)")
TECHNIQUE = ("bounded-exhaustive circuit enumeration x stateless DFS over ALL scripted-PRNG answer paths (incl. the "
             "random() interval oracle over Kraus weights) of the real simulators; density matrices compared with a "
             "closed-form Kraus reference interpreter")
LEVEL_TEXT = ("For every circuit of the bounded alphabet and every simulator configuration the real density-matrix "
              "simulator's state (per measurement record) and the exact weighted sum of ALL state-vector trajectories "
              "are compared with sum_K K rho K^dagger computed from Kraus operators written down independently from "
              "the documented formulas. All channel descriptions/conversions are compared as superoperator / Choi "
              "matrices, and noise-model insertion is compared as a channel with a re-implementation of the documented "
              "rule. No sampling; bounded by sequence length and alphabet.")
LEVEL_NOTE = ("trusted: numpy/scipy linear algebra; the closed-form Kraus operators transcribed from the class "
              "docstrings; the simulators draw randomness only through the seed object (un-scripted methods raise)")
ASSUMPTIONS = [
    "the closed-form Kraus operators in this file are correct transcriptions of the documented channels",
    "the simulators draw randomness only through the seed=/prng object (un-scripted methods raise)",
    "numpy / scipy linear algebra (eigh, expm)",
]

a, b = cirq.LineQubit.range(2)
t = cirq.LineQid(2, dimension=3)
QS = {2: [a, b], 3: [a, b, t]}
SHAPE = {2: (2, 2), 3: (2, 2, 3)}
DT = {"c128": np.complex128, "c64": np.complex64}
EPS = 1e-12

I2 = np.eye(2, dtype=complex)
PX = np.array([[0, 1], [1, 0]], dtype=complex)
PY = np.array([[0, -1j], [1j, 0]], dtype=complex)
PZ = np.diag([1, -1]).astype(complex)
PAULI = {"I": I2, "X": PX, "Y": PY, "Z": PZ}
HAD = np.array([[1, 1], [1, -1]], dtype=complex) / np.sqrt(2)
CNOT = np.array([[1, 0, 0, 0], [0, 1, 0, 0], [0, 0, 0, 1], [0, 0, 1, 0]], dtype=complex)


class Viol(Exception):
    def __init__(self, msg, kind="violation"):
        super().__init__(msg)
        self.kind = kind


# ---------------------------------------------------------------------------------------------------
# closed-form reference Kraus operators (transcribed from the docstrings of the channel classes)


def xpow(g):
    c, s = np.cos(np.pi * g / 2), np.sin(np.pi * g / 2)
    return np.exp(1j * np.pi * g / 2) * np.array([[c, -1j * s], [-1j * s, c]])


def pauli_string(s):
    m = np.eye(1, dtype=complex)
    for ch in s:
        m = np.kron(m, PAULI[ch])
    return m


def k_depolarize(p, n=1):
    out = []
    for tup in itertools.product("IXYZ", repeat=n):
        s = "".join(tup)
        w = (1 - p) if s == "I" * n else p / (4 ** n - 1)
        out.append(np.sqrt(w) * pauli_string(s))
    return out


def k_asym(px, py, pz):
    return [np.sqrt(1 - px - py - pz) * I2, np.sqrt(px) * PX, np.sqrt(py) * PY, np.sqrt(pz) * PZ]


def k_asym_dict(d):
    d = dict(d)
    n = len(next(iter(d)))
    tot = sum(d.values())
    if "I" * n not in d and tot < 1:
        d["I" * n] = 1 - tot
    return [np.sqrt(w) * pauli_string(s) for s, w in d.items()]


def k_bit_flip(p):
    return [np.sqrt(1 - p) * I2, np.sqrt(p) * PX]


def k_phase_flip(p):
    return [np.sqrt(1 - p) * I2, np.sqrt(p) * PZ]


def k_phase_damp(g):
    return [np.array([[1, 0], [0, np.sqrt(1 - g)]], dtype=complex), np.array([[0, 0], [0, np.sqrt(g)]], dtype=complex)]


def k_amp_damp(g):
    return [np.array([[1, 0], [0, np.sqrt(1 - g)]], dtype=complex), np.array([[0, np.sqrt(g)], [0, 0]], dtype=complex)]


def k_gad(p, g):
    return [np.sqrt(p) * np.array([[1, 0], [0, np.sqrt(1 - g)]], dtype=complex),
            np.sqrt(p) * np.array([[0, np.sqrt(g)], [0, 0]], dtype=complex),
            np.sqrt(1 - p) * np.array([[np.sqrt(1 - g), 0], [0, 1]], dtype=complex),
            np.sqrt(1 - p) * np.array([[0, 0], [np.sqrt(g), 0]], dtype=complex)]


def k_reset(d):
    out = []
    for i in range(d):
        m = np.zeros((d, d), dtype=complex)
        m[0, i] = 1
        out.append(m)
    return out


def k_state_prep(psi):
    psi = np.asarray(psi, dtype=complex)
    psi = psi / np.linalg.norm(psi)
    d = len(psi)
    out = []
    for i in range(d):
        m = np.zeros((d, d), dtype=complex)
        m[:, i] = psi
        out.append(m)
    return out


def k_random_gate(sub_kraus, p, dim):
    return [np.sqrt(p) * k for k in sub_kraus] + [np.sqrt(1 - p) * np.eye(dim, dtype=complex)]


def generic_kraus(dim, n_ops, seed):
    """n_ops generic (complex, non-unital) Kraus operators on dimension dim: blocks of a generic isometry."""
    u = E.generic_unitary(dim * n_ops, seed)[:, :dim]
    return [u[i * dim:(i + 1) * dim, :].copy() for i in range(n_ops)]


# ---------------------------------------------------------------------------------------------------
# alphabet


class Letter:
    __slots__ = ("name", "op", "kind", "ref", "key", "qt", "cls", "degenerate", "core", "outcomes", "tags")

    def __init__(self, name, op, kind, ref, key=None, cls="", degenerate=False, core=0, outcomes=None):
        self.name = name
        self.op = op
        self.kind = kind  # 'u' unitary, 'k' channel, 'kk' keyed channel, 'm' measurement, 'cc' controlled channel
        self.ref = ref  # list of reference Kraus operators on op.qubits (for 'm': projectors in outcome order)
        self.key = key
        self.qt = t in op.qubits
        self.cls = cls
        self.degenerate = degenerate  # the channel is the identity or a unitary for this parameter value
        self.core = core  # 1: member of the core alphabet; 2: also of the medium core; 3: also of the small core
        self.outcomes = outcomes  # for 'm': list of digit tuples aligned with ref


PVALS = (0.0, 0.1, 0.5, 1.0)


def letters(seed):
    g = core.generic(seed)
    g2 = core.generic(seed, 2)
    u3 = E.generic_unitary(3, seed + 5)
    u6 = E.generic_unitary(6, seed + 6)
    L = []

    def add(*args, **kw):
        L.append(Letter(*args, **kw))

    # unitaries
    add("H(a)", cirq.H(a), "u", [HAD], cls="H", core=3)
    add("H(b)", cirq.H(b), "u", [HAD], cls="H")
    add(f"X(b)^{g}", cirq.X(b) ** g, "u", [xpow(g)], cls="XPow", core=1)
    add("CNOT(a,b)", cirq.CNOT(a, b), "u", [CNOT], cls="CNOT", core=3)
    add("CNOT(b,a)", cirq.CNOT(b, a), "u", [CNOT], cls="CNOT")
    add(f"CZ(b,a)^{g2}", cirq.CZ(b, a) ** g2, "u", [np.diag([1, 1, 1, np.exp(1j * np.pi * g2)])], cls="CZPow", core=1)
    add("GlobalPhase(1j)", cirq.global_phase_operation(1j), "u", [np.array([[1j]])], cls="GlobalPhase")
    add("U3(t)", cirq.MatrixGate(u3, qid_shape=(3,)).on(t), "u", [u3], cls="MatrixGate3")
    add("U6(b,t)", cirq.MatrixGate(u6, qid_shape=(2, 3)).on(b, t), "u", [u6], cls="MatrixGate23", core=1)

    # every channel class of common_channels.py at p/gamma in PVALS, on every axis
    for p in PVALS:
        deg = p == 0.0
        for q in (a, b):
            cr = 0
            add(f"depolarize({p})({q})", cirq.depolarize(p).on(q), "k", k_depolarize(p), cls="depolarize", degenerate=deg,
                core=3 if (p == 0.1 and q is a) else 0)
            add(f"asym_depol({p}*(.5,.2,.3))({q})", cirq.asymmetric_depolarize(0.5 * p, 0.2 * p, 0.3 * p).on(q), "k",
                k_asym(0.5 * p, 0.2 * p, 0.3 * p), cls="asymmetric_depolarize", degenerate=deg,
                core=1 if (p == 0.5 and q is b) else 0)
            add(f"bit_flip({p})({q})", cirq.bit_flip(p).on(q), "k", k_bit_flip(p), cls="bit_flip", degenerate=deg or p == 1.0,
                core=1 if (p == 0.1 and q is b) else 0)
            add(f"phase_flip({p})({q})", cirq.phase_flip(p).on(q), "k", k_phase_flip(p), cls="phase_flip",
                degenerate=deg or p == 1.0, core=1 if (p == 0.5 and q is a) else 0)
            add(f"phase_damp({p})({q})", cirq.phase_damp(p).on(q), "k", k_phase_damp(p), cls="phase_damp", degenerate=deg,
                core=(3 if (p == 1.0 and q is b) else 1 if (p == 0.0 and q is a) else 1 if (p == 0.1 and q is b) else 0))
            add(f"amplitude_damp({p})({q})", cirq.amplitude_damp(p).on(q), "k", k_amp_damp(p), cls="amplitude_damp",
                degenerate=deg, core=3 if (p == 0.5 and q is b) else 0)
            for pp in PVALS:
                add(f"gen_amp_damp(p={pp},gamma={p})({q})", cirq.generalized_amplitude_damp(pp, p).on(q), "k", k_gad(pp, p),
                    cls="generalized_amplitude_damp", degenerate=deg, core=2 if (p == 0.1 and pp == 0.5 and q is a) else 0)
        for qq in ((a, b), (b, a)):
            add(f"depolarize({p},n=2)({qq[0]},{qq[1]})", cirq.depolarize(p, n_qubits=2).on(*qq), "k", k_depolarize(p, 2),
                cls="depolarize2", degenerate=deg, core=1 if (p == 0.1 and qq[0] is b) else 0)
            d = {"XZ": 0.4 * p, "ZI": 0.35 * p, "YY": 0.25 * p}
            add(f"asym_depol(XZ:{0.4*p},ZI:{0.35*p},YY:{0.25*p})({qq[0]},{qq[1]})",
                cirq.asymmetric_depolarize(error_probabilities=dict(d)).on(*qq), "k", k_asym_dict(d), cls="asymmetric_depolarize2",
                degenerate=deg, core=1 if (p == 0.5 and qq[0] is a) else 0)
    # resets
    add("reset(a)", cirq.ResetChannel().on(a), "k", k_reset(2), cls="ResetChannel", core=3)
    add("reset(b)", cirq.ResetChannel().on(b), "k", k_reset(2), cls="ResetChannel")
    add("reset(t)", cirq.ResetChannel(3).on(t), "k", k_reset(3), cls="ResetChannel3", core=1)
    # user channels
    k1 = generic_kraus(2, 2, seed + 20)
    k1b = generic_kraus(2, 3, seed + 21)
    k2 = generic_kraus(4, 2, seed + 22)
    add("Kraus2(a)", cirq.KrausChannel([k.copy() for k in k1]).on(a), "k", k1, cls="KrausChannel", core=3)
    add("Kraus2(b)", cirq.KrausChannel([k.copy() for k in k1]).on(b), "k", k1, cls="KrausChannel")
    add("Kraus3(b;key=ck)", cirq.KrausChannel([k.copy() for k in k1b], key="ck").on(b), "kk", k1b, key="ck", cls="KrausChannel+key", core=3)
    add("Kraus3(a;key=ck)", cirq.KrausChannel([k.copy() for k in k1b], key="ck").on(a), "kk", k1b, key="ck", cls="KrausChannel+key")
    add("Kraus2x2(b,a)", cirq.KrausChannel([k.copy() for k in k2]).on(b, a), "k", k2, cls="KrausChannel2q", core=2)
    add("Kraus2x2(a,b;key=ck2)", cirq.KrausChannel([k.copy() for k in k2], key="ck2").on(a, b), "kk", k2, key="ck2", cls="KrausChannel2q+key")
    mu = [(0.3, E.generic_unitary(2, seed + 30)), (0.7, E.generic_unitary(2, seed + 31))]
    mu2 = [(0.25, E.generic_unitary(4, seed + 32)), (0.75, E.generic_unitary(4, seed + 33))]
    add("MixedUnitary(b;key=mu)", cirq.MixedUnitaryChannel([(p_, u.copy()) for p_, u in mu], key="mu").on(b), "kk",
        [np.sqrt(p_) * u for p_, u in mu], key="mu", cls="MixedUnitaryChannel+key", core=3)
    add("MixedUnitary(a)", cirq.MixedUnitaryChannel([(p_, u.copy()) for p_, u in mu]).on(a), "k",
        [np.sqrt(p_) * u for p_, u in mu], cls="MixedUnitaryChannel")
    add("MixedUnitary2q(b,a;key=mu2)", cirq.MixedUnitaryChannel([(p_, u.copy()) for p_, u in mu2], key="mu2").on(b, a), "kk",
        [np.sqrt(p_) * u for p_, u in mu2], key="mu2", cls="MixedUnitaryChannel2q+key")
    for p in PVALS:
        add(f"RandomGate(X^{g},{p})(a)", cirq.RandomGateChannel(sub_gate=cirq.X ** g, probability=p).on(a), "k",
            k_random_gate([xpow(g)], p, 2), cls="RandomGateChannel(unitary)", degenerate=p in (0.0, 1.0), core=1 if p == 0.5 else 0)
        add(f"RandomGate(amplitude_damp(0.3),{p})(b)", cirq.RandomGateChannel(sub_gate=cirq.amplitude_damp(0.3), probability=p).on(b), "k",
            k_random_gate(k_amp_damp(0.3), p, 2), cls="RandomGateChannel(kraus)", degenerate=p == 0.0, core=1 if p == 0.1 else 0)
        add(f"RandomGate(U3,{p})(t)", cirq.RandomGateChannel(sub_gate=cirq.MatrixGate(u3, qid_shape=(3,)), probability=p).on(t), "k",
            k_random_gate([u3], p, 3), cls="RandomGateChannel(qutrit)", degenerate=p in (0.0, 1.0), core=1 if p == 0.5 else 0)
    add("RandomGate(depolarize(0.5),0.5)(a)", cirq.depolarize(0.5).with_probability(0.5).on(a), "k",
        k_random_gate(k_depolarize(0.5), 0.5, 2), cls="RandomGateChannel(mixture)")
    # nested probabilistic wrappers are flattened by the constructor: the sub-gate is applied with the PRODUCT of the probabilities
    # (asymmetric inner/outer values; both the fluent and the constructor form; unitary, Kraus and qutrit sub-gates)
    for p_in, p_out in ((0.5, 0.4), (0.1, 1.0), (1.0, 0.25)):
        pp = p_in * p_out
        add(f"RandomGate(RandomGate(X^{g},{p_in}),{p_out})(a)", (cirq.X ** g).with_probability(p_in).with_probability(p_out).on(a), "k",
            k_random_gate([xpow(g)], pp, 2), cls="RandomGateChannel(unitary)", core=1 if (p_in, p_out) == (0.5, 0.4) else 0)
        add(f"RandomGate(sub=RandomGate(amplitude_damp(0.3),{p_in}),p={p_out})(b)",
            cirq.RandomGateChannel(sub_gate=cirq.RandomGateChannel(sub_gate=cirq.amplitude_damp(0.3), probability=p_in),
                                   probability=p_out).on(b), "k",
            k_random_gate(k_amp_damp(0.3), pp, 2), cls="RandomGateChannel(kraus)")
    add("RandomGate(RandomGate(RandomGate(U3,0.5),0.5),0.8)(t)",
        cirq.MatrixGate(u3, qid_shape=(3,)).with_probability(0.5).with_probability(0.5).with_probability(0.8).on(t), "k",
        k_random_gate([u3], 0.2, 3), cls="RandomGateChannel(qutrit)")
    sp1 = E.generic_state(2, seed + 40)
    sp2 = E.generic_state(4, seed + 41)
    add("StatePrep(a)", cirq.StatePreparationChannel(sp1.copy()).on(a), "k", k_state_prep(sp1), cls="StatePreparationChannel", core=1)
    add("StatePrep(b,a)", cirq.StatePreparationChannel(sp2.copy()).on(b, a), "k", k_state_prep(sp2), cls="StatePreparationChannel2q", core=2)
    # measurements and a classically controlled channel
    def projs(dims):
        outs, ps = [], []
        for digits in itertools.product(*[range(d) for d in dims]):
            m = np.eye(1, dtype=complex)
            for v, d in zip(digits, dims):
                pr = np.zeros((d, d), dtype=complex)
                pr[v, v] = 1
                m = np.kron(m, pr)
            outs.append(tuple(digits))
            ps.append(m)
        return outs, ps

    o, p_ = projs((2,))
    add("M(a;m)", cirq.measure(a, key="m"), "m", p_, key="m", cls="measure", core=3, outcomes=o)
    o, p_ = projs((2, 2))
    add("M(b,a;m2)", cirq.measure(b, a, key="m2"), "m", p_, key="m2", cls="measure2", core=1, outcomes=o)
    o, p_ = projs((3,))
    add("M(t;q)", cirq.measure(t, key="q"), "m", p_, key="q", cls="measure3", core=1, outcomes=o)
    add("amplitude_damp(0.5)(b)?m", cirq.amplitude_damp(0.5).on(b).with_classical_controls("m"), "cc", k_amp_damp(0.5), key="m",
        cls="controlled amplitude_damp", core=3)
    add("depolarize(0.5)(a)?m", cirq.depolarize(0.5).on(a).with_classical_controls("m"), "cc", k_depolarize(0.5), key="m",
        cls="controlled depolarize", core=1)
    return L


_L = None
_SEED = None
_INIT = None
_CACHE = {}


def _init(seed):
    global _L, _SEED, _INIT
    if _L is not None and _SEED == seed:
        return  # already built for this seed (reset is called once per chunk)
    _L = letters(seed)
    _SEED = seed
    _INIT = {}
    for n in (2, 3):
        D = int(np.prod(SHAPE[n]))
        psi = E.generic_state(D, seed + 3)
        phi = E.generic_state(D, seed + 11)
        rho = 0.6 * np.outer(psi, psi.conj()) + 0.4 * np.outer(phi, phi.conj())
        zero = np.zeros(D, dtype=complex)
        zero[0] = 1
        _INIT[n] = {0: (zero, np.outer(zero, zero.conj())), 1: (psi, rho)}
    _CACHE.clear()
    _init_noise(seed)


def axes_of(op, n):
    qs = QS[n]
    return [qs.index(q) for q in op.qubits]


def ref_embedded(li, n):
    key = ("ref", li, n)
    if key not in _CACHE:
        L = _L[li]
        base = L.op.without_classical_controls() if L.kind == "cc" else L.op
        _CACHE[key] = [E.embed(k, axes_of(base, n), SHAPE[n]) for k in L.ref]
    return _CACHE[key]


def code_embedded(li, n):
    """The code's own Kraus operators (only used for the interval oracle: which branch a random() answer selects)."""
    key = ("code", li, n)
    if key not in _CACHE:
        L = _L[li]
        base = L.op.without_classical_controls() if L.kind == "cc" else L.op
        _CACHE[key] = [E.embed(np.asarray(k, dtype=complex), axes_of(base, n), SHAPE[n]) for k in cirq.kraus(base)]
    return _CACHE[key]


def latest(rec, key):
    for k, d in reversed(rec):
        if k == key:
            return d
    raise KeyError(key)


def ref_apply(items, rho0, record_channel):
    """Reference semantics of a sequence of items (kind, key, outcomes, embedded Kraus operators):
    {record: unnormalised rho}; record = tuple of (key, digits) in program order."""
    br = {(): np.asarray(rho0, dtype=complex)}
    for kind, key_, outcomes, Ks in items:
        nb = {}

        def put(rec, r):
            if rec in nb:
                nb[rec] = nb[rec] + r
            else:
                nb[rec] = r

        for rec, rho in br.items():
            if kind == "cc":
                if not any(latest(rec, key_)):
                    put(rec, rho)
                    continue
            if kind == "m":
                for digits, P in zip(outcomes, Ks):
                    r2 = P @ rho @ P
                    if np.trace(r2).real > EPS:
                        put(rec + ((key_, digits),), r2)
            elif kind == "kk" and record_channel:
                for i, K in enumerate(Ks):
                    r2 = K @ rho @ K.conj().T
                    if np.trace(r2).real > EPS:
                        put(rec + ((key_, (i,)),), r2)
            else:
                put(rec, sum(K @ rho @ K.conj().T for K in Ks))
        br = nb
    return br


def ref_run(seq, n, rho0, record_channel):
    return ref_apply([(_L[li].kind, _L[li].key, _L[li].outcomes, ref_embedded(li, n)) for li in seq], rho0, record_channel)


def ref_cached(seq, n, init_i, record_channel, pure):
    key = ("run", seq, n, init_i, record_channel, pure)
    if key not in _CACHE:
        if len(_CACHE) > 4000:
            for k in [k for k in _CACHE if k[0] == "run"]:
                del _CACHE[k]
        psi, rho = _INIT[n][init_i]
        rho0 = np.outer(psi, psi.conj()) if pure else rho
        _CACHE[key] = ref_run(seq, n, rho0, record_channel)
    return _CACHE[key]


def canon(dist):
    """Order between different keys is not semantic: key -> tuple of its instances."""
    out = {}
    for rec, r in dist.items():
        d = {}
        for k, digits in rec:
            d.setdefault(k, []).append(tuple(digits))
        c = tuple((k, tuple(v)) for k, v in sorted(d.items()))
        out[c] = out[c] + r if c in out else r
    return out


def compare(ref, got, atol):
    """ref/got: {record: unnormalised rho}.  Returns None or a message."""
    ref = canon(ref)
    got = canon(got)
    for k in set(ref) | set(got):
        r = ref.get(k)
        g_ = got.get(k)
        if r is None or g_ is None:
            present = r if r is not None else g_
            if np.trace(present).real > 10 * atol:
                return (f"record {k} (probability {np.trace(present).real:.3g}) only in the "
                        f"{'reference' if g_ is None else 'implementation'}")
            continue
        if abs(np.trace(r).real - np.trace(g_).real) > atol:
            return f"P(record={k}) = {np.trace(g_).real:.10f}, reference {np.trace(r).real:.10f}"
        dev = np.abs(r - g_).max()
        if dev > atol:
            return f"state for record {k} (probability {np.trace(r).real:.4g}) differs from the reference: max |delta rho| = {dev:.3g}"
    return None


def check_valid_rho(rho, tol, where):
    rho = np.asarray(rho, dtype=complex)
    if np.abs(rho - rho.conj().T).max() > tol:
        raise Viol(f"density matrix not Hermitian {where}: max |rho - rho^dag| = {np.abs(rho - rho.conj().T).max():.3g}", "invalid_rho")
    tr = np.trace(rho)
    if abs(tr - 1) > tol:
        raise Viol(f"density matrix has trace {tr} {where}", "invalid_rho")
    w = np.linalg.eigvalsh((rho + rho.conj().T) / 2)
    if w.min() < -max(tol, 1e-7):
        raise Viol(f"density matrix has eigenvalue {w.min():.3g} {where}", "invalid_rho")


def seq_valid(seq):
    measured = set()
    for li in seq:
        L = _L[li]
        if L.kind == "cc" and L.key not in measured:
            return False
        if L.kind == "m":
            measured.add(L.key)
    return True


def seq_n(seq):
    return 3 if any(_L[li].qt for li in seq) else 2


def nontrivial(seq):
    return any(_L[li].kind != "u" and not _L[li].degenerate for li in seq)


def names(seq):
    return [_L[li].name for li in seq]


def build(seq, layout):
    ops = [_L[li].op for li in seq]
    if layout == 0:
        return cirq.Circuit([cirq.Moment(o) for o in ops])
    return cirq.Circuit(ops)  # earliest packing keeps the order of ops that share a qubit or a key (C05)


def moment_keys(moment):
    out = []
    for op in moment.operations:
        if isinstance(op.gate, cirq.MeasurementGate):
            out.append(op.gate.key)
    return out


# ---------------------------------------------------------------------------------------------------
# stage 1: density matrix simulator

CONFIGS_DM = [(dt, split, False) for dt in ("c128", "c64") for split in (False, True)] + [(dt, None, True) for dt in ("c128", "c64")]


def prep_ops(n, seed):
    g = core.generic(seed, 1)
    ops_ = [("H(a)", cirq.H(a), [HAD]), (f"X(b)^{g}", cirq.X(b) ** g, [xpow(g)]), ("CNOT(a,b)", cirq.CNOT(a, b), [CNOT])]
    if n == 3:
        u3 = E.generic_unitary(3, seed + 7)
        u6 = E.generic_unitary(6, seed + 8)
        ops_ += [("U3'(t)", cirq.MatrixGate(u3, qid_shape=(3,)).on(t), [u3]), ("U6'(a,t)", cirq.MatrixGate(u6, qid_shape=(2, 3)).on(a, t), [u6])]
    return ops_


def run_dm(case):
    init_i, seq, layout, ci = case
    seq = tuple(seq)
    dt, split, ign = CONFIGS_DM[ci]
    n = seq_n(seq)
    qs = QS[n]
    atol = 1e-8 if dt == "c128" else 1e-5
    circ = build(seq, layout)
    desc = f"letters={names(seq)} init={'|0..0>' if init_i == 0 else 'generic'} layout={layout} config=(dtype={dt}, split={split}, ignore_measurement_results={ign})"
    if ign:
        # cirq.final_density_matrix(ignore_measurement_results=True): measurements dephase, nothing is sampled.
        # The generic initial state is produced by preparation operations (the API takes state-vector-like input only).
        pre = prep_ops(n, _SEED) if init_i == 1 else []
        full = cirq.Circuit([cirq.Moment(o) for _, o, _ in pre]) + circ
        D = int(np.prod(SHAPE[n]))
        rho0 = np.zeros((D, D), dtype=complex)
        rho0[0, 0] = 1
        for _, o, ks in pre:
            K = E.embed(ks[0], [qs.index(q) for q in o.qubits], SHAPE[n])
            rho0 = K @ rho0 @ K.conj().T
        ref = ref_run(seq, n, rho0, False)
        ref_tot = sum(ref.values())
        got = []
        # An explicit qubit order is tried first.  With non-terminal measurements / classical control final_density_matrix
        # defers the measurements onto ancillas and may reject an explicit order ("Unexpected extra qubits": reported once by
        # stage api_acceptance); then the DEFAULT order is used: the result lives on the qubits the circuit touches (idle
        # qubits are a |0><0| factor of the reference).
        state = {"order": qs, "ref": ref_tot}

        def fallback_order():
            touched = sorted(full.all_qubits())
            keep = [qs.index(q) for q in touched]
            state["order"] = cirq.QubitOrder.DEFAULT
            if keep != list(range(len(qs))):
                state["ref"] = E.partial_trace(ref_tot, keep, SHAPE[n])

        def one(ch):
            try:
                try:
                    return cirq.final_density_matrix(full, qubit_order=state["order"], dtype=DT[dt], seed=ScriptedRandomState(ch),
                                                     ignore_measurement_results=True)
                except ValueError as e:
                    if "Unexpected extra qubits" in str(e) and "_MeasurementQid" in str(e) and state["order"] is qs:
                        fallback_order()
                        return cirq.final_density_matrix(full, qubit_order=state["order"], dtype=DT[dt],
                                                         seed=ScriptedRandomState(ch), ignore_measurement_results=True)
                    raise
            except TypeError as e:
                if "unhashable type" in str(e):
                    raise Viol("unhashable", "skip")
                if "_decompose_" in str(e) and any(_L[li].kind == "kk" for li in seq):
                    # defer_measurements tries to decompose a non-terminal channel that carries a measurement key
                    raise Viol("keyed_channel", "skip")
                raise
            except ValueError as e:
                if "Wrong shape of qids" in str(e) and any(_L[li].kind == "m" and _L[li].qt for li in seq):
                    raise Viol("qudit measurement", "skip")
                if "Cannot control channel with non-unitary operators" in str(e) and any(
                        _L[li].kind == "cc" and not cirq.has_mixture(_L[li].op.without_classical_controls()) for li in seq):
                    # documented rejection of ControlledGate: a classically controlled non-mixture channel cannot be deferred
                    raise Viol("uncontrollable channel", "skip")
                if "Deferred measurement for key=" in str(e) and any(_L[li].kind == "m" and seq.count(li) > 1 for li in seq):
                    # defer_measurements confuses a mid-circuit measurement with an equal terminal one (api_acceptance reports it)
                    raise Viol("repeated_measurement defer", "skip")
                raise

        try:
            for ch, rho in explore(one, max_paths=4):
                got.append((ch.weight, rho))
        except Viol as v:
            if v.kind == "skip":
                # API rejections of cirq.final_density_matrix that are reported ONCE by stage api_acceptance
                # (unhashable channel gates; keyed mid-circuit channel; measurement of a qudit; repeated equal measurement) or
                # documented (classically controlled non-mixture channel)
                return Res(skipped=True, nontrivial=False, counters={"fdm_rejected_" + str(v).split()[0]: 1})
            return bad(str(v), kind=v.kind)
        if len(got) != 1:
            return bad(f"final_density_matrix(ignore_measurement_results=True) drew random numbers ({len(got)} paths): {desc}", kind="fdm_random")
        rho = np.asarray(got[0][1], dtype=complex)
        ref_tot = state["ref"]
        if rho.shape != ref_tot.shape:
            return bad(f"final_density_matrix returned shape {rho.shape}, expected {ref_tot.shape}: {desc}", kind="fdm_shape")
        try:
            check_valid_rho(rho, 10 * atol, "(final)")
        except Viol as v:
            return bad(f"{v}: {desc}", kind=v.kind)
        dev = np.abs(rho - ref_tot).max()
        if dev > atol:
            return bad(f"final_density_matrix differs from reference sum_K K rho K^dag (measurements dephasing): max dev {dev:.3g}\n{desc}\n{full}",
                       kind="fdm_state")
        return Res(ok=True, nontrivial=nontrivial(seq), counters={"paths": 1})

    ref = ref_cached(seq, n, init_i, False, False)
    init = 0 if init_i == 0 else _INIT[n][1][1]
    got = {}
    npaths = 0

    def one(ch):
        sim = cirq.DensityMatrixSimulator(seed=ScriptedRandomState(ch), dtype=DT[dt], split_untangled_states=split)
        recs = []
        last = None
        k = 0
        steps = sim.simulate_moment_steps(circ, qubit_order=qs, initial_state=init)
        if any(not _L[li].op.qubits for li in seq):
            steps = _zero_qubit_guard(steps)
        for step, moment in zip(steps, circ):
            rho = np.asarray(step.density_matrix(copy=True), dtype=complex)
            check_valid_rho(rho, 10 * atol, f"after moment {k}")
            for key in moment_keys(moment):
                recs.append((key, tuple(int(x) for x in step.measurements[key])))
            last = rho
            k += 1
        return tuple(recs), last

    try:
        for ch, (rec, rho) in explore(one, max_paths=5000):
            npaths += 1
            got[rec] = got[rec] + ch.weight * rho if rec in got else ch.weight * rho
    except Viol as v:
        if v.kind == "skip":
            return Res(skipped=True, nontrivial=False, counters={"dm_rejected_" + str(v): 1})
        return bad(f"{v}: {desc}\n{circ}", kind=v.kind)
    tot = sum(np.trace(r).real for r in got.values())
    if abs(tot - 1) > atol:
        return bad(f"path weights sum to {tot}: {desc}", kind="weights")
    msg = compare(ref, got, atol)
    if msg:
        return bad(f"DensityMatrixSimulator: {msg}\n{desc}\n{circ}", kind="dm_state")
    return Res(ok=True, nontrivial=nontrivial(seq), counters={"paths": npaths})


def _zero_qubit_guard(steps):
    """A zero-qubit operation (global phase) on the split density-matrix state: the rejection "must be views of" is
    reported once by stage api_acceptance (case dm_global_phase_split)."""
    try:
        yield from steps
    except ValueError as e:
        if "must be views of" in str(e):
            raise Viol("zero_qubit_op", "skip")
        raise


def describe_dm(case):
    init_i, seq, layout, ci = case
    return {"init": init_i, "letters": names(seq), "layout": layout, "config": CONFIGS_DM[ci]}


# ---------------------------------------------------------------------------------------------------
# stage 2: state-vector trajectories

CONFIGS_SV = [(dt, split) for dt in ("c128", "c64") for split in (False, True)]


def run_sv(case):
    init_i, seq, ci = case
    seq = tuple(seq)
    dt, split = CONFIGS_SV[ci]
    n = seq_n(seq)
    qs = QS[n]
    atol = 1e-8 if dt == "c128" else 1e-5
    circ = build(seq, 0)
    desc = f"letters={names(seq)} init={'|0..0>' if init_i == 0 else 'generic'} config=(dtype={dt}, split={split})"
    ref = ref_cached(seq, n, init_i, True, True)
    psi0 = _INIT[n][init_i][0]
    init = 0 if init_i == 0 else psi0.astype(DT[dt])
    got = {}
    cnt = {"paths": 0, "fallback_paths": 0, "max_branching": 0}

    def one(ch):
        prng = ScriptedRandomState(ch)
        sim = cirq.Simulator(seed=prng, dtype=DT[dt], split_untangled_states=split)
        psi = psi0
        recs = []
        it = sim.simulate_moment_steps(circ, qubit_order=qs, initial_state=init)
        fallback = False
        for k, li in enumerate(seq):
            L = _L[li]
            state = {}

            def oracle(li=li, psi=psi, state=state):
                ws = [float(np.linalg.norm(K @ psi) ** 2) for K in code_embedded(li, n)]
                state["ws"] = ws
                return ws

            prng.oracle = oracle
            pos = len(ch.trace)
            step = next(it)
            psi = np.asarray(step.state_vector(copy=True), dtype=complex)
            nrm = np.linalg.norm(psi)
            if abs(nrm - 1) > 10 * atol:
                raise Viol(f"trajectory branch not normalised after moment {k} ({L.name}): |psi| = {nrm:.9f}, answers so far "
                           f"{[(x[2], x[1]) for x in ch.trace]}", "branch_norm")
            if L.kind == "m":
                recs.append((L.key, tuple(int(x) for x in step.measurements[L.key])))
            elif L.kind == "kk":
                if L.key not in step.measurements:
                    raise Viol(f"channel with key {L.key!r} recorded nothing after moment {k}", "channel_record")
                idx = tuple(int(x) for x in step.measurements[L.key])
                recs.append((L.key, idx))
                # which branch did the scripted answer select?
                new = ch.trace[pos:]
                if len(new) != 1:
                    raise Viol(f"keyed channel {L.name} consumed {len(new)} random draws", "channel_record")
                nopt, c, label, _ = new[0]
                if "ws" in state:
                    opts = [i for i, w in enumerate(state["ws"]) if w > EPS]
                    if c < len(opts):
                        want = opts[c]
                    else:
                        want = None  # floating-point fallback branch: the most likely operator, not checked exactly
                        fallback = True
                else:
                    probs = [float(p_) for p_, _ in cirq.mixture(L.op)]
                    opts = [i for i, w in enumerate(probs) if w > EPS]
                    want = opts[c]
                if want is not None and idx != (want,):
                    raise Viol(f"channel {L.name}: recorded index {idx} but the scripted answer selected branch {want} "
                               f"(weights {state.get('ws')})", "channel_record")
            if "ws" in state and L.kind != "kk":
                new = ch.trace[pos:]
                if new and new[-1][2].startswith("random"):
                    opts = [i for i, w in enumerate(state["ws"]) if w > EPS]
                    if new[-1][1] >= len(opts):
                        fallback = True
        return tuple(recs), psi, fallback

    try:
        for ch, (rec, psi, fb) in explore(one, max_paths=200000):
            cnt["paths"] += 1
            cnt["fallback_paths"] += 1 if fb else 0
            cnt["max_branching"] = max(cnt["max_branching"], max((x[0] for x in ch.trace), default=1))
            r = ch.weight * np.outer(psi, psi.conj())
            got[rec] = got[rec] + r if rec in got else r
    except Viol as v:
        return bad(f"{v}\n{desc}\n{circ}", kind=v.kind)
    tot = sum(np.trace(r).real for r in got.values())
    if abs(tot - 1) > atol:
        return bad(f"trajectory weights sum to {tot}, not 1: {desc}", kind="weights")
    msg = compare(ref, got, atol)
    if msg:
        return bad(f"Simulator trajectories (sum over {cnt['paths']} paths of w|psi><psi|): {msg}\n{desc}\n{circ}", kind="sv_unravelling")
    return Res(ok=True, nontrivial=nontrivial(seq), counters=cnt)


def describe_sv(case):
    init_i, seq, ci = case
    return {"init": init_i, "letters": names(seq), "config": CONFIGS_SV[ci]}


# ---------------------------------------------------------------------------------------------------
# stage 3: descriptions of one channel agree (compared as superoperator / Choi matrices, never as Kraus sets)


def ref_super(kraus):
    return sum(np.kron(k, k.conj()) for k in kraus)


def ref_choi(kraus, d):
    """J(E) = (E (x) I)(|phi><phi|), phi = sum_i |i>|i>, straight from the definition."""
    J = np.zeros((d * d, d * d), dtype=complex)
    for i in range(d):
        for j in range(d):
            eij = np.zeros((d, d), dtype=complex)
            eij[i, j] = 1
            J += np.kron(sum(k @ eij @ k.conj().T for k in kraus), eij)
    return J


def ref_super_to_kraus(S, d):
    """Independent Kraus decomposition of a superoperator (row-major vec) through the Choi matrix."""
    J = S.reshape(d, d, d, d).transpose(0, 2, 1, 3).reshape(d * d, d * d)
    w, v = np.linalg.eigh((J + J.conj().T) / 2)
    return [np.sqrt(max(w_, 0.0)) * v[:, i].reshape(d, d) for i, w_ in enumerate(w) if w_ > 1e-13]


HAS_MIXTURE = {"GlobalPhase", "H", "XPow", "CNOT", "CZPow", "MatrixGate3", "MatrixGate23", "depolarize", "asymmetric_depolarize", "bit_flip",
               "phase_flip", "depolarize2", "asymmetric_depolarize2", "MixedUnitaryChannel", "MixedUnitaryChannel+key",
               "MixedUnitaryChannel2q+key", "RandomGateChannel(unitary)", "RandomGateChannel(qutrit)", "RandomGateChannel(mixture)"}


def close(x, y, tol):
    x = np.asarray(x)
    y = np.asarray(y)
    return x.shape == y.shape and np.abs(x - y).max() <= tol


def check_descriptions(name, val, refK, d, want_mixture, tol=1e-6):
    """All descriptions of `val` describe the map with reference Kraus operators refK (dimension d)."""
    S = ref_super(refK)
    J = ref_choi(refK, d)
    eye = np.eye(d)
    if not cirq.has_kraus(val):
        return f"{name}: has_kraus is False"
    ks = [np.asarray(k) for k in cirq.kraus(val)]
    if any(k.shape != (d, d) for k in ks):
        return f"{name}: Kraus operator shapes {[k.shape for k in ks]}, expected {(d, d)}"
    tp = sum(k.conj().T @ k for k in ks)
    if not close(tp, eye, tol):
        return f"{name}: sum K^dag K != 1 (max dev {np.abs(tp - eye).max():.3g})"
    for fname, got, want in (
        ("kraus_to_superoperator(kraus)", cirq.kraus_to_superoperator(ks), S),
        ("kraus_to_choi(kraus)", cirq.kraus_to_choi(ks), J),
        ("operation_to_superoperator", cirq.operation_to_superoperator(val), S),
        ("operation_to_choi", cirq.operation_to_choi(val), J),
        ("choi_to_superoperator(reference Choi)", cirq.choi_to_superoperator(J), S),
        ("superoperator_to_choi(reference superoperator)", cirq.superoperator_to_choi(S), J),
        ("kraus_to_superoperator(choi_to_kraus(reference Choi))", cirq.kraus_to_superoperator(cirq.choi_to_kraus(J)), S),
        ("kraus_to_choi(superoperator_to_kraus(reference superoperator))", cirq.kraus_to_choi(cirq.superoperator_to_kraus(S)), J),
        ("reference superoperator of choi_to_kraus(kraus_to_choi(kraus))", ref_super(cirq.choi_to_kraus(cirq.kraus_to_choi(ks))), S),
        ("reference superoperator of superoperator_to_kraus(kraus_to_superoperator(kraus))",
         ref_super(cirq.superoperator_to_kraus(cirq.kraus_to_superoperator(ks))), S),
    ):
        if not close(got, want, tol):
            return f"{name}: {fname} does not describe the documented map (max dev {np.abs(np.asarray(got) - want).max():.3g})"
    for fname, ks2 in (("choi_to_kraus", cirq.choi_to_kraus(J)), ("superoperator_to_kraus", cirq.superoperator_to_kraus(S))):
        tp = sum(np.asarray(k).conj().T @ np.asarray(k) for k in ks2)
        if not close(tp, eye, tol):
            return f"{name}: {fname} output is not trace preserving"
    hm = cirq.has_mixture(val)
    if want_mixture is not None and hm != want_mixture:
        return f"{name}: has_mixture is {hm}, expected {want_mixture}"
    if hm:
        mix = cirq.mixture(val)
        ps = [float(p_) for p_, _ in mix]
        if any(p_ < -1e-9 for p_ in ps) or abs(sum(ps) - 1) > 1e-7:
            return f"{name}: mixture probabilities {ps} are not a distribution"
        for p_, u in mix:
            u = np.asarray(u)
            if u.shape != (d, d) or not close(u.conj().T @ u, eye, tol):
                return f"{name}: a mixture component is not a {d}x{d} unitary"
        Sm = sum(p_ * np.kron(np.asarray(u), np.asarray(u).conj()) for p_, u in mix)
        if not close(Sm, S, tol):
            return f"{name}: mixture does not describe the documented map (max dev {np.abs(Sm - S).max():.3g})"
    return None


def run_desc_letter(case):
    (li,) = case
    L = _L[li]
    if L.kind == "cc":
        return Res(skipped=True, nontrivial=False)
    d = int(np.prod([q.dimension for q in L.op.qubits]))
    want = None if L.kind == "m" else (L.cls in HAS_MIXTURE)
    for nm, val in ((f"operation {L.name}", L.op), (f"gate of {L.name}", L.op.gate)):
        msg = check_descriptions(nm, val, L.ref, d, want)
        if msg:
            return bad(msg, kind="description", cls=L.cls)
    return Res(ok=True, nontrivial=not L.degenerate and L.kind != "u")


def run_desc_circuit(case):
    """Moment / Circuit _kraus_ / _superoperator_ == ordered product of embedded reference superoperators."""
    moms = case
    lis = [li for mo in moms for li in mo]
    moments = [cirq.Moment([_L[li].op for li in mo]) for mo in moms]
    circ = cirq.Circuit(moments)
    qs = sorted(circ.all_qubits())
    shape = tuple(q.dimension for q in qs)
    D = int(np.prod(shape))
    desc = f"moments={[names(mo) for mo in moms]}"
    if any(_L[li].qt for li in lis):
        # qudits: Moment._has_kraus_ promises a Kraus representation but Moment._kraus_ may assume qubits ("cannot reshape
        # array"): that rejection is reported once by stage api_acceptance; when it works it is checked like the others
        try:
            for moment in moments:
                cirq.kraus(moment)
            circ._superoperator_()
        except ValueError as e:
            if "cannot reshape" in str(e) or "Wrong shape of qids" in str(e):
                return Res(skipped=True, nontrivial=False, counters={"qudit_moment_rejected": 1})
            raise
    S = np.eye(D * D, dtype=complex)
    for mo, moment in zip(moms, moments):
        mqs = sorted(moment.qubits)
        mshape = tuple(q.dimension for q in mqs)
        Sm = np.eye(int(np.prod(mshape)) ** 2, dtype=complex)
        for li in mo:
            ks = [E.embed(k, [mqs.index(q) for q in _L[li].op.qubits], mshape) for k in _L[li].ref]
            Sm = ref_super(ks) @ Sm
        if not cirq.has_kraus(moment):
            return bad(f"has_kraus(moment) is False: {desc}", kind="moment_kraus")
        mk = cirq.kraus(moment)
        if not close(ref_super([np.asarray(k) for k in mk]), Sm, 1e-6):
            return bad(f"cirq.kraus(Moment {names(mo)}) does not describe the product of its operations' channels "
                       f"(qubit order {mqs}; max dev {np.abs(ref_super(mk) - Sm).max():.3g})", kind="moment_kraus")
        if not close(moment._superoperator_(), Sm, 1e-6):
            return bad(f"Moment._superoperator_ of {names(mo)} differs from the reference", kind="moment_superoperator")
        ks_full = []
        for li in mo:
            ks_full.append([E.embed(k, [qs.index(q) for q in _L[li].op.qubits], shape) for k in _L[li].ref])
        for ks in ks_full:
            S = ref_super(ks) @ S
    if not circ._has_superoperator_():
        return bad(f"Circuit._has_superoperator_ is False: {desc}", kind="circuit_superoperator")
    got = circ._superoperator_()
    if not close(got, S, 1e-6):
        return bad(f"Circuit._superoperator_ differs from the ordered product of the reference channels on {qs}: max dev "
                   f"{np.abs(got - S).max():.3g}\n{desc}\n{circ}", kind="circuit_superoperator")
    return Res(ok=True, nontrivial=any(_L[li].kind != "u" and not _L[li].degenerate for li in lis))


# ---------------------------------------------------------------------------------------------------
# stage 4: noise models

VT = cirq.VirtualTag()
PT = cirq.devices.noise_utils.PHYSICAL_GATE_TAG


class NOp:
    """An operation of the noise-model circuits with its reference semantics."""
    __slots__ = ("name", "op", "kind", "ref", "key", "outcomes", "virtual", "physical", "gate_type", "base", "mixture_only")

    def __init__(self, name, op, kind, ref, key=None, outcomes=None, mixture_only=True):
        self.name, self.op, self.kind, self.ref, self.key, self.outcomes = name, op, kind, ref, key, outcomes
        self.virtual = VT in op.tags
        self.physical = PT in op.tags
        self.base = op.untagged
        self.gate_type = type(op.without_classical_controls().gate) if kind == "cc" else type(op.gate)
        self.mixture_only = mixture_only  # False: the state-vector simulator needs random() for it


def noise_ops(seed):
    g = core.generic(seed)
    g2 = core.generic(seed, 2)
    proj1 = [np.diag([1, 0]).astype(complex), np.diag([0, 1]).astype(complex)]
    base = [
        ("H(a)", cirq.H(a), "u", [HAD], None, None, True),
        (f"X(b)^{g}", cirq.X(b) ** g, "u", [xpow(g)], None, None, True),
        ("CNOT(a,b)", cirq.CNOT(a, b), "u", [CNOT], None, None, True),
        (f"CZ(b,a)^{g2}", cirq.CZ(b, a) ** g2, "u", [np.diag([1, 1, 1, np.exp(1j * np.pi * g2)])], None, None, True),
        ("amplitude_damp(0.5)(b)", cirq.amplitude_damp(0.5).on(b), "k", k_amp_damp(0.5), None, None, False),
        ("bit_flip(0.1)(a)", cirq.bit_flip(0.1).on(a), "k", k_bit_flip(0.1), None, None, True),
        ("M(a;m)", cirq.measure(a, key="m"), "m", proj1, "m", [(0,), (1,)], True),
        ("M(b;m)", cirq.measure(b, key="m"), "m", proj1, "m", [(0,), (1,)], True),
        ("M(a,b;m2)", cirq.measure(a, b, key="m2"), "m", [np.kron(p0, p1) for p0 in proj1 for p1 in proj1], "m2",
         [(0, 0), (0, 1), (1, 0), (1, 1)], True),
        (f"X(b)^{g2}?m", (cirq.X(b) ** g2).with_classical_controls("m"), "cc", [xpow(g2)], "m", None, True),
        ("reset(a)", cirq.ResetChannel().on(a), "k", k_reset(2), None, None, True),
        ("wait(a,50ns)", cirq.wait(a, nanos=50), "u", [I2], None, None, True),
    ]
    out = {}
    for nm, op, kind, ref, key, outc, mo in base:
        out[nm] = NOp(nm, op, kind, ref, key, outc, mo)
        out[nm + "[virtual]"] = NOp(nm + "[virtual]", op.with_tags(VT), kind, ref, key, outc, mo)
        out[nm + "[physical]"] = NOp(nm + "[physical]", op.with_tags(PT), kind, ref, key, outc, mo)
    return out


def noise_gates(seed):
    g = core.generic(seed, 3)
    kg = generic_kraus(2, 2, seed + 50)
    return [
        ("amplitude_damp(0.3)", cirq.amplitude_damp(0.3), k_amp_damp(0.3), False),
        ("depolarize(0.1)", cirq.depolarize(0.1), k_depolarize(0.1), True),
        (f"X^{g}", cirq.X ** g, [xpow(g)], True),
        ("Kraus2", cirq.KrausChannel([k.copy() for k in kg]), kg, False),
    ]


# moment alphabets (names resolved against noise_ops at run time; VERIF_SEED only changes the generic exponents)
def moment_alphabet_plain(seed):
    g = core.generic(seed)
    g2 = core.generic(seed, 2)
    X = f"X(b)^{g}"
    return [
        (), ("H(a)",), (X,), ("CNOT(a,b)",), ("amplitude_damp(0.5)(b)",), ("M(a;m)",), (f"X(b)^{g2}?m",), ("H(a)", X),
        ("H(a)[virtual]",), ("CNOT(a,b)[virtual]",), ("H(a)[virtual]", X), ("H(a)[virtual]", X + "[virtual]"),
        ("M(a;m)", X), ("M(a,b;m2)",), ("reset(a)", X), ("M(a;m)[virtual]",), ("bit_flip(0.1)(a)", "M(b;m)"),
    ]


def moment_alphabet_physical(seed):
    g = core.generic(seed)
    g2 = core.generic(seed, 2)
    X = f"X(b)^{g}"
    P = "[physical]"
    return [
        (), ("H(a)" + P,), (X + P,), ("CNOT(a,b)" + P,), (f"CZ(b,a)^{g2}" + P,), ("M(a;m)" + P,), ("H(a)" + P, X + P), ("H(a)",),
        ("H(a)" + P, X), ("M(a;m)" + P, X + P), ("wait(a,50ns)" + P,), (f"X(b)^{g2}?m" + P,), ("amplitude_damp(0.5)(b)" + P,),
        ("M(a,b;m2)" + P,), ("CNOT(a,b)",), ("wait(a,50ns)" + P, X + P),
    ]


_NO = None
_NG = None
_MA = None
_MB = None
_MC = None


def _init_noise(seed):
    global _NO, _NG, _MA, _MB, _MC
    _NO = noise_ops(seed)
    _NG = noise_gates(seed)
    _MA = moment_alphabet_plain(seed)
    _MB = moment_alphabet_physical(seed)
    _MC = moment_alphabet_props(seed)


QN = [a, b]
SHN = (2, 2)


def item_of(nop):
    base = nop.op.without_classical_controls() if nop.kind == "cc" else nop.op
    ks = [E.embed(k, [QN.index(q) for q in base.qubits], SHN) for k in nop.ref]
    return (nop.kind, nop.key, nop.outcomes, ks)


def item_gate(ref, q):
    return ("k", None, None, [E.embed(k, [QN.index(q)], SHN) for k in ref])


def item_on(ref, qubits):
    return ("k", None, None, [E.embed(k, [QN.index(q) for q in qubits], SHN) for k in ref])


def thermal_ref_kraus(cool, heat, deph, t_ns, dim=2):
    """Kraus operators of exp(t * Lindbladian) for cooling sqrt(cool)*a, heating sqrt(heat)*a^dag, dephasing sqrt(2*deph)*n."""
    aop = np.diag(np.sqrt(np.arange(1, dim)), 1).astype(complex)
    nop_ = np.diag(np.arange(dim)).astype(complex)
    eye = np.eye(dim)
    Lb = np.zeros((dim * dim, dim * dim), dtype=complex)
    for A in (np.sqrt(cool) * aop, np.sqrt(heat) * aop.conj().T, np.sqrt(2 * deph) * nop_):
        AA = A.conj().T @ A
        Lb += np.kron(A, A.conj()) - 0.5 * np.kron(AA, eye) - 0.5 * np.kron(eye, AA.T)
    S = scipy.linalg.expm(Lb * t_ns)
    return ref_super_to_kraus(S, dim), S


INSERT_TABLES = ["specific_first", "general_first", "ambiguous_qubits_first", "ambiguous_type_first"]
THERMAL_DUR = {"HPowGate": 25.0, "XPowGate": 30.0, "CNotPowGate": 40.0, "CZPowGate": 32.0, "MeasurementGate": 100.0}
THERMAL_RATES = [
    # (cool, heat, dephase) per qubit a, b in GHz (exaggerated so the noise is visible)
    ({"a": 0.004, "b": 0.004}, None, {"a": 0.002, "b": 0.002}),
    ({"a": 0.01, "b": 0.002}, {"a": 0.001, "b": 0.003}, {"a": 0.0, "b": 0.005}),
]


def insertion_table(which):
    OpId = cirq.devices.noise_utils.OpIdentifier
    n_h = ("phase_damp(0.5)(a)", cirq.phase_damp(0.5).on(a), k_phase_damp(0.5), (a,))
    n_x = ("amplitude_damp(0.3)(b)", cirq.amplitude_damp(0.3).on(b), k_amp_damp(0.3), (b,))
    n_any = ("bit_flip(0.1)(a)", cirq.bit_flip(0.1).on(a), k_bit_flip(0.1), (a,))
    n_cx = ("depolarize(0.1,2)(a,b)", cirq.depolarize(0.1, 2).on(a, b), k_depolarize(0.1, 2), (a, b))
    n_q = ("phase_flip(0.2)(b)", cirq.phase_flip(0.2).on(b), k_phase_flip(0.2), (b,))
    if which == "specific_first":
        rows = [(cirq.HPowGate, (), n_h), (cirq.XPowGate, (b,), n_x), (cirq.CNotPowGate, (a, b), n_cx), (cirq.Gate, (), n_any)]
    elif which == "general_first":
        rows = [(cirq.Gate, (), n_any), (cirq.CNotPowGate, (a, b), n_cx), (cirq.XPowGate, (b,), n_x), (cirq.HPowGate, (), n_h)]
    elif which == "ambiguous_qubits_first":
        # for X(b)**g: (Gate, b) and (XPowGate,) are incomparable -> the first in the table wins
        rows = [(cirq.Gate, (b,), n_q), (cirq.XPowGate, (), n_x), (cirq.HPowGate, (a,), n_h)]
    else:
        rows = [(cirq.XPowGate, (), n_x), (cirq.Gate, (b,), n_q), (cirq.HPowGate, (a,), n_h)]
    table = {OpId(tp, *qs_): row[1] for tp, qs_, row in rows}
    return rows, table


def ref_insertion_match(rows, nop):
    """Documented rule: the most specific matching identifier; among incomparable ones the first in the table."""
    base = nop.op.without_classical_controls() if nop.kind == "cc" else nop.op
    gate = base.gate
    if nop.kind == "cc":
        return None  # a ClassicallyControlledOperation has no gate: never matches
    match = None
    for tp, qs_, row in rows:
        if not isinstance(gate, tp):
            continue
        if qs_ and tuple(base.qubits) != tuple(qs_):
            continue
        if match is None:
            match = (tp, qs_, row)
            continue
        mtp, mqs, _ = match
        more_q = bool(qs_) and not mqs
        more_g = tp is not mtp and issubclass(tp, mtp)
        proper = (more_q and (more_g or tp is mtp)) or (more_g and (more_q or tuple(qs_) == tuple(mqs)))
        if proper:
            match = (tp, qs_, row)
    return match[2] if match else None


class Reject(Exception):
    pass


def build_model(model, sysq):
    """Returns (cirq noise-model-like, reference function moms -> items or raising Reject, sv_ok)."""
    kind = model[0]
    if kind in ("const", "like_gate"):
        gi = model[1]
        prepend = model[2] if kind == "const" else False
        nm, gate, ref, mix = _NG[gi]
        m = cirq.ConstantQubitNoiseModel(gate, prepend=prepend) if kind == "const" else gate

        def ref_fn(moms):
            items = []
            for mo in moms:
                mi = [item_of(_NO[x]) for x in mo]
                if mo and all(_NO[x].virtual for x in mo):
                    items += mi
                    continue
                ni = [item_gate(ref, q) for q in sysq]
                items += (ni + mi) if prepend else (mi + ni)
            return items

        return m, ref_fn, mix
    if kind == "none":
        return None, (lambda moms: [item_of(_NO[x]) for mo in moms for x in mo]), True
    if kind == "subst":
        def sub(op):
            if op.gate == cirq.H:
                return cirq.phase_damp(0.5).on(*op.qubits)
            return op

        def ref_fn(moms):
            items = []
            for mo in moms:
                for x in mo:
                    if _NO[x].base.gate == cirq.H:
                        items.append(item_on(k_phase_damp(0.5), _NO[x].base.qubits))
                    else:
                        items.append(item_of(_NO[x]))
            return items

        return cirq.devices.noise_model.GateSubstitutionNoiseModel(sub), ref_fn, False
    if kind == "insertion":
        _, which, prepend, req = model
        rows, table = insertion_table(INSERT_TABLES[which])
        m = cirq.devices.InsertionNoiseModel(ops_added=table, prepend=prepend, require_physical_tag=req)

        def ref_fn(moms):
            items = []
            for mo in moms:
                mi = [item_of(_NO[x]) for x in mo]
                ni = []
                for x in mo:
                    if req and not _NO[x].physical:
                        continue
                    row = ref_insertion_match(rows, _NO[x])
                    if row is not None:
                        ni.append(item_on(row[2], row[3]))
                items += (ni + mi) if prepend else (mi + ni)
            return items

        return m, ref_fn, False
    if kind == "thermal":
        _, ri, req, skipm, prepend = model
        cool, heat, deph = THERMAL_RATES[ri]
        qmap = {"a": a, "b": b}
        conv = lambda d: None if d is None else {qmap[k]: v for k, v in d.items()}
        durs = {getattr(cirq, k): v for k, v in THERMAL_DUR.items()}
        m = cirq.devices.ThermalNoiseModel({a, b}, durs, heat_rate_GHz=conv(heat), cool_rate_GHz=conv(cool),
                                           dephase_rate_GHz=conv(deph), require_physical_tag=req, skip_measurements=skipm,
                                           prepend=prepend)

        def ref_fn(moms):
            items = []
            for mo in moms:
                mi = [item_of(_NO[x]) for x in mo]
                if not mo:
                    continue
                if req:
                    ph = [_NO[x].physical for x in mo]
                    if any(ph) and not all(ph):
                        raise Reject("Moments are expected to be all physical or all virtual ops")
                    if not any(ph):
                        items += mi
                        continue
                dur = 0.0
                for x in mo:
                    nop = _NO[x]
                    gt = nop.gate_type
                    d_ = None
                    for k, v in THERMAL_DUR.items():
                        if nop.kind != "cc" and issubclass(gt, getattr(cirq, k)):
                            d_ = v
                            break
                    if d_ is None and nop.kind != "cc" and issubclass(gt, cirq.WaitGate):
                        d_ = 50.0
                    if d_ is not None:
                        dur = max(dur, d_)
                if dur == 0:
                    items += mi
                    continue
                ni = []
                for q in sysq:
                    nm = "a" if q == a else "b"
                    on_q = [x for x in mo if q in _NO[x].base.qubits]
                    if skipm and on_q and _NO[on_q[0]].kind == "m":
                        continue
                    ks, _ = thermal_ref_kraus(cool.get(nm, 0.0), (heat or {}).get(nm, 0.0), (deph or {}).get(nm, 0.0), dur)
                    ni.append(item_gate(ks, q))
                items += (ni + mi) if prepend else (mi + ni)
            return items

        return m, ref_fn, False
    if kind == "props":
        _, vi = model
        pr = PROPS[vi]
        OpId = cirq.devices.noise_utils.OpIdentifier
        qmap = {"a": a, "b": b}
        props = _SCProps(
            gate_times_ns={getattr(cirq, k): v for k, v in pr["times"].items()},
            t1_ns={qmap[k]: v for k, v in pr["t1"].items()},
            tphi_ns={qmap[k]: v for k, v in pr["tphi"].items()},
            readout_errors={qmap[k]: list(v) for k, v in pr["readout"].items()},
            gate_pauli_errors={OpId(getattr(cirq, g_), *[qmap[x] for x in qs_]): e for (g_, qs_), e in pr["pauli"].items()},
        )
        m = cirq.devices.NoiseModelFromNoiseProperties(props)

        def deco(qn, t_ns):
            t1, tphi = pr["t1"][qn], pr["tphi"][qn]
            px = 0.25 * (1 - np.exp(-t_ns / t1))
            pz = 0.5 * (1 - np.exp(-t_ns * (1 / (2 * t1) + 1 / tphi))) - px
            return 2 * px + pz

        def ref_fn(moms):
            items = []
            for mo in moms:
                if not mo:
                    continue
                pre, post_d, post_t = [], [], []
                dur = 0.0
                for x in mo:
                    nop = _NO[x]
                    gname = None
                    if nop.kind != "cc":
                        for k in pr["times"]:
                            if issubclass(nop.gate_type, getattr(cirq, k)):
                                gname = k
                                dur = max(dur, pr["times"][k])
                                break
                        if gname is None and issubclass(nop.gate_type, cirq.WaitGate):
                            dur = max(dur, 50.0)
                    qn = tuple("a" if q == a else "b" for q in nop.base.qubits)
                    if nop.kind == "m":
                        for q_ in qn:
                            if q_ in pr["readout"]:
                                e0, e1 = pr["readout"][q_]  # P(read 1 | 0), P(read 0 | 1)
                                pre.append(item_gate(k_gad(e1 / (e0 + e1), e0 + e1), qmap[q_]))
                    elif gname is not None and (gname, qn) in pr["pauli"]:
                        p_ = pr["pauli"][(gname, qn)] - sum(deco(q_, pr["times"][gname]) for q_ in qn)
                        if p_ > 0:
                            post_d.append(item_on(k_depolarize(p_, len(qn)), nop.base.qubits))
                if dur > 0:
                    for q in sysq:
                        qn_ = "a" if q == a else "b"
                        on_q = [x for x in mo if q in _NO[x].base.qubits]
                        if on_q and _NO[on_q[0]].kind == "m":
                            continue
                        ks, _ = thermal_ref_kraus(1 / pr["t1"][qn_], 0.0, 1 / pr["tphi"][qn_], dur)
                        post_t.append(item_gate(ks, q))
                items += pre + [item_of(_NO[x]) for x in mo] + post_d + post_t
            return items

        return m, ref_fn, False
    raise core.HarnessError(f"unknown model {model}")


class _SCProps(cirq.devices.SuperconductingQubitsNoiseProperties):
    """A small device description (the library class is abstract in its gate sets)."""

    @classmethod
    def single_qubit_gates(cls):
        return {cirq.XPowGate, cirq.HPowGate, cirq.MeasurementGate}

    @classmethod
    def symmetric_two_qubit_gates(cls):
        return {cirq.CZPowGate}

    @classmethod
    def asymmetric_two_qubit_gates(cls):
        return {cirq.CNotPowGate}


PROPS = [
    {"times": {"HPowGate": 25.0, "XPowGate": 30.0, "CNotPowGate": 40.0, "CZPowGate": 32.0, "MeasurementGate": 100.0},
     "t1": {"a": 2000.0, "b": 5000.0}, "tphi": {"a": 3000.0, "b": 2500.0},
     "readout": {"a": (0.02, 0.05), "b": (0.01, 0.03)},
     "pauli": {("HPowGate", ("a",)): 0.08, ("XPowGate", ("b",)): 0.1, ("CZPowGate", ("a", "b")): 0.2, ("CZPowGate", ("b", "a")): 0.2,
               ("CNotPowGate", ("a", "b")): 0.25, ("MeasurementGate", ("a",)): 0.03}},
    {"times": {"HPowGate": 20.0, "XPowGate": 20.0, "CNotPowGate": 60.0, "CZPowGate": 45.0, "MeasurementGate": 500.0},
     "t1": {"a": 800.0, "b": 1500.0}, "tphi": {"a": 900.0, "b": 700.0},
     "readout": {"b": (0.04, 0.02)},
     # the H(a) Pauli error is smaller than its decoherence part: no depolarizing noise is added for it
     "pauli": {("HPowGate", ("a",)): 0.01, ("XPowGate", ("b",)): 0.15, ("CNotPowGate", ("a", "b")): 0.3}},
]


def moment_alphabet_props(seed):
    g = core.generic(seed)
    g2 = core.generic(seed, 2)
    X = f"X(b)^{g}"
    return [("H(a)",), (X,), ("CNOT(a,b)",), (f"CZ(b,a)^{g2}",), ("M(a;m)",), ("M(a,b;m2)",), ("H(a)", X), ("M(a;m)", X),
            (f"X(b)^{g2}?m",), ("wait(a,50ns)",), ("M(b;m)",), ("amplitude_damp(0.5)(b)",), ()]


def _all_records(step):
    """Every instance of every measurement key, from the step's classical data store."""
    out = []
    for k, vals in step._classical_data.records.items():
        for v in vals:
            out.append((str(k), tuple(int(x) for x in v)))
    return tuple(out)


def dist_dm(circ, init, noise=None, dt="c128", split=False):
    got = {}
    n = 0
    steps = []

    def one(ch):
        sim = cirq.DensityMatrixSimulator(seed=ScriptedRandomState(ch), dtype=DT[dt], split_untangled_states=split, noise=noise)
        last = None
        k = 0
        for step in sim.simulate_moment_steps(circ, qubit_order=QN, initial_state=init):
            last = step
            k += 1
        steps.append(k)
        if last is None:  # no step at all (a noise model that drops empty moments): nothing was applied
            return (), np.asarray(init, dtype=complex)
        rho = np.asarray(last.density_matrix(copy=True), dtype=complex)
        check_valid_rho(rho, 1e-7, "(final)")
        return _all_records(last), rho

    for ch, (rec, rho) in explore(one, max_paths=2000):
        n += 1
        got[rec] = got[rec] + ch.weight * rho if rec in got else ch.weight * rho
    return got, n, max(steps)


def dist_sv(circ, init, noise=None, dt="c128", split=False):
    got = {}
    n = 0

    def one(ch):
        sim = cirq.Simulator(seed=ScriptedRandomState(ch), dtype=DT[dt], split_untangled_states=split, noise=noise)
        last = None
        for step in sim.simulate_moment_steps(circ, qubit_order=QN, initial_state=init):
            last = step
        if last is None:
            return (), np.outer(init, np.conj(init))
        psi = np.asarray(last.state_vector(copy=True), dtype=complex)
        return _all_records(last), np.outer(psi, psi.conj())

    for ch, (rec, rho) in explore(one, max_paths=20000):
        n += 1
        got[rec] = got[rec] + ch.weight * rho if rec in got else ch.weight * rho
    return got, n


def moms_valid(moms):
    measured = set()
    for mo in moms:
        for x in mo:
            if _NO[x].kind == "cc" and _NO[x].key not in measured:
                return False
        for x in mo:
            if _NO[x].kind == "m":
                measured.add(_NO[x].key)
    return True


_allow_repeated_key = False


def _props_repeated_key_ok(m):
    """Structural probe: does the model keep two different measurements with one key apart?"""
    if "props_rk" not in _CACHE:
        try:
            noisy = cirq.Circuit(cirq.measure(a, key="m"), cirq.measure(b, key="m")).with_noise(m)
            meas = [op.qubits for op in noisy.all_operations() if isinstance(op.gate, cirq.MeasurementGate)]
            _CACHE["props_rk"] = meas == [(a,), (b,)]
        except ValueError:
            _CACHE["props_rk"] = False
    return _CACHE["props_rk"]


def run_noise(case):
    alpha, midx, model = case
    A = (_MA, _MB, _MC)[alpha]
    moms = [A[i] for i in midx]
    if not moms_valid(moms):
        return Res(skipped=True, nontrivial=False)
    moments = [cirq.Moment([_NO[x].op for x in mo]) for mo in moms]
    circ = cirq.Circuit(moments)
    sysq = sorted(circ.all_qubits())
    desc = f"model={model} moments={[list(mo) for mo in moms]}"
    m, ref_fn, sv_ok = build_model(model, sysq)
    psi, rho0 = _INIT[2][1]
    if model[0] == "props" and not _allow_repeated_key and not _props_repeated_key_ok(m):
        by_key = {}
        for mo in moms:
            for x in mo:
                if _NO[x].kind == "m":
                    by_key.setdefault(_NO[x].key, set()).add(_NO[x].base)
        if any(len(v) > 1 for v in by_key.values()):
            # NoiseModelFromNoiseProperties recombines split measurements by key only: two different measurements sharing a
            # key are both replaced by the later one (reported once by stage api_acceptance)
            return Res(skipped=True, nontrivial=False, counters={"props_repeated_key_skipped": 1})
    try:
        ref_items = ref_fn(moms)
        rejected = None
    except Reject as r:
        ref_items = None
        rejected = str(r)
    try:
        noisy = circ.with_noise(m)
    except ValueError as e:
        if rejected and rejected in str(e):
            return Res(skipped=True, nontrivial=False, counters={"documented_rejections": 1})
        raise
    if rejected:
        return bad(f"with_noise accepted a moment the model documents as rejected ({rejected}): {desc}", kind="noise_rejection")
    ref = ref_apply(ref_items, rho0, False)
    paths = 0
    # (A) with_noise == documented insertion rule, compared as channels on a generic mixed state
    gotA, n_, _ = dist_dm(noisy, rho0)
    paths += n_
    msg = compare(ref, gotA, 1e-8)
    if msg:
        return bad(f"circuit.with_noise(model) is not the documented insertion rule (compared as channels): {msg}\n{desc}\n"
                   f"noisy circuit:\n{noisy}", kind="with_noise_rule", model=model[0])
    # (B) DensityMatrixSimulator(noise=m) on c == DensityMatrixSimulator() on c.with_noise(m)
    for split in (False, True):
        gotB, n_, nsteps = dist_dm(circ, rho0, noise=m, split=split)
        paths += n_
        if nsteps != max(len(circ), 1) and model[0] != "props":
            # (NoiseModelFromNoiseProperties returns one entry per NOISY moment: reported once by stage api_acceptance)
            return bad(f"simulate_moment_steps with noise=model yielded {nsteps} steps for {len(circ)} moments: {desc}",
                       kind="steps_per_moment", model=model[0])
        msg = compare(gotA, gotB, 1e-8) or compare(ref, gotB, 1e-8)
        if msg:
            return bad(f"DensityMatrixSimulator(noise=model, split={split}).simulate(c) != simulate(c.with_noise(model)): {msg}\n{desc}",
                       kind="dm_noise_arg", model=model[0])
    # (C) Simulator(noise=m): all trajectories (mixture-type noise and operations only: no random() oracle needed)
    nt = any(_NO[x].kind != "u" or True for mo in moms for x in mo) and model[0] != "none"
    n_noisy = sum(1 for mo in moms if not (mo and all(_NO[x].virtual for x in mo)))
    sv_small = sv_ok and (model[0] in ("none", "props") or len(_NG[model[1]][2]) == 1 or n_noisy * len(sysq) <= 2)  # <= 16 noise branches
    if sv_small and all(_NO[x].mixture_only for mo in moms for x in mo):
        refp = ref_apply(ref_items, np.outer(psi, psi.conj()), False)
        g1, n1 = dist_sv(noisy, psi)
        g2, n2 = dist_sv(circ, psi, noise=m)
        paths += n1 + n2
        msg = compare(refp, g1, 1e-8)
        if msg:
            return bad(f"Simulator on c.with_noise(model): {msg}\n{desc}", kind="sv_with_noise", model=model[0])
        msg = compare(g1, g2, 1e-8)
        if msg:
            return bad(f"Simulator(noise=model).simulate(c) != Simulator().simulate(c.with_noise(model)): {msg}\n{desc}",
                       kind="sv_noise_arg", model=model[0])
    return Res(ok=True, nontrivial=nt and len(ref_items) > sum(len(mo) for mo in moms) or model[0] == "subst", counters={"paths": paths})


def run_thermal_kraus(case):
    """The channel ThermalNoiseModel inserts == exp(t * reference Lindbladian) (scipy expm), compared as superoperators."""
    ri, gname, prepend = case
    cool, heat, deph = THERMAL_RATES[ri]
    qmap = {"a": a, "b": b}
    conv = lambda d: None if d is None else {qmap[k]: v for k, v in d.items()}
    durs = {getattr(cirq, k): v for k, v in THERMAL_DUR.items()}
    m = cirq.devices.ThermalNoiseModel({a, b}, durs, heat_rate_GHz=conv(heat), cool_rate_GHz=conv(cool),
                                       dephase_rate_GHz=conv(deph), require_physical_tag=False, prepend=prepend)
    op = {"HPowGate": cirq.H(a), "XPowGate": cirq.X(b), "CNotPowGate": cirq.CNOT(a, b), "CZPowGate": cirq.CZ(a, b),
          "MeasurementGate": cirq.measure(a, key="m"), "WaitGate": cirq.wait(b, nanos=75)}[gname]
    dur = THERMAL_DUR.get(gname, 75.0)
    out = cirq.Circuit(m.noisy_moment(cirq.Moment([op]), [a, b]))
    noise = [o for o in out.all_operations() if o != op]
    seen = set()
    for o in noise:
        (q,) = o.qubits
        nm = "a" if q == a else "b"
        _, S = thermal_ref_kraus(cool.get(nm, 0.0), (heat or {}).get(nm, 0.0), (deph or {}).get(nm, 0.0), dur)
        got = ref_super([np.asarray(k) for k in cirq.kraus(o)])
        if not close(got, S, 1e-7):
            return bad(f"ThermalNoiseModel noise on {q} after {op} ({dur} ns) != expm(t*Lindbladian): max dev {np.abs(got - S).max():.3g}",
                       kind="thermal_kraus")
        seen.add(q)
    want = {a, b} - ({a} if gname == "MeasurementGate" else set())
    if seen != want:
        return bad(f"ThermalNoiseModel put noise on {sorted(seen)} after {op}, documented: {sorted(want)}", kind="thermal_kraus")
    return good()


# ---------------------------------------------------------------------------------------------------
# stage: API-level acceptance of the mixed-state entry points (each case is one minimal circuit)

API_CASES = ["fdm_kraus_channel", "fdm_mixed_unitary_channel", "fdm_state_preparation_channel", "fdm_keyed_channel_midcircuit", "fdm_qutrit_measurement", "fdm_explicit_order_midcircuit_measurement",
             "fdm_explicit_order_classical_control", "fdm_repeated_measurement_classical_control", "moment_kraus_qutrit", "circuit_superoperator_qutrit", "thermal_noise_qutrit",
             "noise_properties_one_tree_per_moment", "noise_properties_repeated_key", "dm_global_phase_split"]


def run_api(case):
    (ci,) = case
    name = API_CASES[ci]
    k1 = generic_kraus(2, 2, _SEED + 20)
    try:
        if name.startswith("fdm_"):
            if name == "fdm_kraus_channel":
                circ, order, items, qs_, shape = cirq.Circuit(cirq.H(a), cirq.KrausChannel([k.copy() for k in k1]).on(a)), [a], [[HAD], k1], [a], (2,)
            elif name == "fdm_mixed_unitary_channel":
                u = E.generic_unitary(2, _SEED + 30)
                circ, order, items, qs_, shape = cirq.Circuit(cirq.H(a), cirq.MixedUnitaryChannel([(0.25, u), (0.75, PX)]).on(a)), [a], \
                    [[HAD], [0.5 * u, np.sqrt(0.75) * PX]], [a], (2,)
            elif name == "fdm_state_preparation_channel":
                sp = E.generic_state(2, _SEED + 40)
                circ, order, items, qs_, shape = cirq.Circuit(cirq.H(a), cirq.StatePreparationChannel(sp.copy()).on(a)), [a], \
                    [[HAD], k_state_prep(sp)], [a], (2,)
            elif name == "fdm_keyed_channel_midcircuit":
                circ, order, items, qs_, shape = cirq.Circuit(cirq.H(a), cirq.KrausChannel([k.copy() for k in k1], key="ck").on(a), cirq.H(a)), \
                    [a], [[HAD], k1, [HAD]], [a], (2,)
            elif name == "fdm_qutrit_measurement":
                u3 = E.generic_unitary(3, _SEED + 5)
                circ, order, items, qs_, shape = cirq.Circuit(cirq.MatrixGate(u3, qid_shape=(3,)).on(t), cirq.measure(t, key="q")), [t], \
                    [[u3], [np.diag(v).astype(complex) for v in np.eye(3)]], [t], (3,)
            elif name == "fdm_explicit_order_midcircuit_measurement":
                circ, order, items, qs_, shape = cirq.Circuit(cirq.H(a), cirq.measure(a, key="m"), cirq.H(a)), [a], \
                    [[HAD], [np.diag([1, 0]).astype(complex), np.diag([0, 1]).astype(complex)], [HAD]], [a], (2,)
            else:
                circ = cirq.Circuit(cirq.H(a), cirq.measure(a, key="m"), cirq.X(b).with_classical_controls("m"))
                order, qs_, shape = [a, b], [a, b], (2, 2)
                if name == "fdm_repeated_measurement_classical_control":
                    circ.append(cirq.measure(a, key="m"))  # dephasing again changes nothing
                    order = cirq.QubitOrder.DEFAULT
                P0, P1 = np.diag([1, 0]).astype(complex), np.diag([0, 1]).astype(complex)
                items = [[E.embed(HAD, [0], shape)], [np.kron(P0, I2), np.kron(P1, PX)]]
            D = int(np.prod(shape))
            rho = np.zeros((D, D), dtype=complex)
            rho[0, 0] = 1
            for ks in items:
                ks = [k if k.shape == (D, D) else E.embed(k, [0], shape) for k in ks]
                rho = sum(k @ rho @ k.conj().T for k in ks)
            got = cirq.final_density_matrix(circ, qubit_order=order, dtype=np.complex128)
            if not close(got, rho, 1e-7):
                return bad(f"{name}: final_density_matrix differs from the reference", kind="api", defect=name)
            return good()
        if name == "moment_kraus_qutrit":
            mo = cirq.Moment(cirq.ResetChannel(3).on(t))
            if not cirq.has_kraus(mo):
                return Res(skipped=True, nontrivial=False)
            ks = cirq.kraus(mo)
            if not close(ref_super([np.asarray(k) for k in ks]), ref_super(k_reset(3)), 1e-7):
                return bad("cirq.kraus(Moment(reset qutrit)) is not the reset channel", kind="api", defect=name)
            return good()
        if name == "circuit_superoperator_qutrit":
            c = cirq.Circuit(cirq.ResetChannel(3).on(t))
            if not c._has_superoperator_():
                return Res(skipped=True, nontrivial=False)
            if not close(c._superoperator_(), ref_super(k_reset(3)), 1e-7):
                return bad("Circuit(reset qutrit)._superoperator_ is not the reset channel", kind="api", defect=name)
            return good()
        if name == "thermal_noise_qutrit":
            m = cirq.devices.ThermalNoiseModel({t}, {cirq.MatrixGate: 25.0}, cool_rate_GHz=0.004, dephase_rate_GHz=0.002,
                                               require_physical_tag=False)
            u3 = E.generic_unitary(3, _SEED + 5)
            c = cirq.Circuit(cirq.MatrixGate(u3, qid_shape=(3,)).on(t))
            noisy = c.with_noise(m)
            ks, S = thermal_ref_kraus(0.004, 0.0, 0.002, 25.0, dim=3)
            noise = [o for o in noisy.all_operations() if o.gate != c[0].operations[0].gate]
            if len(noise) != 1 or not close(ref_super([np.asarray(k) for k in cirq.kraus(noise[0])]), S, 1e-7):
                return bad("ThermalNoiseModel on a qutrit: inserted noise != expm(t*Lindbladian)", kind="api", defect=name)
            return good()
        if name == "noise_properties_one_tree_per_moment":
            m, _, _ = build_model(("props", 0), [a, b])
            c = cirq.Circuit(cirq.H(a), cirq.measure(a, key="m"))
            trees = m.noisy_moments(c, [a, b])
            steps = sum(1 for _ in cirq.DensityMatrixSimulator(noise=m, seed=0).simulate_moment_steps(c))
            if len(trees) != len(c) or steps != len(c):
                return bad(f"NoiseModelFromNoiseProperties.noisy_moments returned {len(trees)} entries for {len(c)} moments (documented: "
                           f"the k'th tree is the noisy version of the k'th moment); simulate_moment_steps(noise=model) yields {steps} "
                           f"steps for {len(c)} moments", kind="api", defect=name)
            return good()
        if name == "dm_global_phase_split":
            c = cirq.Circuit(cirq.H(a), cirq.global_phase_operation(1j), cirq.amplitude_damp(0.5).on(a))
            r = cirq.DensityMatrixSimulator(dtype=np.complex128, split_untangled_states=True).simulate(c)
            rho = HAD @ np.diag([1, 0]).astype(complex) @ HAD
            rho = sum(k @ rho @ k.conj().T for k in k_amp_damp(0.5))
            if not close(r.final_density_matrix, rho, 1e-7):
                return bad("DensityMatrixSimulator with a global phase operation: wrong final state", kind="api", defect=name)
            return good()
        if name == "noise_properties_repeated_key":
            global _allow_repeated_key
            _allow_repeated_key = True
            try:
                r = run_noise((2, (_MC.index(("M(a;m)",)), _MC.index(("M(b;m)",))), ("props", 0)))
            finally:
                _allow_repeated_key = False
            if r is not None and not r.ok:
                return bad("NoiseModelFromNoiseProperties on Circuit(measure(a, key='m'), measure(b, key='m')) (a repeated key on "
                           "different qubits): " + r.msg, kind="api", defect=name)
            return good()
    except (TypeError, ValueError) as e:
        return bad(f"{name}: {type(e).__name__}: {e} -- raised by an entry point whose documentation accepts this input "
                   f"(the DensityMatrixSimulator / the operations themselves accept it)", kind="api", defect=name)
    raise core.HarnessError(name)


# ---------------------------------------------------------------------------------------------------


def describe_noise(case):
    alpha, midx, model = case
    A = (_MA, _MB, _MC)[alpha]
    return {"model": list(model), "moments": [list(A[i]) for i in midx]}


def describe_desc_circuit(case):
    return {"moments": [names(mo) for mo in case]}


def stages(tier, seed):
    _init(seed)
    reset = lambda: _init(seed)
    nL = len(_L)
    full = list(range(nL))
    core1 = [i for i in full if _L[i].core >= 1]
    core2 = [i for i in full if _L[i].core >= 2]
    core3 = [i for i in full if _L[i].core >= 3]
    quick = tier == "quick"

    def seqs(alpha, length):
        return [s for s in itertools.product(alpha, repeat=length) if seq_valid(s)]

    def cfg_dm(dt, split, ign):
        return CONFIGS_DM.index((dt, split, ign))

    ALL_DM = list(range(len(CONFIGS_DM)))
    # ---- stage 1: density matrices
    dm_cases = []
    for s in seqs(full, 1):
        for init_i in (0, 1):
            for ci in ALL_DM:
                dm_cases.append((init_i, s, 0, ci))
    if quick:
        for s in seqs(core1, 2):
            for init_i in (0, 1):
                for layout in (0, 1):
                    for ci in ALL_DM:
                        dm_cases.append((init_i, s, layout, ci))
        rest = [i for i in full if _L[i].core == 0]
        for x in rest:
            for y in core2:
                for s in ((x, y), (y, x)):
                    if seq_valid(s):
                        for ci in (cfg_dm("c128", False, False), cfg_dm("c128", True, False)):
                            dm_cases.append((1, s, 0, ci))
        for s in seqs(core1, 3):
            dm_cases.append((0, s, 0, cfg_dm("c128", True, False)))
            dm_cases.append((1, s, 0, cfg_dm("c64", False, False)))
        for s in seqs(core2, 3):
            for init_i in (0, 1):
                for ci in (cfg_dm("c128", None, True), cfg_dm("c64", None, True)):
                    dm_cases.append((init_i, s, 0, ci))
    else:
        for s in seqs(full, 2):
            for init_i in (0, 1):
                for layout in (0, 1):
                    for ci in ALL_DM:
                        dm_cases.append((init_i, s, layout, ci))
        for s in seqs(core1, 3):
            for init_i in (0, 1):
                for ci in ALL_DM:
                    dm_cases.append((init_i, s, 0, ci))
        for s in seqs(core3, 4):
            for init_i in (0, 1):
                for ci in ALL_DM:
                    dm_cases.append((init_i, s, 0, ci))
    # ---- stage 2: trajectories
    sv_cases = []
    ALL_SV = list(range(len(CONFIGS_SV)))
    comb4 = [(0, CONFIGS_SV.index(("c128", True))), (1, CONFIGS_SV.index(("c128", False))),
             (1, CONFIGS_SV.index(("c64", True))), (0, CONFIGS_SV.index(("c64", False)))]
    comb2 = [(0, CONFIGS_SV.index(("c128", True))), (1, CONFIGS_SV.index(("c64", False)))]
    for s in seqs(full, 1):
        for init_i in (0, 1):
            for ci in ALL_SV:
                sv_cases.append((init_i, s, ci))
    if quick:
        for s in seqs(core1, 2):
            for init_i, ci in comb4:
                sv_cases.append((init_i, s, ci))
        for s in seqs(core2, 3):
            for init_i, ci in comb2:
                sv_cases.append((init_i, s, ci))
    else:
        for s in seqs(full, 2):
            for init_i, ci in comb4:
                sv_cases.append((init_i, s, ci))
        for s in seqs(core1, 3):
            for init_i, ci in comb2:
                sv_cases.append((init_i, s, ci))
        for s in seqs(core3, 4):
            sv_cases.append((1, s, CONFIGS_SV.index(("c128", True))))
    # ---- stage 3: descriptions
    desc_letters = [(i,) for i in full]
    two = [i for i in full if not _L[i].qt and _L[i].kind != "cc"]
    desc_circ = [((i,),) for i in two]
    one_a = [i for i in two if tuple(_L[i].op.qubits) == (a,)]
    one_b = [i for i in two if tuple(_L[i].op.qubits) == (b,)]
    pa = one_a if not quick else [i for i in one_a if _L[i].core >= 1 or not _L[i].degenerate and _L[i].cls in ("generalized_amplitude_damp", "KrausChannel+key")][:40]
    pb = one_b if not quick else [i for i in one_b if _L[i].core >= 1 or _L[i].cls in ("amplitude_damp", "phase_damp")][:40]
    for i in pa:
        for j in pb:
            desc_circ.append(((i, j),))
            desc_circ.append(((j, i),))
    c1two = [i for i in core1 if i in two]
    for i in c1two:
        for j in c1two:
            desc_circ.append(((i,), (j,)))
    if not quick:
        for i in c1two:
            for j in c1two:
                for k in c1two:
                    desc_circ.append(((i,), (j,), (k,)))
    qt_letters = [i for i in full if _L[i].qt and _L[i].kind != "cc"]
    qt_moms = [((i,),) for i in qt_letters]
    for i in qt_letters:
        if tuple(_L[i].op.qubits) == (t,):
            for j in core2:
                if _L[j].kind != "cc" and not _L[j].qt:
                    qt_moms += [((i, j),), ((j, i),), ((j,), (i,))]
    desc_circ += qt_moms
    # ---- stage 4: noise models
    models_plain = [("const", gi, pre) for gi in range(len(_NG)) for pre in (False, True)] + [("like_gate", 0), ("like_gate", 1),
                                                                                             ("none",), ("subst",)]
    models_phys = [("insertion", w, pre, req) for w in range(len(INSERT_TABLES)) for pre in (False, True) for req in (True, False)] + \
                  [("thermal", ri, req, sk, pre) for ri in range(len(THERMAL_RATES)) for req in (True, False) for sk in (True, False)
                   for pre in (False, True)]
    noise_cases = []
    maxm = 2 if quick else 3
    phys_few = [m_ for k_, m_ in enumerate(models_phys) if k_ % 4 == (k_ // 4) % 4]  # every option value, not every combination
    for alpha, A, models in ((0, _MA, models_plain), (1, _MB, models_phys)):
        for ln in range(1, maxm + 1):
            for midx in itertools.product(range(len(A)), repeat=ln):
                ms = models
                if alpha == 1 and ((quick and ln == 2) or ln == 3):
                    ms = phys_few
                if ln == 3 and alpha == 1 and midx[0] not in (1, 5, 6):
                    continue
                for model in ms:
                    noise_cases.append((alpha, midx, model))
    for ln in range(1, maxm + 1):
        for midx in itertools.product(range(len(_MC)), repeat=ln):
            if ln == 3 and midx[0] not in (0, 4, 6):
                continue
            for vi in range(len(PROPS)):
                noise_cases.append((2, midx, ("props", vi)))
    thermal_cases = [(ri, gname, pre) for ri in range(len(THERMAL_RATES))
                     for gname in ("HPowGate", "XPowGate", "CNotPowGate", "CZPowGate", "MeasurementGate", "WaitGate") for pre in (False, True)]
    return [
        CaseStage("dm_final_state", dm_cases, run_dm, reset=reset, describe=describe_dm),
        CaseStage("sv_trajectories", sv_cases, run_sv, reset=reset, describe=describe_sv, chunk=128),
        CaseStage("channel_descriptions", desc_letters, run_desc_letter, reset=reset, describe=lambda c: _L[c[0]].name),
        CaseStage("moment_circuit_superoperators", desc_circ, run_desc_circuit, reset=reset, describe=describe_desc_circuit),
        CaseStage("noise_models", noise_cases, run_noise, reset=reset, describe=describe_noise, chunk=128),
        CaseStage("thermal_noise_lindbladian", thermal_cases, run_thermal_kraus, reset=reset),
        CaseStage("api_acceptance", [(i,) for i in range(len(API_CASES))], run_api, reset=reset, describe=lambda c: API_CASES[c[0]]),
    ]
