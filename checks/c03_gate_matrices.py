"""C03 -- every library gate has the matrix its documentation defines.

Bounded-exhaustive enumeration (E1): every gate family exported by cirq / cirq_google / cirq_ionq is instantiated over
the full cartesian parameter grid of its stage (special exponents that hit fast paths / canonicalisation, global
shifts, qudit dimensions, angles, probabilities) and `cirq.unitary` / `cirq.kraus` / `cirq.mixture` /
`cirq.qid_shape` / `cirq.num_qubits` are compared with the closed forms of `mc/ref/gates.py`, which were typed in
from the class docstrings and textbooks without calling any cirq protocol.  Channels are compared as superoperators
sum_k K (x) K^* so that no particular Kraus decomposition is demanded.

Oracle notes (places where the documentation is not a complete matrix definition; see the final report)
* CCXPowGate: the LaTeX block of the docstring has cos(pi t)/sin(pi t) in the X**t block; the sentence above it
  ("the bottom right 2x2 area is the matrix of X**t") is used.
* PhaseGradientGate(n, t): the docstring formula omits t; diag(w^{x t}) is used (w^x at t=1 as documented).
* QubitPermutationGate: the constructor docstring ("the entry at offset i is the result of permuting i", diagram
  i>p_i) is used: qubit i is moved to offset p_i.  The class-docstring formula reads as the inverse permutation
  (differs only for non-involutions, n>=3).
* BooleanHamiltonianGate: compared UP TO GLOBAL PHASE with exp(-i theta/2 sum_k f_k): magnitude theta/2 from the class
  docstring, sign from the constructor docstring ("exp(-j * theta * polynomial)") and upstream behaviour; the two
  docstrings contradict each other, so only what is consistent with both is demanded.
* PhasedFSimGate.from_fsim_rz, PhasedXZGate.from_zyz_*, PhasedXZGate._canonical, Clifford gates: documented only up
  to global phase -> compared up to global phase.
"""
from __future__ import annotations

import inspect
import itertools
import math

import numpy as np
import sympy
import cirq
import cirq_google
import cirq_ionq
import cirq_ionq.ionq_native_gates as ionq_native

from mc import core
from mc.core import CaseStage, CustomStage, Res, bad, good
from mc.ref import embed as E
from mc.ref import gates as G

PROPERTY = "C03"
LEVEL = "exploration"
RULE = ("cases = (gate family, parameter tuple) over the full cartesian grid of each family: exponents/angles in "
        "{0,+-0.25,+-0.5,1,-1,1.5,2,2.5,-3.75,1e-9,generic(seed)} (angles: the same values times pi), global_shift in "
        "{0,-0.5,0.5,generic}, qudit dimensions 2..4, probabilities {0,0.1,0.5,1,generic}, all permutations/boolean "
        "functions/Pauli pairs/controls of the stated sizes; plus named constants, g**-1 / g**a, symbol resolution; "
        "a case is non-trivial when its reference matrix (superoperator) differs from the identity; distinct = "
        "distinct (stage, family, parameters)")
TECHNIQUE = ("bounded-exhaustive enumeration of every exported gate family over special-value parameter grids, compared "
             "entry-wise with closed-form reference matrices / Kraus superoperators typed in from the documentation")
LEVEL_TEXT = ("Every cirq.Gate subclass exported by cirq, cirq_google and cirq_ionq is either instantiated over its whole "
              "parameter grid or listed with the reason it has no matrix; for each instance cirq.unitary (exactly, incl. "
              "global phase where the documentation fixes it), cirq.kraus and cirq.mixture (as superoperators), qid_shape "
              "and num_qubits must equal an independent closed form in big-endian order. Named constants are compared with "
              "typed-in textbook matrices and with their family at the documented parameters. Bounded by the grids.")
LEVEL_NOTE = ("trusted: numpy; the reference formulas of mc/ref/gates.py (self-tested against each other); the readings of "
              "ambiguous docstrings listed in the module docstring")
ASSUMPTIONS = [
    "numpy linear algebra and cmath",
    "mc/ref/gates.py transcribes the docstring / textbook definitions faithfully (it cross-checks its own formulas on import)",
    "where a docstring is incomplete or self-contradictory the reading stated in the module docstring is the definition",
]

ATOL = 1e-8
ATOL_SUPER = 1e-7

# ------------------------------------------------------------------------------------------------
# grids

SPECIAL = (0, 0.25, -0.25, 0.5, -0.5, 1, -1, 1.5, 2, 2.5, -3.75, 1e-9)
_SEED = 0


def exps(k=0):
    return SPECIAL + (core.generic(_SEED, k),)


def shifts():
    return (0, -0.5, 0.5, core.generic(_SEED, 1))


def angles(k=0):
    return tuple(x * math.pi for x in SPECIAL) + (core.generic(_SEED, k),)


def angles_and_raw(k=0):
    return angles(k) + (0.25, -0.5, 1, 2.5)


def small(k=0):
    return (0, 0.5, -0.25, 1, 1.5, core.generic(_SEED, k))


def probs():
    return (0, 0.1, 0.5, 1, abs(core.generic(_SEED, 2)) % 1)


def ang_vectors(n):
    """2**n-entry angle vectors: every cyclic offset into the special list (times pi) with stride 5, plus generic."""
    m = 2 ** n
    sp = [x * math.pi for x in SPECIAL]
    out = []
    for off in range(len(sp)):
        out.append(tuple(sp[(off + 5 * j) % len(sp)] for j in range(m)))
    out.append(tuple(core.generic(_SEED, j) for j in range(m)))
    out.append(tuple(0.0 for _ in range(m)))
    return out


# ------------------------------------------------------------------------------------------------
# family registry: name -> (make(params)->gate, ref(params)->(kind, data, shape), grid(tier)->iterable of params)
# kinds: "U" unitary compared exactly, "P" unitary up to global phase, "K" Kraus set (superoperator),
#        "S" unitary known only through U|0..0> = state

FAM = {}


def family(name, make, ref, grid, stage):
    FAM[name] = (make, ref, grid, stage)


def U(m, shape):
    return ("U", m, tuple(shape))


def P(m, shape):
    return ("P", m, tuple(shape))


def K(ks, shape):
    return ("K", ks, tuple(shape))


def prod(*its, repeat=1):
    return itertools.product(*its, repeat=repeat)


# --- EigenGate families (exponent x global_shift) -------------------------------------------------

_EIGEN = {
    "XPowGate": (cirq.XPowGate, G.xpow, 1),
    "YPowGate": (cirq.YPowGate, G.ypow, 1),
    "ZPowGate": (cirq.ZPowGate, G.zpow, 1),
    "HPowGate": (cirq.HPowGate, G.hpow, 1),
    "CZPowGate": (cirq.CZPowGate, G.czpow, 2),
    "CXPowGate": (cirq.CXPowGate, G.cxpow, 2),
    "CYPowGate": (cirq.CYPowGate, G.cypow, 2),
    "SwapPowGate": (cirq.SwapPowGate, G.swappow, 2),
    "ISwapPowGate": (cirq.ISwapPowGate, G.iswappow, 2),
    "XXPowGate": (cirq.XXPowGate, G.xxpow, 2),
    "YYPowGate": (cirq.YYPowGate, G.yypow, 2),
    "ZZPowGate": (cirq.ZZPowGate, G.zzpow, 2),
    "CCXPowGate": (cirq.CCXPowGate, G.ccxpow, 3),
    "CCYPowGate": (cirq.CCYPowGate, G.ccypow, 3),
    "CCZPowGate": (cirq.CCZPowGate, G.cczpow, 3),
}


def _reg_eigen():
    for name, (cls, rf, n) in _EIGEN.items():
        family(name,
               (lambda p, cls=cls: cls(exponent=p[0], global_shift=p[1])),
               (lambda p, rf=rf, n=n: U(rf(p[0], p[1]), (2,) * n)),
               (lambda tier: prod(exps(), shifts())), "eigen_gates")
    for name, cls, rf in (("XPowGate[d]", cirq.XPowGate, G.xpow), ("ZPowGate[d]", cirq.ZPowGate, G.zpow)):
        family(name,
               (lambda p, cls=cls: cls(exponent=p[0], global_shift=p[1], dimension=p[2])),
               (lambda p, rf=rf: U(rf(p[0], p[1], p[2]), (p[2],))),
               (lambda tier: prod(exps(), shifts(), (3, 4) if tier == "quick" else (3, 4, 5))), "qudit_gates")
    family("PhasedISwapPowGate",
           lambda p: cirq.PhasedISwapPowGate(exponent=p[0], phase_exponent=p[1], global_shift=p[2]),
           lambda p: U(G.phased_iswappow(p[0], p[1], p[2]), (2, 2)),
           lambda tier: prod(exps(), exps(3), shifts()), "eigen_gates")
    family("PhasedXPowGate",
           lambda p: cirq.PhasedXPowGate(exponent=p[0], phase_exponent=p[1], global_shift=p[2]),
           lambda p: U(G.phased_xpow(p[0], p[1], p[2]), (2,)),
           lambda tier: prod(exps(), exps(3), shifts()), "phased_single_qubit")
    family("PhasedXZGate",
           lambda p: cirq.PhasedXZGate(x_exponent=p[0], z_exponent=p[1], axis_phase_exponent=p[2]),
           lambda p: U(G.phased_xz(p[0], p[1], p[2]), (2,)),
           lambda tier: prod(exps(), exps(3), exps(4)), "phased_single_qubit")
    family("PhasedXZGate._canonical",
           lambda p: cirq.PhasedXZGate(x_exponent=p[0], z_exponent=p[1], axis_phase_exponent=p[2])._canonical(),
           lambda p: P(G.phased_xz(p[0], p[1], p[2]), (2,)),
           lambda tier: prod(exps(), exps(3), exps(4)), "phased_single_qubit")
    family("PhasedXZGate.from_zyz_exponents",
           lambda p: cirq.PhasedXZGate.from_zyz_exponents(z0=p[0], y=p[1], z1=p[2]),
           lambda p: P(G.zpow(p[2]) @ G.ypow(p[1]) @ G.zpow(p[0]), (2,)),
           lambda tier: prod(small(), exps(3), small(4)), "phased_single_qubit")
    family("PhasedXZGate.from_zyz_angles",
           lambda p: cirq.PhasedXZGate.from_zyz_angles(z0_rad=p[0], y_rad=p[1], z1_rad=p[2]),
           lambda p: P(G.rz(p[2]) @ G.ry(p[1]) @ G.rz(p[0]), (2,)),
           lambda tier: prod((0, math.pi / 2, core.generic(_SEED, 5)), angles(3), (0, -math.pi, core.generic(_SEED, 4))),
           "phased_single_qubit")


# --- radians-parameterised rotations and factories -----------------------------------------------


def _reg_rotations():
    for name, mk, rf, n in (
        ("Rx", lambda r: cirq.Rx(rads=r), G.rx, 1), ("Ry", lambda r: cirq.Ry(rads=r), G.ry, 1),
        ("Rz", lambda r: cirq.Rz(rads=r), G.rz, 1),
        ("cirq.rx", cirq.rx, G.rx, 1), ("cirq.ry", cirq.ry, G.ry, 1), ("cirq.rz", cirq.rz, G.rz, 1),
        ("MSGate", lambda r: cirq.MSGate(rads=r), G.ms, 2), ("cirq.ms", cirq.ms, G.ms, 2),
        ("cirq.riswap", cirq.riswap, G.riswap, 2), ("cirq.givens", cirq.givens, G.givens, 2),
        ("cirq.cphase", cirq.cphase, G.cphase, 2),
    ):
        family(name, (lambda p, mk=mk: mk(p[0])), (lambda p, rf=rf, n=n: U(rf(p[0]), (2,) * n)),
               (lambda tier: ((a,) for a in angles_and_raw())), "rotations_and_factories")
    family("FSimGate", lambda p: cirq.FSimGate(theta=p[0], phi=p[1]), lambda p: U(G.fsim(p[0], p[1]), (2, 2)),
           lambda tier: prod(angles(), angles(3)), "fsim")

    def pf_grid(tier):
        g = (0, math.pi / 2, core.generic(_SEED, 0)) if tier == "quick" else angles()
        return prod(g, g, g, g, g)

    family("PhasedFSimGate", lambda p: cirq.PhasedFSimGate(theta=p[0], zeta=p[1], chi=p[2], gamma=p[3], phi=p[4]),
           lambda p: U(G.phased_fsim(*p), (2, 2)), pf_grid, "fsim")

    def pfr_grid(tier):
        g = (0, math.pi / 2, core.generic(_SEED, 0))
        h = (0, core.generic(_SEED, 3)) if tier == "quick" else (0, -math.pi / 2, core.generic(_SEED, 3))
        return prod(g, g, h, h, h, h)

    family("PhasedFSimGate.from_fsim_rz",
           lambda p: cirq.PhasedFSimGate.from_fsim_rz(p[0], p[1], (p[2], p[3]), (p[4], p[5])),
           lambda p: P(G.phased_fsim_from_rz(p[0], p[1], (p[2], p[3]), (p[4], p[5])), (2, 2)), pfr_grid, "fsim")


# --- structured multi-qubit gates -------------------------------------------------------------------

_PAULI = {"X": cirq.X, "Y": cirq.Y, "Z": cirq.Z}


class _Add(cirq.ArithmeticGate):
    """target += source (the docstring example)."""

    def __init__(self, target, source):
        self.t, self.s = target, source

    def registers(self):
        return self.t, self.s

    def with_registers(self, *new):
        return _Add(*new)

    def apply(self, t, s):
        return t + s


class _AddFull(_Add):
    """same, 'fully detailed' return form."""

    def with_registers(self, *new):
        return _AddFull(*new)

    def apply(self, t, s):
        size = int(np.prod(self.t)) if not isinstance(self.t, int) else self.t + 1
        return (t + s) % size, s


class _SubSwap(cirq.ArithmeticGate):
    """three registers: a -= c ; b, c unchanged except b ^= 1 when its register has size 2 -- returns negative values."""

    def __init__(self, a, b, c):
        self.r = (a, b, c)

    def registers(self):
        return self.r

    def with_registers(self, *new):
        return _SubSwap(*new)

    def apply(self, a, b, c):
        return a - c - 1, (b + 1)


class _MulMod(cirq.ArithmeticGate):
    """target *= k mod N for target < N, identity otherwise (k coprime to N)."""

    def __init__(self, target, k, n):
        self.t, self.k, self.n = target, k, n

    def registers(self):
        return self.t, self.k, self.n

    def with_registers(self, *new):
        return _MulMod(*new)

    def apply(self, t, k, n):
        return t if t >= n else (t * k) % n


_ARITH = [
    # (make, registers, reference fn returning the full output tuple)
    (lambda: _Add((2, 2), (2,)), [(2, 2), (2,)], lambda t, s: (t + s, s)),
    (lambda: _Add((2,), (2, 2)), [(2,), (2, 2)], lambda t, s: (t + s, s)),
    (lambda: _Add((2, 2), 1), [(2, 2), 1], lambda t, s: (t + s, s)),
    (lambda: _Add((2, 2), 3), [(2, 2), 3], lambda t, s: (t + s, s)),
    (lambda: _Add((3,), (2,)), [(3,), (2,)], lambda t, s: (t + s, s)),
    (lambda: _Add((2, 3), (3,)), [(2, 3), (3,)], lambda t, s: (t + s, s)),
    (lambda: _Add((2, 2, 2), 5), [(2, 2, 2), 5], lambda t, s: (t + s, s)),
    (lambda: _AddFull((2, 2), (2, 2)), [(2, 2), (2, 2)], lambda t, s: (t + s, s)),
    (lambda: _AddFull((2,), (2,)), [(2,), (2,)], lambda t, s: (t + s, s)),
    (lambda: _SubSwap((2, 2), (2,), (2,)), [(2, 2), (2,), (2,)], lambda a, b, c: (a - c - 1, b + 1, c)),
    (lambda: _SubSwap((3,), (2,), 2), [(3,), (2,), 2], lambda a, b, c: (a - c - 1, b + 1, c)),
    (lambda: _MulMod((2, 2, 2), 3, 7), [(2, 2, 2), 3, 7], lambda t, k, n: (t if t >= n else t * k % n, k, n)),
    (lambda: _MulMod((2, 2), 2, 3), [(2, 2), 2, 3], lambda t, k, n: (t if t >= n else t * k % n, k, n)),
]


def _bool_expr(names, table):
    """Expression string (over ~ & |) and python predicate of the boolean function with the given truth table."""
    n = len(names)
    terms = []
    rows = list(itertools.product((0, 1), repeat=n))
    for bits, v in zip(rows, table):
        if v:
            terms.append("(" + " & ".join(nm if b else "~" + nm for nm, b in zip(names, bits)) + ")")
    if not terms:
        expr = " & ".join(f"({nm} & ~{nm})" for nm in names[:1])
    else:
        expr = " | ".join(terms)
    lut = dict(zip(rows, table))
    return expr, (lambda *bits: bool(lut[tuple(bits)]))


_XOR_FORMS = [("a ^ b", lambda a, b: bool(a ^ b)), ("~(a ^ b)", lambda a, b: not (a ^ b)),
              ("(a | b) ^ a", lambda a, b: bool((a | b) ^ a)), ("a ^ b ^ c", lambda a, b, c: bool(a ^ b ^ c)),
              ("a & (b | c)", lambda a, b, c: bool(a & (b | c))), ("(a ^ b) | (b ^ c)", lambda a, b, c: bool((a ^ b) | (b ^ c)))]

_CTRL = [
    # (sub index, num_controls, control_values (jsonable), control_qid_shape, allowed digit tuples)
    (1, ((1,),), (2,)), (1, ((0,),), (2,)), (2, ((1,), (0,)), (2, 2)), (1, ((0, 2),), (3,)),
    (2, ((1, 2), (0,)), (3, 2)), (1, ((0, 1),), (2,)),
]


def _sub_gates():
    g = core.generic(_SEED, 0)
    return [
        ("Y**g[shift .5]", cirq.YPowGate(exponent=g, global_shift=0.5), G.ypow(g, 0.5), (2,)),
        ("Z**0.5", cirq.Z ** 0.5, G.zpow(0.5), (2,)),
        ("SWAP**g", cirq.SWAP ** g, G.swappow(g), (2, 2)),
        ("Matrix(3)", cirq.MatrixGate(E.generic_unitary(3, _SEED), qid_shape=(3,)), E.generic_unitary(3, _SEED), (3,)),
        ("rx(g)", cirq.rx(g), G.rx(g), (2,)),
        ("H", cirq.H, G.CONST["H"], (2,)),
        ("X", cirq.X, G.CONST["X"], (2,)),
    ]


def _allowed(cvals):
    return list(itertools.product(*[tuple(v) for v in cvals]))


def _reg_structured():
    family("IdentityGate", lambda p: cirq.IdentityGate(qid_shape=p[0]) if p[1] else cirq.IdentityGate(len(p[0])),
           lambda p: U(G.identity(p[0]), p[0]),
           lambda tier: [((2,), 0), ((2, 2), 0), ((2, 2, 2), 0), ((), 0), ((2, 2, 2, 2), 0), ((2,), 1), ((3,), 1),
                         ((2, 3), 1), ((4,), 1), ((3, 2, 2), 1), ((5, 3), 1)], "structured")
    family("cirq.identity_each", lambda p: cirq.identity_each(*cirq.LineQid.for_qid_shape(p[0])).gate,
           lambda p: U(G.identity(p[0]), p[0]), lambda tier: [((2,),), ((2, 3),), ((3, 2, 2),)], "structured")
    family("GlobalPhaseGate", lambda p: cirq.GlobalPhaseGate(np.exp(1j * math.pi * p[0])),
           lambda p: U(G.global_phase(G.ph(p[0])), ()), lambda tier: ((t,) for t in exps()), "structured")
    family("GlobalPhaseGate[exact]", lambda p: cirq.GlobalPhaseGate((1, -1, 1j, -1j)[p[0]]),
           lambda p: U(G.global_phase((1, -1, 1j, -1j)[p[0]]), ()), lambda tier: ((k,) for k in range(4)), "structured")
    family("cirq.global_phase_operation", lambda p: cirq.global_phase_operation(np.exp(1j * math.pi * p[0])).gate,
           lambda p: U(G.global_phase(G.ph(p[0])), ()), lambda tier: ((t,) for t in small()), "structured")

    def mg_make(p):
        shape, seed, infer = p
        m = E.generic_unitary(int(np.prod(shape)), seed + _SEED)
        return cirq.MatrixGate(m) if infer else cirq.MatrixGate(m, qid_shape=shape, name="named")

    family("MatrixGate", mg_make, lambda p: U(E.generic_unitary(int(np.prod(p[0])), p[1] + _SEED), p[0]),
           lambda tier: [((2,), 1, 1), ((2, 2), 2, 1), ((2, 2, 2), 3, 1), ((2,), 4, 0), ((3,), 5, 0), ((4,), 6, 0),
                         ((2, 3), 7, 0), ((3, 2), 8, 0), ((2, 2), 9, 0), ((2, 2, 3), 10, 0)], "structured")
    family("DiagonalGate", lambda p: cirq.DiagonalGate(list(p[1])), lambda p: U(G.diagonal(p[1]), (2,) * p[0]),
           lambda tier: ((n, v) for n in ((1, 2, 3) if tier == "quick" else (1, 2, 3, 4)) for v in ang_vectors(n)), "structured")
    family("TwoQubitDiagonalGate", lambda p: cirq.TwoQubitDiagonalGate(list(p[0])), lambda p: U(G.diagonal(p[0]), (2, 2)),
           lambda tier: ((v,) for v in ang_vectors(2)), "structured")
    family("ThreeQubitDiagonalGate", lambda p: cirq.ThreeQubitDiagonalGate(list(p[0])),
           lambda p: U(G.diagonal(p[0]), (2, 2, 2)), lambda tier: ((v,) for v in ang_vectors(3)), "structured")
    family("CSwapGate", lambda p: cirq.CSwapGate(), lambda p: U(G.cswap(), (2, 2, 2)), lambda tier: [()], "structured")
    family("QuantumFourierTransformGate",
           lambda p: cirq.QuantumFourierTransformGate(p[0], without_reverse=bool(p[1])),
           lambda p: U(G.qft(p[0], bool(p[1])), (2,) * p[0]),
           lambda tier: prod((1, 2, 3) if tier == "quick" else (1, 2, 3, 4, 5), (0, 1)), "structured")
    family("cirq.qft", lambda p: cirq.qft(*cirq.LineQubit.range(p[0]), without_reverse=bool(p[1]), inverse=bool(p[2])).gate,
           lambda p: U(G.dag(G.qft(p[0], bool(p[1]))) if p[2] else G.qft(p[0], bool(p[1])), (2,) * p[0]),
           lambda tier: prod((1, 2, 3), (0, 1), (0, 1)), "structured")
    family("PhaseGradientGate", lambda p: cirq.PhaseGradientGate(num_qubits=p[0], exponent=p[1]),
           lambda p: U(G.phase_gradient(p[0], p[1]), (2,) * p[0]),
           lambda tier: prod((1, 2, 3) if tier == "quick" else (1, 2, 3, 4), exps()), "structured")
    family("QubitPermutationGate", lambda p: cirq.QubitPermutationGate(list(p[0])),
           lambda p: U(G.qubit_permutation(p[0]), (2,) * len(p[0])),
           lambda tier: ((perm,) for n in ((1, 2, 3) if tier == "quick" else (1, 2, 3, 4))
                         for perm in itertools.permutations(range(n))), "structured")
    family("ArithmeticGate", lambda p: _ARITH[p[0]][0](),
           lambda p: U(G.arithmetic(_ARITH[p[0]][1], _ARITH[p[0]][2]),
                       tuple(d for r in _ARITH[p[0]][1] if not isinstance(r, int) for d in r)),
           lambda tier: ((k,) for k in range(len(_ARITH))), "structured")

    def bh_make(p):
        nvars, tables, theta = p
        names = ["a", "b", "c"][:nvars]
        return cirq.BooleanHamiltonianGate(names, [_bool_expr(names, t)[0] for t in tables], theta)

    def bh_ref(p):
        nvars, tables, theta = p
        names = ["a", "b", "c"][:nvars]
        return P(G.boolean_hamiltonian(nvars, [_bool_expr(names, t)[1] for t in tables], theta), (2,) * nvars)

    def bh_grid(tier):
        th = angles()
        for nv in (1, 2):
            for table in itertools.product((0, 1), repeat=2 ** nv):
                for t in th:
                    yield (nv, (table,), t)
        t2 = list(itertools.product((0, 1), repeat=4))
        for i, ta in enumerate(t2):
            for tb in (t2[(i * 7 + 3) % 16], t2[15 - i]):
                for t in (0.3, math.pi, core.generic(_SEED, 0)):
                    yield (2, (ta, tb), t)
        if tier != "quick":
            for table in itertools.product((0, 1), repeat=8):
                for t in (math.pi / 2, core.generic(_SEED, 0)):
                    yield (3, (table,), t)

    family("BooleanHamiltonianGate", bh_make, bh_ref, bh_grid, "structured")
    family("BooleanHamiltonianGate[xor forms]",
           lambda p: cirq.BooleanHamiltonianGate(["a", "b", "c"][:_XOR_FORMS[p[0]][1].__code__.co_argcount], [_XOR_FORMS[p[0]][0]], p[1]),
           lambda p: P(G.boolean_hamiltonian(_XOR_FORMS[p[0]][1].__code__.co_argcount, [_XOR_FORMS[p[0]][1]], p[1]),
                       (2,) * _XOR_FORMS[p[0]][1].__code__.co_argcount),
           lambda tier: prod(range(len(_XOR_FORMS)), (0.3, math.pi, -math.pi / 2, core.generic(_SEED, 0))), "structured")
    family("UniformSuperpositionGate", lambda p: cirq.UniformSuperpositionGate(p[0], p[1]),
           lambda p: ("S", G.uniform_superposition_state(p[0], p[1]), (2,) * p[1]),
           lambda tier: ((m, n) for n in ((1, 2, 3) if tier == "quick" else (1, 2, 3, 4, 5)) for m in range(1, 2 ** n + 1)),
           "structured")
    family("PauliInteractionGate",
           lambda p: cirq.PauliInteractionGate(_PAULI[p[0]], bool(p[1]), _PAULI[p[2]], bool(p[3]), exponent=p[4]),
           lambda p: U(G.pauli_interaction(p[0], bool(p[1]), p[2], bool(p[3]), p[4]), (2, 2)),
           lambda tier: prod("XYZ", (0, 1), "XYZ", (0, 1), exps()), "structured")
    _PS = ("X", "Y", "Z", "XZ", "YY", "IX", "ZI", "XYZ", "ZIZ", "II", "YXZY")

    family("PauliStringPhasorGate",
           lambda p: cirq.PauliStringPhasorGate(cirq.DensePauliString(p[0], coefficient=p[1]), exponent_neg=p[2], exponent_pos=p[3]),
           lambda p: U(G.pauli_string_phasor(p[0], p[1], p[2], p[3]), (2,) * len(p[0])),
           lambda tier: prod(_PS, (1, -1), exps(), (0, 0.5, -0.25, core.generic(_SEED, 3))), "structured")
    _COEF = (1, -1, 1j, -1j)
    family("DensePauliString",
           lambda p: cirq.DensePauliString(p[0], coefficient=_COEF[p[1]] if p[1] < 4 else np.exp(1j * core.generic(_SEED, 0))),
           lambda p: U(G.dense_pauli_string(p[0], _COEF[p[1]] if p[1] < 4 else G.ei(core.generic(_SEED, 0))), (2,) * len(p[0])),
           lambda tier: prod(_PS + ("",), range(5)), "structured")
    family("MutableDensePauliString",
           lambda p: cirq.MutableDensePauliString(p[0], coefficient=_COEF[p[1]]),
           lambda p: U(G.dense_pauli_string(p[0], _COEF[p[1]]), (2,) * len(p[0])),
           lambda tier: prod(_PS, range(4)), "structured")

    def cg_make(p):
        si, ci, form = p
        sub = _sub_gates()[si][1]
        n, cvals, cshape = _CTRL[ci]
        if form == 0:
            return cirq.ControlledGate(sub, num_controls=n, control_values=[v[0] if len(v) == 1 else set(v) for v in cvals],
                                       control_qid_shape=cshape)
        if form == 1:
            return sub.controlled(num_controls=n, control_values=[v[0] if len(v) == 1 else set(v) for v in cvals],
                                  control_qid_shape=cshape)
        return cirq.ControlledGate(sub, control_values=cirq.SumOfProducts(_allowed(cvals)), control_qid_shape=cshape)

    def cg_ref(p):
        si, ci, form = p
        _, _, m, sshape = _sub_gates()[si]
        n, cvals, cshape = _CTRL[ci]
        return U(G.controlled(m, cshape, _allowed(cvals)), tuple(cshape) + tuple(sshape))

    family("ControlledGate", cg_make, cg_ref, lambda tier: prod(range(len(_sub_gates())), range(len(_CTRL)), (0, 1, 2)),
           "structured")
    family("ControlledGate[nested, sum-of-products]",
           lambda p: (cirq.ControlledGate(cirq.ControlledGate(_sub_gates()[p[0]][1], control_values=[0]), control_values=[1]) if p[1] == 0
                      else cirq.ControlledGate(_sub_gates()[p[0]][1], control_values=cirq.SumOfProducts([(0, 1), (1, 0)]))),
           lambda p: U(G.controlled(_sub_gates()[p[0]][2], (2, 2), [(1, 0)] if p[1] == 0 else [(0, 1), (1, 0)]),
                       (2, 2) + tuple(_sub_gates()[p[0]][3])),
           lambda tier: prod(range(len(_sub_gates())), (0, 1)), "structured")
    family("ControlledGate[of mixture]",
           lambda p: cirq.ControlledGate(cirq.bit_flip(p[0]), control_values=[p[1]]),
           lambda p: K([G.controlled(k / np.sqrt(w), (2,), [(p[1],)]) * np.sqrt(w)
                        for k, w in zip(G.k_bit_flip(p[0]), (1 - p[0], p[0])) if w > 0], (2, 2)),
           lambda tier: prod((0.1, 0.5, abs(core.generic(_SEED, 2)) % 1), (0, 1)), "structured")
    family("ParallelGate",
           lambda p: cirq.ParallelGate(_sub_gates()[p[0]][1], p[1]),
           lambda p: U(G.parallel(_sub_gates()[p[0]][2], p[1]), (2,) * p[1]),
           lambda tier: prod((0, 1, 4, 5, 6), (1, 2, 3)), "structured")
    family("WaitGate",
           lambda p: cirq.WaitGate(cirq.Duration(nanos=p[1]), qid_shape=p[0]) if p[2] else cirq.WaitGate(cirq.Duration(nanos=p[1]), num_qubits=len(p[0])),
           lambda p: U(G.identity(p[0]), p[0]),
           lambda tier: [((2,), 0, 0), ((2,), 10, 0), ((2, 2), 5, 0), ((3,), 5, 1), ((2, 3), 1, 1), ((2, 2, 2), 7, 0)], "structured")


# --- Clifford gates (defined by their action on Paulis; global phase is not defined) --------------------

_PXZ = [(p, s) for p in "XYZ" for s in (False, True)]
_CLIFF_NAMED = {
    "I": G.CONST["I"], "X": G.CONST["X"], "Y": G.CONST["Y"], "Z": G.CONST["Z"], "H": G.CONST["H"], "S": G.CONST["S"],
    "X_sqrt": G.xpow(0.5), "X_nsqrt": G.xpow(-0.5), "Y_sqrt": G.ypow(0.5), "Y_nsqrt": G.ypow(-0.5),
    "Z_sqrt": G.zpow(0.5), "Z_nsqrt": G.zpow(-0.5), "CNOT": G.CONST["CNOT"], "CZ": G.CONST["CZ"], "SWAP": G.CONST["SWAP"],
}
_CLIFF_OPS = [
    ("H0", lambda q: cirq.H(q[0]), lambda: E.embed(G.CONST["H"], [0], (2, 2))),
    ("S1", lambda q: cirq.S(q[1]), lambda: E.embed(G.CONST["S"], [1], (2, 2))),
    ("CNOT01", lambda q: cirq.CNOT(q[0], q[1]), lambda: G.CONST["CNOT"]),
    ("CNOT10", lambda q: cirq.CNOT(q[1], q[0]), lambda: E.embed(G.CONST["CNOT"], [1, 0], (2, 2))),
    ("CZ", lambda q: cirq.CZ(q[0], q[1]), lambda: G.CONST["CZ"]),
    ("Y0", lambda q: cirq.Y(q[0]), lambda: E.embed(G.CONST["Y"], [0], (2, 2))),
    ("X1^.5", lambda q: (cirq.X ** 0.5)(q[1]), lambda: E.embed(G.xpow(0.5), [1], (2, 2))),
]


def _reg_clifford():
    def xz_valid(p):
        return p[0] != p[2]

    family("SingleQubitCliffordGate.from_xz_map",
           lambda p: cirq.SingleQubitCliffordGate.from_xz_map((_PAULI[p[0]], bool(p[1])), (_PAULI[p[2]], bool(p[3]))),
           lambda p: ("C", [((-1) ** p[1] * G.PAULI[p[0]]), ((-1) ** p[3] * G.PAULI[p[2]])], (2,)),
           lambda tier: (p for p in prod("XYZ", (0, 1), "XYZ", (0, 1)) if xz_valid(p)), "clifford")
    family("SingleQubitCliffordGate.all_single_qubit_cliffords",
           lambda p: cirq.SingleQubitCliffordGate.all_single_qubit_cliffords[p[0]],
           lambda p: ("Cself", None, (2,)), lambda tier: ((k,) for k in range(24)), "clifford")
    family("CliffordGate[named]",
           lambda p: getattr(cirq.CliffordGate if p[0] in ("CNOT", "CZ", "SWAP") else cirq.SingleQubitCliffordGate, p[0]),
           lambda p: P(_CLIFF_NAMED[p[0]], (2,) * (2 if p[0] in ("CNOT", "CZ", "SWAP") else 1)),
           lambda tier: ((k,) for k in _CLIFF_NAMED), "clifford")
    family("SingleQubitCliffordGate.from_pauli",
           lambda p: cirq.SingleQubitCliffordGate.from_pauli(_PAULI[p[0]], sqrt=bool(p[1])),
           lambda p: P({"X": G.xpow, "Y": G.ypow, "Z": G.zpow}[p[0]](0.5 if p[1] else 1.0), (2,)),
           lambda tier: prod("XYZ", (0, 1)), "clifford")
    family("SingleQubitCliffordGate.from_quarter_turns",
           lambda p: cirq.SingleQubitCliffordGate.from_quarter_turns(_PAULI[p[0]], p[1]),
           lambda p: P({"X": G.xpow, "Y": G.ypow, "Z": G.zpow}[p[0]](p[1] / 2), (2,)),
           lambda tier: prod("XYZ", range(-4, 6)), "clifford")
    family("CliffordGate.from_op_list",
           lambda p: cirq.CliffordGate.from_op_list([_CLIFF_OPS[i][1](cirq.LineQubit.range(2)) for i in p[0]], cirq.LineQubit.range(2)),
           lambda p: P(E.apply_ops([(_CLIFF_OPS[i][2](), [0, 1]) for i in p[0]], (2, 2)), (2, 2)),
           lambda tier: ((seq,) for L in ((1, 2) if tier == "quick" else (1, 2, 3)) for seq in prod(range(len(_CLIFF_OPS)), repeat=L)),
           "clifford")


# --- channels ----------------------------------------------------------------------------------------


def _asym_triples():
    """All triples over {0, 0.1, 0.25, 0.5, 1} with sum <= 1, plus a fixed set of shapes built from the generic value."""
    vals = (0, 0.1, 0.25, 0.5, 1)
    out = [t for t in prod(vals, vals, vals) if sum(t) <= 1 + 1e-12]
    q = abs(core.generic(_SEED, 2)) % 1
    out += [(q, 0, 0), (0, q, 0), (0, 0, q), (q / 3, q / 3, q / 3), (q / 2, q / 4, q / 8), (q, (1 - q) / 2, (1 - q) / 2),
            (q / 8, 1 - q, q / 2)]
    return out


_ERRDICTS = [
    {"X": 0.1}, {"I": 0.7, "Z": 0.3}, {"XX": 0.2}, {"II": 0.5, "XY": 0.25, "ZI": 0.25}, {"YZ": 1.0},
    {"IX": 0.1, "YI": 0.2, "ZZ": 0.3}, {"XYZ": 0.5}, {"III": 0.25, "XXX": 0.25, "IYI": 0.5},
]
_RG_SUBS = [
    ("X", lambda: cirq.X, lambda: [G.CONST["X"]], (2,)),
    ("Z**g", lambda: cirq.Z ** core.generic(_SEED, 0), lambda: [G.zpow(core.generic(_SEED, 0))], (2,)),
    ("CNOT", lambda: cirq.CNOT, lambda: [G.CONST["CNOT"]], (2, 2)),
    ("bit_flip(.3)", lambda: cirq.bit_flip(0.3), lambda: G.k_bit_flip(0.3), (2,)),
    ("amplitude_damp(.2)", lambda: cirq.amplitude_damp(0.2), lambda: G.k_amplitude_damp(0.2), (2,)),
    ("X[d=3]", lambda: cirq.XPowGate(dimension=3), lambda: [G.xpow(1, 0, 3)], (3,)),
]


def _kraus_sets():
    g = abs(core.generic(_SEED, 2)) % 1
    return [
        (G.k_generalized_amplitude_damp(0.3, g), (2,)), (G.k_depolarize(g, 2), (2, 2)), (G.k_amplitude_damp(0.5), (2,)),
        ([E.generic_unitary(4, _SEED)], (2, 2)), (G.k_tensor(G.k_phase_damp(0.3), G.k_bit_flip(g)), (2, 2)),
        (G.k_reset(2), (2,)),
    ]


def _mixtures():
    g = abs(core.generic(_SEED, 2)) % 1
    return [
        ([(0.5, G.CONST["X"]), (0.5, G.CONST["H"])], (2,)), ([(g, G.CONST["CNOT"]), (1 - g, G.identity((2, 2)))], (2, 2)),
        ([(0.2, E.generic_unitary(2, _SEED)), (0.3, G.CONST["Z"]), (0.5, G.CONST["S"])], (2,)), ([(1.0, G.CONST["ISWAP"])], (2, 2)),
    ]


def _reg_channels():
    one = lambda tier: ((p,) for p in probs())
    family("BitFlipChannel", lambda p: cirq.BitFlipChannel(p[0]), lambda p: K(G.k_bit_flip(p[0]), (2,)), one, "channels")
    family("cirq.bit_flip", lambda p: cirq.bit_flip(p[0]), lambda p: K(G.k_bit_flip(p[0]), (2,)), one, "channels")
    family("cirq.bit_flip()", lambda p: cirq.bit_flip(), lambda p: U(G.CONST["X"], (2,)), lambda tier: [()], "channels")
    family("PhaseFlipChannel", lambda p: cirq.PhaseFlipChannel(p[0]), lambda p: K(G.k_phase_flip(p[0]), (2,)), one, "channels")
    family("cirq.phase_flip", lambda p: cirq.phase_flip(p[0]), lambda p: K(G.k_phase_flip(p[0]), (2,)), one, "channels")
    family("cirq.phase_flip()", lambda p: cirq.phase_flip(), lambda p: U(G.CONST["Z"], (2,)), lambda tier: [()], "channels")
    family("DepolarizingChannel", lambda p: cirq.DepolarizingChannel(p[0], p[1]),
           lambda p: K(G.k_depolarize(p[0], p[1]), (2,) * p[1]),
           lambda tier: prod(probs(), (1, 2) if tier == "quick" else (1, 2, 3)), "channels")
    family("cirq.depolarize", lambda p: cirq.depolarize(p[0], n_qubits=p[1]),
           lambda p: K(G.k_depolarize(p[0], p[1]), (2,) * p[1]), lambda tier: prod(probs(), (1, 2)), "channels")
    family("AsymmetricDepolarizingChannel", lambda p: cirq.AsymmetricDepolarizingChannel(p_x=p[0], p_y=p[1], p_z=p[2]),
           lambda p: K(G.k_asymmetric_depolarize(*p), (2,)), lambda tier: _asym_triples(), "channels")
    family("cirq.asymmetric_depolarize", lambda p: cirq.asymmetric_depolarize(p[0], p[1], p[2]),
           lambda p: K(G.k_asymmetric_depolarize(*p), (2,)), lambda tier: _asym_triples(), "channels")
    family("AsymmetricDepolarizingChannel[error_probabilities]",
           lambda p: (cirq.AsymmetricDepolarizingChannel(error_probabilities=dict(_ERRDICTS[p[0]])) if p[1] == 0
                      else cirq.asymmetric_depolarize(error_probabilities=dict(_ERRDICTS[p[0]]))),
           lambda p: K(G.k_pauli_mixture(_ERRDICTS[p[0]]), (2,) * len(next(iter(_ERRDICTS[p[0]])))),
           lambda tier: prod(range(len(_ERRDICTS)), (0, 1)), "channels")
    family("AmplitudeDampingChannel", lambda p: cirq.AmplitudeDampingChannel(p[0]), lambda p: K(G.k_amplitude_damp(p[0]), (2,)), one, "channels")
    family("cirq.amplitude_damp", lambda p: cirq.amplitude_damp(p[0]), lambda p: K(G.k_amplitude_damp(p[0]), (2,)), one, "channels")
    family("GeneralizedAmplitudeDampingChannel", lambda p: cirq.GeneralizedAmplitudeDampingChannel(p[0], p[1]),
           lambda p: K(G.k_generalized_amplitude_damp(p[0], p[1]), (2,)), lambda tier: prod(probs(), probs()), "channels")
    family("cirq.generalized_amplitude_damp", lambda p: cirq.generalized_amplitude_damp(p[0], p[1]),
           lambda p: K(G.k_generalized_amplitude_damp(p[0], p[1]), (2,)), lambda tier: prod(probs(), probs()), "channels")
    family("PhaseDampingChannel", lambda p: cirq.PhaseDampingChannel(p[0]), lambda p: K(G.k_phase_damp(p[0]), (2,)), one, "channels")
    family("cirq.phase_damp", lambda p: cirq.phase_damp(p[0]), lambda p: K(G.k_phase_damp(p[0]), (2,)), one, "channels")
    family("ResetChannel", lambda p: cirq.ResetChannel(p[0]) if p[0] != 2 or p[1] else cirq.ResetChannel(),
           lambda p: K(G.k_reset(p[0]), (p[0],)), lambda tier: prod((2, 3, 4, 5), (0, 1)), "channels")
    family("cirq.reset", lambda p: cirq.reset(cirq.LineQid(0, dimension=p[0])).gate, lambda p: K(G.k_reset(p[0]), (p[0],)),
           lambda tier: ((d,) for d in (2, 3, 4)), "channels")
    family("RandomGateChannel",
           lambda p: (cirq.RandomGateChannel(sub_gate=_RG_SUBS[p[0]][1](), probability=p[1]) if p[2] == 0
                      else _RG_SUBS[p[0]][1]().with_probability(p[1])),
           lambda p: K(G.k_random_gate(_RG_SUBS[p[0]][2](), p[1]), _RG_SUBS[p[0]][3]),
           lambda tier: prod(range(len(_RG_SUBS)), probs(), (0, 1)), "channels")
    # wrapped again (construction history): "apply (apply G w.p. p) w.p. q" = apply G w.p. p*q; third level r too
    def _rg_nested(p):
        g = _RG_SUBS[p[0]][1]().with_probability(p[1])
        g = cirq.RandomGateChannel(sub_gate=g, probability=p[2]) if p[4] == 0 else g.with_probability(p[2])
        if p[3] is not None:
            g = g.with_probability(p[3])
        return g

    family("RandomGateChannel[nested]", _rg_nested,
           lambda p: K(G.k_random_gate(_RG_SUBS[p[0]][2](), p[1] * p[2] * (1 if p[3] is None else p[3])), _RG_SUBS[p[0]][3]),
           lambda tier: prod(range(len(_RG_SUBS)), (0.1, 0.5, 1), (0.25, 0.5, 1), (None, 0.75), (0, 1)), "channels")
    family("KrausChannel",
           lambda p: cirq.KrausChannel(_kraus_sets()[p[0]][0], key=("k" if p[1] else None), validate=bool(p[1])),
           lambda p: K(_kraus_sets()[p[0]][0], _kraus_sets()[p[0]][1]),
           lambda tier: prod(range(len(_kraus_sets())), (0, 1)), "channels")
    family("KrausChannel.from_channel",
           lambda p: cirq.KrausChannel.from_channel(cirq.generalized_amplitude_damp(p[0], p[1])),
           lambda p: K(G.k_generalized_amplitude_damp(p[0], p[1]), (2,)), lambda tier: prod((0.1, 0.5), (0.1, 1)), "channels")
    family("MixedUnitaryChannel",
           lambda p: cirq.MixedUnitaryChannel(_mixtures()[p[0]][0], key=("k" if p[1] else None), validate=bool(p[1])),
           lambda p: K(G.k_mixture(_mixtures()[p[0]][0]), _mixtures()[p[0]][1]),
           lambda tier: prod(range(len(_mixtures())), (0, 1)), "channels")
    family("MixedUnitaryChannel.from_mixture",
           lambda p: cirq.MixedUnitaryChannel.from_mixture(cirq.depolarize(p[0], n_qubits=p[1])),
           lambda p: K(G.k_depolarize(p[0], p[1]), (2,) * p[1]), lambda tier: prod((0.1, 0.5), (1, 2)), "channels")

    def sp_state(p):
        kind, n = p
        D = 2 ** n
        if kind == "generic":
            return E.generic_state(D, _SEED)
        if kind == "unnormalised":
            return 3.0 * E.generic_state(D, _SEED + 1)
        if kind == "plus":
            return np.ones(D, dtype=np.complex128) / math.sqrt(D)
        v = np.zeros(D, dtype=np.complex128)
        v[int(kind) % D] = 1
        return v

    family("StatePreparationChannel", lambda p: cirq.StatePreparationChannel(sp_state(p)),
           lambda p: K(G.k_state_preparation(sp_state(p)), (2,) * p[1]),
           lambda tier: prod(("generic", "unnormalised", "plus", "0", "1", "5"), (1, 2, 3)), "channels")
    family("MeasurementGate",
           lambda p: cirq.MeasurementGate(qid_shape=p[0], key="m", invert_mask=tuple(bool(b) for b in p[1])),
           lambda p: K(G.k_measurement(p[0]), p[0]),
           lambda tier: [((2,), ()), ((2,), (1,)), ((2, 2), (0, 1)), ((3,), ()), ((2, 3), (1,)), ((2, 2, 2), ())], "channels")


# --- vendor gates -------------------------------------------------------------------------------------


def _reg_vendor():
    family("SycamoreGate", lambda p: cirq_google.SycamoreGate(), lambda p: U(G.sycamore(), (2, 2)), lambda tier: [()], "vendor")
    family("WillowGate", lambda p: cirq_google.WillowGate(), lambda p: U(G.willow(), (2, 2)), lambda tier: [()], "vendor")
    try:
        import tunits as tu

        family("WaitGateWithUnit",
               lambda p: cirq_google.WaitGateWithUnit(p[1] * tu.ns, qid_shape=p[0]) if p[2] else cirq_google.WaitGateWithUnit(p[1] * tu.ns, num_qubits=len(p[0])),
               lambda p: U(G.identity(p[0]), p[0]),
               lambda tier: [((2,), 0, 0), ((2, 2), 5, 0), ((3,), 5, 1), ((2, 3), 1, 1)], "vendor")
    except ImportError:  # pragma: no cover
        pass
    family("ionq.GPIGate", lambda p: cirq_ionq.GPIGate(phi=p[0]), lambda p: U(G.ionq_gpi(p[0]), (2,)),
           lambda tier: ((t,) for t in exps() + (0.125, 0.1)), "vendor")
    family("ionq.GPI2Gate", lambda p: cirq_ionq.GPI2Gate(phi=p[0]), lambda p: U(G.ionq_gpi2(p[0]), (2,)),
           lambda tier: ((t,) for t in exps() + (0.125, 0.1)), "vendor")
    family("ionq.MSGate", lambda p: cirq_ionq.MSGate(phi0=p[0], phi1=p[1], theta=p[2]),
           lambda p: U(G.ionq_ms(p[0], p[1], p[2]), (2, 2)),
           lambda tier: prod(exps() + (0.125,), exps(3) + (0.1,), (0.25, 0, 0.125, -0.25, 1, core.generic(_SEED, 4))), "vendor")
    family("ionq.MSGate[default theta]", lambda p: cirq_ionq.MSGate(phi0=p[0], phi1=p[1]),
           lambda p: U(G.ionq_ms(p[0], p[1], 0.25), (2, 2)), lambda tier: prod(small(), small(3)), "vendor")
    family("ionq.ZZGate", lambda p: cirq_ionq.ZZGate(theta=p[0]), lambda p: U(G.ionq_zz(p[0]), (2, 2)),
           lambda tier: ((t,) for t in exps() + (0.125, 0.1)), "vendor")


# --- named constants ------------------------------------------------------------------------------------

# name -> (module, textbook key in G.CONST or callable, family reference at the documented parameters, shape)
_CONSTANTS = {
    "cirq.I": ("I", lambda: G.identity((2,)), 1), "cirq.X": ("X", lambda: G.xpow(1), 1), "cirq.Y": ("Y", lambda: G.ypow(1), 1),
    "cirq.Z": ("Z", lambda: G.zpow(1), 1), "cirq.H": ("H", lambda: G.hpow(1), 1), "cirq.S": ("S", lambda: G.zpow(0.5), 1),
    "cirq.T": ("T", lambda: G.zpow(0.25), 1),
    "cirq.CNOT": ("CNOT", lambda: G.cxpow(1), 2), "cirq.CX": ("CNOT", lambda: G.cxpow(1), 2), "cirq.CY": ("CY", lambda: G.cypow(1), 2),
    "cirq.CZ": ("CZ", lambda: G.czpow(1), 2), "cirq.SWAP": ("SWAP", lambda: G.swappow(1), 2),
    "cirq.ISWAP": ("ISWAP", lambda: G.iswappow(1), 2), "cirq.ISWAP_INV": ("ISWAP_INV", lambda: G.iswappow(-1), 2),
    "cirq.SQRT_ISWAP": ("SQRT_ISWAP", lambda: G.iswappow(0.5), 2), "cirq.SQRT_ISWAP_INV": ("SQRT_ISWAP_INV", lambda: G.iswappow(-0.5), 2),
    "cirq.XX": ("XX", lambda: G.xxpow(1), 2), "cirq.YY": ("YY", lambda: G.yypow(1), 2), "cirq.ZZ": ("ZZ", lambda: G.zzpow(1), 2),
    "cirq.CCX": ("CCX", lambda: G.ccxpow(1), 3), "cirq.CCNOT": ("CCX", lambda: G.ccxpow(1), 3), "cirq.TOFFOLI": ("CCX", lambda: G.ccxpow(1), 3),
    "cirq.CCY": ("CCY", lambda: G.ccypow(1), 3), "cirq.CCZ": ("CCZ", lambda: G.cczpow(1), 3),
    "cirq.CSWAP": ("CSWAP", lambda: G.cswap(), 3), "cirq.FREDKIN": ("CSWAP", lambda: G.cswap(), 3),
    "cirq.CXSWAP": ("CXSWAP~", lambda: G.CONST["SWAP"] @ G.cxpow(1), 2), "cirq.CZSWAP": ("CZSWAP~", lambda: G.CONST["SWAP"] @ G.czpow(1), 2),
    "cirq_google.SYC": (G.sycamore, lambda: G.fsim(math.pi / 2, math.pi / 6), 2),
    "cirq_google.WILLOW": (G.willow, lambda: G.fsim(math.pi / 2, math.pi / 9), 2),
    "cirq_ionq.ionq_native_gates.GPI": ("X", lambda: G.ionq_gpi(0), 1),
    "cirq_ionq.ionq_native_gates.GPI2": (lambda: G.rx(math.pi / 2), lambda: G.ionq_gpi2(0), 1),
    "cirq_ionq.ionq_native_gates.MS": (lambda: G.ms(math.pi / 4), lambda: G.ionq_ms(0, 0, 0.25), 2),
    "cirq_ionq.ionq_native_gates.ZZ": (lambda: G.identity((2, 2)), lambda: G.ionq_zz(0), 2),
    "cirq.PauliInteractionGate.CZ": ("CZ", lambda: G.pauli_interaction("Z", False, "Z", False, 1), 2),
    "cirq.PauliInteractionGate.CNOT": ("CNOT", lambda: G.pauli_interaction("Z", False, "X", False, 1), 2),
}


def _resolve_name(name):
    parts = name.split(".")
    obj = {"cirq": cirq, "cirq_google": cirq_google, "cirq_ionq": cirq_ionq}[parts[0]]
    for a in parts[1:]:
        obj = getattr(obj, a)
    return obj


def _reg_constants():
    def ref(p):
        key, famref, n = _CONSTANTS[p[0]]
        up_to_phase = isinstance(key, str) and key.endswith("~")
        m = G.CONST[key.rstrip("~")] if isinstance(key, str) else key()
        f = famref()
        if not np.allclose(m, f, atol=1e-12):
            raise core.HarnessError(f"reference tables disagree for {p[0]}")
        return (P if up_to_phase else U)(m, (2,) * n)

    family("named constant", lambda p: _resolve_name(p[0]), ref, lambda tier: ((k,) for k in _CONSTANTS), "named_constants")


# ------------------------------------------------------------------------------------------------

_REGISTERED_FOR = None


def _init(seed):
    global _SEED, _REGISTERED_FOR
    if _REGISTERED_FOR == seed:
        return
    _SEED = seed
    FAM.clear()
    _reg_eigen()
    _reg_rotations()
    _reg_structured()
    _reg_clifford()
    _reg_channels()
    _reg_vendor()
    _reg_constants()
    _REGISTERED_FOR = seed


# ------------------------------------------------------------------------------------------------
# the oracle


def _fmt(m):
    return np.array2string(np.asarray(m), precision=6, suppress_small=True, max_line_width=160, threshold=300)


def _is_identity(m):
    m = np.asarray(m)
    return m.shape[0] == m.shape[1] and np.allclose(m, np.eye(m.shape[0]), atol=1e-6)


def _cmp_unitary(label, got, ref, exact=True):
    got = np.asarray(got)
    if got.shape != ref.shape:
        return f"{label}: cirq.unitary has shape {got.shape}, reference {ref.shape}"
    ok = E.eq_exact(ref, got, ATOL) if exact else E.eq_up_to_phase(ref, got, ATOL)
    if not ok:
        diff = np.abs(got - ref) if exact else np.abs(E.phase_of(ref, got) * got - ref)
        i = np.unravel_index(int(np.argmax(diff)), diff.shape)
        return (f"{label}: cirq.unitary differs from the documented closed form{'' if exact else ' (even up to global phase)'}: "
                f"max |diff| = {diff.max():.3g} at entry {tuple(int(x) for x in i)}: got {got[i]:.9g}, reference {ref[i]:.9g}\n"
                f"got =\n{_fmt(got)}\nreference =\n{_fmt(ref)}")
    return None


def check_gate(label, g, spec):
    """Compare one gate instance with its reference spec; returns Res."""
    kind, data, shape = spec
    cnt = {"instances": 1, "n_" + type(g).__name__: 1}
    qs = tuple(cirq.qid_shape(g))
    if qs != tuple(shape):
        return bad(f"{label}: cirq.qid_shape = {qs}, documented {tuple(shape)}", kind="shape")
    if cirq.num_qubits(g) != len(shape):
        return bad(f"{label}: cirq.num_qubits = {cirq.num_qubits(g)}, documented {len(shape)}", kind="shape")
    cnt["shape_checked"] = 1
    D = int(np.prod(shape)) if len(shape) else 1
    if kind in ("U", "P", "S", "C", "Cself"):
        if not cirq.has_unitary(g):
            return bad(f"{label}: cirq.has_unitary is False for a unitary gate", kind="has_unitary")
        u = cirq.unitary(g)
        if np.asarray(u).shape != (D, D):
            return bad(f"{label}: cirq.unitary has shape {np.asarray(u).shape}, expected {(D, D)}", kind="shape")
        if not np.allclose(u @ u.conj().T, np.eye(D), atol=ATOL):
            return bad(f"{label}: cirq.unitary is not unitary\n{_fmt(u)}", kind="not_unitary")
        cnt["unitary_checked"] = 1
        nontrivial = True
        if kind in ("U", "P"):
            msg = _cmp_unitary(label, u, data, exact=(kind == "U"))
            if msg:
                return bad(msg, kind="unitary", family=label.split("(")[0])
            nontrivial = not _is_identity(data)
            ref_super = np.kron(data, data.conj())
        elif kind == "S":
            v = u[:, 0]
            if not np.allclose(v, data, atol=ATOL):
                return bad(f"{label}: U|0..0> = {_fmt(v)} but the documented state is {_fmt(data)}", kind="state")
            nontrivial = D > 1 and abs(data[0] - 1) > 1e-6
            ref_super = np.kron(u, u.conj())
        else:
            x_img, z_img = (data if kind == "C" else (None, None))
            if kind == "Cself":
                # the gate must at least be a Clifford: X and Z are mapped to +-Paulis, consistently with pauli_tuple()
                imgs = []
                for pl in (cirq.X, cirq.Z):
                    pt = g.pauli_tuple(pl)
                    imgs.append((-1 if pt[1] else 1) * G.PAULI[str(pt[0])])
                x_img, z_img = imgs
            for nm, src, img in (("X", G.PX, x_img), ("Z", G.PZ, z_img)):
                c = u @ src @ u.conj().T
                if not np.allclose(c, img, atol=ATOL):
                    return bad(f"{label}: U {nm} U^dag =\n{_fmt(c)}\nbut the gate is documented to map {nm} to\n{_fmt(img)}", kind="clifford")
            nontrivial = not E.eq_up_to_phase(np.eye(2), u, 1e-6)
            ref_super = np.kron(u, u.conj())
        if D <= 16:
            ks = cirq.kraus(g)
            sup = G.superop(ks)
            if sup.shape != ref_super.shape or not np.allclose(sup, ref_super, atol=ATOL_SUPER):
                return bad(f"{label}: superoperator of cirq.kraus differs from that of the documented unitary", kind="kraus_of_unitary")
            cnt["kraus_checked"] = 1
            # cirq.mixture is documented to use only _mixture_/_unitary_ (no decomposition fallback): None = not offered
            mx = cirq.mixture(g, None)
            if mx is not None:
                if abs(sum(p for p, _ in mx) - 1) > ATOL or not np.allclose(sum(p * np.kron(m, np.conj(m)) for p, m in mx), ref_super, atol=ATOL_SUPER):
                    return bad(f"{label}: cirq.mixture differs from the documented unitary", kind="mixture_of_unitary")
                cnt["mixture_checked"] = 1
        return Res(ok=True, nontrivial=nontrivial, counters=cnt)
    if kind == "K":
        ref_super = G.superop(data)
        if not cirq.has_kraus(g):
            return bad(f"{label}: cirq.has_kraus is False", kind="has_kraus")
        ks = cirq.kraus(g)
        for k in ks:
            if np.asarray(k).shape != (D, D):
                return bad(f"{label}: Kraus operator of shape {np.asarray(k).shape}, expected {(D, D)}", kind="shape")
        sup = G.superop(ks)
        if not np.allclose(sup, ref_super, atol=ATOL_SUPER):
            d = np.abs(sup - ref_super)
            return bad(f"{label}: superoperator sum K(x)K* of cirq.kraus differs from the documented channel: max |diff| = {d.max():.3g}\n"
                       f"got Kraus operators:\n" + "\n".join(_fmt(k) for k in ks) + "\nreference Kraus operators:\n" + "\n".join(_fmt(k) for k in data),
                       kind="kraus", family=label.split("(")[0])
        comp = sum(np.asarray(k).conj().T @ np.asarray(k) for k in ks)
        if not np.allclose(comp, np.eye(D), atol=ATOL_SUPER):
            return bad(f"{label}: Kraus operators are not trace preserving: sum K^dag K =\n{_fmt(comp)}", kind="kraus")
        cnt["kraus_checked"] = 1
        if cirq.has_mixture(g):
            mx = cirq.mixture(g)
            tot = sum(p for p, _ in mx)
            if abs(tot - 1) > ATOL_SUPER or any(p < -ATOL for p, _ in mx):
                return bad(f"{label}: cirq.mixture probabilities {[p for p, _ in mx]} are not a distribution", kind="mixture")
            for p, m in mx:
                if p > ATOL and not np.allclose(np.asarray(m) @ np.asarray(m).conj().T, np.eye(D), atol=ATOL_SUPER):
                    return bad(f"{label}: cirq.mixture contains a non-unitary component\n{_fmt(m)}", kind="mixture")
            sup = sum(p * np.kron(m, np.conj(m)) for p, m in mx)
            if not np.allclose(sup, ref_super, atol=ATOL_SUPER):
                return bad(f"{label}: superoperator of cirq.mixture differs from the documented channel: mixture = "
                           + "; ".join(f"p={p:.6g}:\n{_fmt(m)}" for p, m in mx), kind="mixture", family=label.split("(")[0])
            cnt["mixture_checked"] = 1
        if cirq.has_unitary(g):
            u = cirq.unitary(g)
            if not np.allclose(np.kron(u, u.conj()), ref_super, atol=ATOL_SUPER):
                return bad(f"{label}: claims a unitary that differs from the documented channel", kind="unitary")
            cnt["unitary_checked"] = 1
        return Res(ok=True, nontrivial=not _is_identity(ref_super), counters=cnt)
    raise core.HarnessError(f"unknown reference kind {kind}")


def _label(case):
    return f"{case[0]}({', '.join(repr(x) for x in case[1])})"


def run_family(case):
    name, params = case
    make, ref, _, _ = FAM[name]
    g = make(params)
    return check_gate(_label(case), g, ref(params))


def describe(case):
    return {"family": case[0], "params": case[1]}


# ------------------------------------------------------------------------------------------------
# g**-1 and g**a


_POW_EIGEN = tuple(_EIGEN) + ("XPowGate[d]", "ZPowGate[d]", "PhasedISwapPowGate", "PhasedXPowGate")
_POW_FACTORS = (-1, 0.5, 3, -2.5)
_INV_FAMILIES = (
    "Rx", "Ry", "Rz", "MSGate", "FSimGate", "PhasedFSimGate", "PhasedXZGate", "IdentityGate", "GlobalPhaseGate", "MatrixGate",
    "DiagonalGate", "TwoQubitDiagonalGate", "ThreeQubitDiagonalGate", "CSwapGate", "QuantumFourierTransformGate",
    "PhaseGradientGate", "QubitPermutationGate", "ArithmeticGate", "BooleanHamiltonianGate", "UniformSuperpositionGate",
    "PauliInteractionGate", "PauliStringPhasorGate", "DensePauliString", "MutableDensePauliString", "ControlledGate",
    "ParallelGate", "WaitGate", "SycamoreGate", "WillowGate", "ionq.GPIGate", "ionq.GPI2Gate", "ionq.MSGate", "ionq.ZZGate",
    "named constant", "CliffordGate.from_op_list", "SingleQubitCliffordGate.all_single_qubit_cliffords",
    "PhasedFSimGate.from_fsim_rz", "WaitGateWithUnit",
)


_INV_FILTER = {"PhasedXZGate": (0, 1, 2), "PhasedFSimGate": (0, 1, 2, 3, 4), "ionq.MSGate": (0, 1, 2), "PauliInteractionGate": (4,),
               "PauliStringPhasorGate": (2, 3), "FSimGate": (0, 1), "PhasedFSimGate.from_fsim_rz": (0, 1, 2, 3, 4, 5)}


def _ref_unitary(name, params):
    kind, data, shape = FAM[name][1](params)
    return kind, data, shape


def run_pow(case):
    name, params, factor = case
    make, ref, _, _ = FAM[name]
    g = make(params)
    label = f"({_label((name, params))})**{factor!r}"
    if name in _POW_EIGEN:
        g2 = g ** factor
        p2 = (params[0] * factor,) + tuple(params[1:])
        spec = ref(p2)
        r = check_gate(label, g2, spec)
        return r
    # generic inverse
    try:
        inv = cirq.inverse(g, None)
    except ValueError:
        return Res(skipped=True, nontrivial=False)
    if inv is None:
        return Res(skipped=True, nontrivial=False)
    try:
        kind, data, shape = ref(params)
    except ValueError:
        return Res(skipped=True, nontrivial=False)
    if kind in ("U", "P"):
        spec = (kind, G.dag(data), shape)
        return check_gate(label, inv, spec)
    # S / C / Cself: inverse must invert cirq's own unitary
    if not cirq.has_unitary(inv):
        return bad(f"{label}: the inverse has no unitary", kind="inverse")
    u, ui = cirq.unitary(g), cirq.unitary(inv)
    exact = kind == "S"
    prod_ = ui @ u
    ok = np.allclose(prod_, np.eye(u.shape[0]), atol=ATOL) if exact else E.eq_up_to_phase(np.eye(u.shape[0]), prod_, ATOL)
    if not ok:
        return bad(f"{label}: unitary(g**-1) @ unitary(g) =\n{_fmt(prod_)}", kind="inverse")
    return good(nontrivial=not _is_identity(u), instances=1, unitary_checked=1)


def describe_pow(case):
    return {"family": case[0], "params": case[1], "power": case[2]}


# ------------------------------------------------------------------------------------------------
# symbol resolution: gate built with sympy symbols has no unitary; after resolve_parameters it has the documented one

_SYMS = [sympy.Symbol(n) for n in ("t", "u", "v", "w", "x", "y")]


def _sym_families():
    out = {}
    for name in _EIGEN:
        cls = _EIGEN[name][0]
        out[name] = (lambda sy, p, cls=cls: cls(exponent=sy[0], global_shift=p[1]), 1)
    out["XPowGate[d]"] = (lambda sy, p: cirq.XPowGate(exponent=sy[0], global_shift=p[1], dimension=p[2]), 1)
    out["ZPowGate[d]"] = (lambda sy, p: cirq.ZPowGate(exponent=sy[0], global_shift=p[1], dimension=p[2]), 1)
    out["PhasedISwapPowGate"] = (lambda sy, p: cirq.PhasedISwapPowGate(exponent=sy[0], phase_exponent=sy[1], global_shift=p[2]), 2)
    out["PhasedXPowGate"] = (lambda sy, p: cirq.PhasedXPowGate(exponent=sy[0], phase_exponent=sy[1], global_shift=p[2]), 2)
    out["PhasedXZGate"] = (lambda sy, p: cirq.PhasedXZGate(x_exponent=sy[0], z_exponent=sy[1], axis_phase_exponent=sy[2]), 3)
    out["Rx"] = (lambda sy, p: cirq.Rx(rads=sy[0]), 1)
    out["Ry"] = (lambda sy, p: cirq.Ry(rads=sy[0]), 1)
    out["Rz"] = (lambda sy, p: cirq.Rz(rads=sy[0]), 1)
    out["cirq.rx"] = (lambda sy, p: cirq.rx(sy[0]), 1)
    out["cirq.cphase"] = (lambda sy, p: cirq.cphase(sy[0]), 1)
    out["cirq.riswap"] = (lambda sy, p: cirq.riswap(sy[0]), 1)
    out["cirq.givens"] = (lambda sy, p: cirq.givens(sy[0]), 1)
    out["FSimGate"] = (lambda sy, p: cirq.FSimGate(theta=sy[0], phi=sy[1]), 2)
    out["PhasedFSimGate"] = (lambda sy, p: cirq.PhasedFSimGate(theta=sy[0], zeta=sy[1], chi=sy[2], gamma=sy[3], phi=sy[4]), 5)
    out["PhaseGradientGate"] = (lambda sy, p: cirq.PhaseGradientGate(num_qubits=p[0], exponent=sy[1]), -1)
    out["PauliInteractionGate"] = (lambda sy, p: cirq.PauliInteractionGate(_PAULI[p[0]], bool(p[1]), _PAULI[p[2]], bool(p[3]), exponent=sy[4]), -4)
    out["PauliStringPhasorGate"] = (lambda sy, p: cirq.PauliStringPhasorGate(cirq.DensePauliString(p[0], coefficient=p[1]), exponent_neg=sy[2], exponent_pos=sy[3]), -23)
    return out


def run_symbolic(case):
    name, params = case
    mk, nsym = _sym_families()[name]
    if nsym > 0:
        idx = list(range(nsym))
    elif nsym == -1:
        idx = [1]
    elif nsym == -4:
        idx = [4]
    else:
        idx = [2, 3]
    sy = list(params)
    for i in idx:
        sy[i] = _SYMS[i]
    g = mk(sy, params)
    label = f"resolve({_label(case)})"
    if not cirq.is_parameterized(g):
        return bad(f"{label}: gate built from symbols is not parameterized", kind="symbolic")
    if cirq.has_unitary(g) or cirq.unitary(g, None) is not None:
        return bad(f"{label}: gate with unresolved symbols claims a unitary", kind="symbolic")
    resolver = cirq.ParamResolver({_SYMS[i].name: params[i] for i in idx})
    g2 = cirq.resolve_parameters(g, resolver)
    if cirq.is_parameterized(g2):
        return bad(f"{label}: still parameterized after resolution", kind="symbolic")
    return check_gate(label, g2, FAM[name][1](params))


# ------------------------------------------------------------------------------------------------
# coverage accounting

_NOT_ENUMERATED = {
    "cirq.Gate": "abstract base class (no matrix)",
    "cirq.EigenGate": "abstract base class; every concrete subclass is enumerated",
    "cirq.ArithmeticGate": "abstract base class; enumerated through the concrete subclasses _Add/_AddFull/_SubSwap/_MulMod defined in this check",
    "cirq.BaseDensePauliString": "abstract base class; DensePauliString and MutableDensePauliString are enumerated",
    "cirq.Pauli": "abstract base class; its three instances cirq.X/Y/Z (classes _PauliX/_PauliY/_PauliZ) are enumerated as named constants",
    "cirq.PauliMeasurementGate": "no matrix protocol (cirq.kraus is undefined; defined by decomposition into basis change + measurement, covered by C02)",
    "cirq_google.InternalGate": "placeholder for hardware-internal gates: no matrix by design",
    "cirq_google.LeakageISWAP": "two-qutrit leakage-removal hardware gate: no documented matrix (placeholder decomposition to identity)",
    "cirq_google.LZSResetViaResonator": "hardware reset placeholder: no _kraus_/_unitary_ (cirq.kraus raises); decomposes to cirq.reset which is enumerated",
    "cirq_google.MultilevelResetViaResonator": "hardware reset placeholder: no _kraus_/_unitary_ (cirq.kraus raises); decomposes to cirq.reset which is enumerated",
    "cirq_google.AnalogDetuneQubit": "analog pulse-level gate: no matrix by design",
    "cirq_google.AnalogDetuneCouplerOnly": "analog pulse-level gate: no matrix by design",
}


def exported_gate_classes():
    out = {}
    for mod in (cirq, cirq_google, cirq_ionq):
        for n in dir(mod):
            o = getattr(mod, n)
            if inspect.isclass(o) and issubclass(o, cirq.Gate):
                out.setdefault(o, f"{mod.__name__}.{n}")
    return out


def exported_gate_constants():
    out = {}
    for mod in (cirq, cirq_google, cirq_ionq, ionq_native):
        for n in dir(mod):
            o = getattr(mod, n)
            if isinstance(o, cirq.Gate) and not n.startswith("_"):
                out[f"{mod.__name__}.{n}"] = o
    return out


def _types_of_cases(chunk):
    _init(_SEED)
    out = set()
    for name, params in chunk:
        try:
            g = FAM[name][0](params)
        except Exception:  # a constructor failure is reported by the family stage itself
            continue
        out.add(type(g))
        sub = getattr(g, "sub_gate", None)
        if sub is not None:
            out.add(type(sub))
    return out


def make_coverage_stage(all_cases):
    def execute():
        res = core.StageResult("coverage_accounting")
        classes = exported_gate_classes()
        seen = set()
        chunks = [all_cases[i:i + 2000] for i in range(0, len(all_cases), 2000)]
        for s in core.pmap(_types_of_cases, chunks):
            seen |= s
        seen_names = {c for c in seen}
        enumerated, excluded, missing = [], [], []
        for cls, qual in sorted(classes.items(), key=lambda kv: kv[1]):
            if cls in seen_names:
                enumerated.append(qual)
            elif qual in _NOT_ENUMERATED:
                # an excluded abstract base must really be covered through subclasses where the reason says so
                excluded.append(qual)
            else:
                missing.append(qual)
        consts = exported_gate_constants()
        const_missing = [n for n in consts if n not in _CONSTANTS]
        print(f"[C03] coverage: {len(classes)} exported cirq.Gate subclasses: {len(enumerated)} enumerated, {len(excluded)} not enumerated:")
        for q in excluded:
            print(f"[C03]   not enumerated: {q} because {_NOT_ENUMERATED[q]}")
        print(f"[C03] coverage: {len(consts)} exported named gate constants, {len(consts) - len(const_missing)} compared")
        if missing or const_missing:
            raise core.HarnessError(f"gate classes exported but neither enumerated nor excluded with a reason: {missing}; "
                                    f"named constants not in the table: {const_missing}")
        stale = [q for q in _NOT_ENUMERATED if q not in classes.values()]
        res.evaluations = len(classes) + len(consts)
        res.distinct_nontrivial_extra = len(enumerated) + len(consts)
        res.counters = {"gate_classes_exported": len(classes), "gate_classes_enumerated": len(enumerated),
                        "gate_classes_not_enumerated_with_reason": len(excluded), "named_constants_exported": len(consts),
                        "named_constants_compared": len(consts) - len(const_missing), "families": len(FAM),
                        "stale_exclusions": len(stale)}
        res.samples = [{"not_enumerated": {q: _NOT_ENUMERATED[q] for q in excluded}}]
        return res

    return CustomStage("coverage_accounting", execute, lambda case: None)


# ------------------------------------------------------------------------------------------------


def stages(tier, seed):
    _init(seed)
    reset = lambda: _init(seed)
    by_stage = {}
    for name, (make, ref, grid, stage) in FAM.items():
        for params in grid(tier):
            by_stage.setdefault(stage, []).append((name, tuple(params)))
    order = ["named_constants", "eigen_gates", "qudit_gates", "rotations_and_factories", "phased_single_qubit", "fsim",
             "structured", "clifford", "channels", "vendor"]
    out = []
    all_cases = []
    for st in order:
        cases = by_stage.pop(st, [])
        all_cases.extend(cases)
        out.append(CaseStage(st, cases, run_family, reset=reset, describe=describe))
    if by_stage:
        raise core.HarnessError(f"stages without a slot: {list(by_stage)}")

    # powers / inverses
    pow_cases = []
    red = (0.25, -0.5, 1, 1.5, core.generic(seed, 0))
    inv_base = (0, 0.25, -0.5, 1, core.generic(seed, 0), core.generic(seed, 3), core.generic(seed, 4))
    inv_red = set(inv_base) | {x * math.pi for x in inv_base} | {math.pi / 2}
    for name in _POW_EIGEN:
        if name not in FAM:
            continue
        for params in FAM[name][2](tier):
            params = tuple(params)
            if params[0] not in red:
                continue
            if len(params) > 2 and name in ("PhasedISwapPowGate", "PhasedXPowGate") and params[1] not in (0.25, core.generic(seed, 3)):
                continue
            for f in _POW_FACTORS:
                pow_cases.append((name, params, f))
    for name in _INV_FAMILIES:
        if name not in FAM:
            continue
        filt = _INV_FILTER.get(name) if (tier == "quick" or name == "PhasedFSimGate") else None
        for params in FAM[name][2](tier):
            params = tuple(params)
            # quick tier (and PhasedFSimGate's 13^5 grid in both tiers): for the families with large exponent/angle grids the
            # inverse is taken on the reduced value set only (the matrices themselves are all checked in the family stages)
            if filt is not None and any(params[i] not in inv_red for i in filt):
                continue
            pow_cases.append((name, params, -1))
    out.append(CaseStage("powers_and_inverses", pow_cases, run_pow, reset=reset, describe=describe_pow))

    # symbol resolution
    sym_cases = []
    symred = (0.25, -0.5, 1, 2.5, 1e-9, core.generic(seed, 0), core.generic(seed, 3), core.generic(seed, 4))
    for name, (mk, nsym) in _sym_families().items():
        for params in FAM[name][2](tier):
            params = tuple(params)
            if name in ("PhasedFSimGate",):
                pass
            elif nsym == -23:
                if params[2] not in symred or params[0] not in ("X", "XZ", "ZIZ"):
                    continue
            elif nsym == -4:
                if params[4] not in symred:
                    continue
            elif nsym == -1:
                if params[1] not in symred:
                    continue
            elif name.startswith(("R", "cirq.")) or name == "FSimGate":
                pass
            elif any(params[i] not in symred for i in range(nsym)):
                continue
            sym_cases.append((name, params))
    if tier == "quick":
        sym_cases = [c for c in sym_cases if c[0] != "PhasedFSimGate" or sum(1 for x in c[1] if x == 0) <= 2]
    out.append(CaseStage("symbol_resolution", sym_cases, run_symbolic, reset=reset, describe=describe))
    out.append(make_coverage_stage(all_cases))
    return out
