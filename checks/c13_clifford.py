"""C13 -- the Clifford / stabilizer subsystem agrees with full state simulation.

Explicit-state searches through the REAL update rules (transition = cirq.act_on(letter, real simulation
state)); next to every real state the harness keeps a dense reference (matrix / vector built from closed-form
letter matrices with mc.ref.embed):

  G1  CliffordTableauSimulationState closure from the identity for n=1 (24 states) and n=2 (11520 states),
      canon = bytes of (xs, zs, rs).  Every transition result is compared with the reference unitary
      (row i of the tableau == U P_i U^dagger with exact sign), the bijection states <-> unitaries mod phase and
      the orbit size are asserted, and in every state: stabilizers fix U|0>, symplectic relations,
      then/inverse/@, CliffordGate.from_clifford_tableau (unitary, powers, ==/hash, _act_on_ with padding),
      decompose_clifford_tableau_to_operations, measurement with scripted randomness (all answers).
  G2  StabilizerChFormSimulationState closure (canon = full tuple of the CH arrays + omega): every reached
      state's state_vector() equals the reference vector exactly INCLUDING global phase; reindex / kron;
      measurement: all 2^k scripted draws, outcome weights and post-measurement vector incl. phase.
  G3  n=3 tableau, depth-bounded BFS with the same per-transition oracle.
plus exhaustive SingleQubitCliffordGate algebra (24 x 24), conversion from/to unitaries for every element x 8
phases, cache-history cases, and CliffordSimulator / StabilizerSampler exact outcome distributions (all scripted
PRNG paths) against the reference interpreter.
"""
from __future__ import annotations

import hashlib
import itertools
import math

import numpy as np
import cirq

from mc import core
from mc.core import CaseStage, CustomStage, Res, StageResult, bad, good
from mc.choices import Chooser, explore
from mc.scripted_random import ScriptedRandomState
from mc.ref import embed as E, gates as G, interp

PROPERTY = "C13"
LEVEL = "model_checking"
RULE = ("BFS closure of the real CliffordTableauSimulationState (n=1: 24, n=2: 11520 states) and "
        "StabilizerChFormSimulationState (n<=2 closed: 128 / 24576 CH representations; n=3 depth-bounded) under "
        "cirq.act_on of a letter set on every qubit / ordered pair: primitive-route letters (H, S, half-integer X/Y/Z "
        "powers incl. exponents >2 and global shifts, CZ/CNOT/SWAP powers with shifts, global phases, tagged ops) are "
        "applied in EVERY state; decompose/fallback-route letters (all 24 SingleQubitCliffordGates, MatrixGate, PhasedXZ, "
        "ISWAP, XX/YY/ZZ, CY, multi-qubit CliffordGates, PauliString, CircuitOperation) in every n=1 state and in every "
        "state up to BFS depth 1 (quick) / 2 (thorough); n=3 tableau and CH form depth-bounded; every (state, letter) "
        "transition is compared with a dense reference; non-trivial = the letter is not proportional to identity; "
        "distinct = distinct (state, letter); plus all 24x24 SingleQubitCliffordGate products, all elements x 8 phases, all "
        "map constructors, cache histories, and every scripted-PRNG path of Clifford circuits (length<=3 quick / 4 thorough) on "
        "CliffordSimulator/StabilizerSampler")
TECHNIQUE = ("explicit-state BFS closure of the stabilizer state spaces through the real update rules with a dense "
             "matrix/vector reference next to every state; exhaustive finite group algebra; scripted-PRNG path DFS")
LEVEL_TEXT = ("Every element of the 1- and 2-qubit Clifford groups is reached as a real tableau state and every CH-form "
              "representation reachable on <=2 qubits is reached as a real CH state; in each of them every primitive-route "
              "letter (and near the root every decompose/fallback-route letter) is applied through cirq.act_on and the result "
              "compared with dense linear algebra (tableau rows = "
              "conjugated Paulis with exact sign; CH amplitudes exact incl. global phase), and every measurement answer is "
              "explored with its weight. n=3 is searched to a stated depth only; circuits with measurements/feed-forward "
              "are bounded by length.")
LEVEL_NOTE = ("trusted: numpy; closed-form letter matrices of mc/ref/gates.py; cirq.unitary of Clifford gate OBJECTS is "
              "taken as their definition (and checked against their tableau); the reference interpreter for circuits")
ASSUMPTIONS = [
    "closed-form matrices in mc/ref/gates.py (typed from docstrings, independent of cirq) define the standard letters; "
    "a stage asserts cirq.unitary(letter) equals them",
    "cirq.unitary(g) of a SingleQubitCliffordGate/CliffordGate object is its definition incl. phase (checked against the "
    "tableau by conjugation)",
    "SingleQubitCliffordGate objects are group elements modulo global phase (documented), so merged_with/commutes/"
    "from_unitary are compared mod phase",
    "CliffordTableau.copy()/SimulationState.copy() are used to branch from a replayed state (copy==replay is asserted)",
    "the simulators draw randomness only through the prng object (un-scripted methods raise)",
]

Q = cirq.LineQubit.range(3)
QX = cirq.LineQubit(7)  # extra qubit for kron tests
ATOL = 1e-8
SQC = cirq.SingleQubitCliffordGate


# ---------------------------------------------------------------------------------------------
# reference helpers

_P1 = {(0, 0): G.I2, (1, 0): G.PX, (1, 1): G.PY, (0, 1): G.PZ}
_ROWCACHE = {}


def pauli_row_matrix(xrow, zrow, r):
    """(-1)^r (x) P_k with (x,z): (1,0)=X (1,1)=Y (0,1)=Z -- the documented meaning of a tableau row."""
    key = (bytes(bytearray(int(v) for v in xrow)), bytes(bytearray(int(v) for v in zrow)))
    m = _ROWCACHE.get(key)
    if m is None:
        m = np.eye(1, dtype=complex)
        for x, z in zip(xrow, zrow):
            m = np.kron(m, _P1[(int(x), int(z))])
        _ROWCACHE[key] = m
    return -m if r else m


_MASK = {0: G.I2, 1: G.PX, 2: G.PY, 3: G.PZ}


_DPSCACHE = {}


def dps_matrix(dps):
    key = bytes(bytearray(int(k) for k in dps.pauli_mask))
    m = _DPSCACHE.get(key)
    if m is None:
        m = np.eye(1, dtype=complex)
        for k in dps.pauli_mask:
            m = np.kron(m, _MASK[int(k)])
        _DPSCACHE[key] = m
    return complex(dps.coefficient) * m


_BASIS = {}


def basis_paulis(n):
    if n not in _BASIS:
        out = [E.embed(G.PX, [i], (2,) * n) for i in range(n)] + [E.embed(G.PZ, [i], (2,) * n) for i in range(n)]
        _BASIS[n] = out
    return _BASIS[n]


_PROJ = {}


def proj(n, axis, bit):
    k = (n, axis, bit)
    if k not in _PROJ:
        p = np.zeros((2, 2), dtype=complex)
        p[bit, bit] = 1
        _PROJ[k] = E.embed(p, [axis], (2,) * n)
    return _PROJ[k]


def _digest(b):
    return hashlib.blake2b(b, digest_size=12).digest()


def ukey(U):
    """Key of a matrix/vector modulo global phase."""
    f = np.asarray(U).reshape(-1)
    i = int(np.argmax(np.abs(f) > 0.1))
    z = f[i]
    if abs(z) < 0.1:
        raise core.HarnessError("ukey: zero reference")
    g = f * (z.conjugate() / abs(z))
    return _digest((np.round(g, 5) + 0.0).astype(np.complex128).tobytes())


def vkey(v):
    """Key of a vector including global phase."""
    return _digest((np.round(np.asarray(v).reshape(-1), 5) + 0.0).astype(np.complex128).tobytes())


def close(a, b, atol=ATOL):
    """Fast exact comparison of small arrays (max-norm)."""
    a = np.asarray(a)
    b = np.asarray(b)
    return a.shape == b.shape and bool(np.abs(a - b).max() <= atol)


def prop_to(ref, got, atol=1e-7):
    return E.eq_up_to_phase(np.asarray(ref), np.asarray(got), atol=atol)


# ---------------------------------------------------------------------------------------------
# letters


class Letter:
    __slots__ = ("name", "op", "mat", "axes", "closed", "cls", "full", "trivial")

    def __init__(self, name, op, mat, axes, closed, cls):
        self.name = name
        self.op = op
        self.mat = np.asarray(mat, dtype=complex)
        self.axes = tuple(axes)
        self.closed = closed  # "exact": mat is an independent closed form; "phase": closed form up to phase; None
        self.cls = cls  # "core" | "fast" | "slow"
        self.full = None
        self.trivial = False


def _ph(k):
    return np.exp(1j * np.pi * k / 4)


def oneq_specs(seed):
    S_, H_ = G.CONST["S"], G.CONST["H"]
    k8 = [1, 3, 5, 7][seed % 4]
    m1 = _ph(k8) * (S_ @ H_)
    m2 = _ph((k8 + 2) % 8) * G.PY
    sp = [
        ("H", cirq.H, H_, "core"),
        ("S", cirq.S, S_, "core"),
        ("S**-1", cirq.S ** -1, G.zpow(-0.5), "core"),
        ("X", cirq.X, G.PX, "core"),
        ("Y", cirq.Y, G.PY, "core"),
        ("Z", cirq.Z, G.PZ, "core"),
        ("X**0.5", cirq.X ** 0.5, G.xpow(0.5), "core"),
        ("Y**-0.5", cirq.Y ** -0.5, G.ypow(-0.5), "core"),
        ("H[gs=.25]", cirq.HPowGate(global_shift=0.25), G.hpow(1, 0.25), "core"),
        ("X**2[gs=.25]", cirq.XPowGate(exponent=2, global_shift=0.25), G.xpow(2, 0.25), "core"),
        ("Y**0.5", cirq.Y ** 0.5, G.ypow(0.5), "fast"),
        ("X**-0.5", cirq.X ** -0.5, G.xpow(-0.5), "fast"),
        ("Z**1.5", cirq.Z ** 1.5, G.zpow(1.5), "fast"),
        ("X**2.5", cirq.X ** 2.5, G.xpow(2.5), "fast"),
        ("Y**3.5", cirq.Y ** 3.5, G.ypow(3.5), "fast"),
        ("Z**-1.5", cirq.Z ** -1.5, G.zpow(-1.5), "fast"),
        ("H**3[gs=.5]", cirq.HPowGate(exponent=3, global_shift=0.5), G.hpow(3, 0.5), "fast"),
        ("H**2[gs=.125]", cirq.HPowGate(exponent=2, global_shift=0.125), G.hpow(2, 0.125), "fast"),
        ("X**0.5[gs=-.5]", cirq.XPowGate(exponent=0.5, global_shift=-0.5), G.xpow(0.5, -0.5), "fast"),
        ("X**1.5[gs=.5]", cirq.XPowGate(exponent=1.5, global_shift=0.5), G.xpow(1.5, 0.5), "fast"),
        ("Y[gs=-.25]", cirq.YPowGate(exponent=1, global_shift=-0.25), G.ypow(1, -0.25), "fast"),
        ("Y**1.5[gs=.5]", cirq.YPowGate(exponent=1.5, global_shift=0.5), G.ypow(1.5, 0.5), "fast"),
        ("Y**0.5[gs=.5]", cirq.YPowGate(exponent=0.5, global_shift=0.5), G.ypow(0.5, 0.5), "fast"),
        ("Y**2[gs=.125]", cirq.YPowGate(exponent=2, global_shift=0.125), G.ypow(2, 0.125), "fast"),
        ("Z**-0.5[gs=.5]", cirq.ZPowGate(exponent=-0.5, global_shift=0.5), G.zpow(-0.5, 0.5), "fast"),
        ("Z[gs=.75]", cirq.ZPowGate(exponent=1, global_shift=0.75), G.zpow(1, 0.75), "fast"),
        ("Z**2[gs=.375]", cirq.ZPowGate(exponent=2, global_shift=0.375), G.zpow(2, 0.375), "fast"),
        ("I", cirq.I, G.I2, "fast"),
        ("H#tag", ("tag", cirq.H), H_, "fast"),
        ("X**0.5[gs=-.5]#tag", ("tag", cirq.XPowGate(exponent=0.5, global_shift=-0.5)), G.xpow(0.5, -0.5), "fast"),
        ("Matrix(ph*S.H)", cirq.MatrixGate(m1), m1, "slow"),
        ("Matrix(ph*Y)", cirq.MatrixGate(m2), m2, "slow"),
        ("PhXZ(x=.5,z=.5,a=.5)", cirq.PhasedXZGate(x_exponent=0.5, z_exponent=0.5, axis_phase_exponent=0.5),
         G.phased_xz(0.5, 0.5, 0.5), "slow"),
        ("PhXZ(x=1,z=0,a=.25)", cirq.PhasedXZGate(x_exponent=1, z_exponent=0, axis_phase_exponent=0.25),
         G.phased_xz(1, 0, 0.25), "slow"),
        ("PhXZ(x=-.5,z=1,a=0)", cirq.PhasedXZGate(x_exponent=-0.5, z_exponent=1, axis_phase_exponent=0),
         G.phased_xz(-0.5, 1, 0), "slow"),
        ("PhX(p=.5)", cirq.PhasedXPowGate(phase_exponent=0.5, exponent=1), G.phased_xpow(1, 0.5), "slow"),
    ]
    out = [(nm, g, m, "exact", c) for nm, g, m, c in sp]
    for k, g in enumerate(SQC.all_single_qubit_cliffords):
        out.append((f"SQC[{k}]", g, None, None, "slow"))
    return out


def twoq_specs(seed):
    C = G.CONST
    a, b = cirq.LineQubit.range(2)
    variants = [
        [cirq.H(a), cirq.CNOT(a, b), cirq.S(b), cirq.X(a)],
        [cirq.S(a), cirq.H(b), cirq.CZ(a, b), cirq.Y(b), cirq.H(a)],
        [cirq.X(b) ** 0.5, cirq.CNOT(b, a), cirq.Z(a), cirq.S(b) ** -1],
    ]
    var = variants[seed % 3]
    mats = {"H": C["H"], "S": C["S"], "X": G.PX, "Y": G.PY, "Z": G.PZ, "CNOT": C["CNOT"], "CZ": C["CZ"],
            "X**0.5": G.xpow(0.5), "S**-1": G.zpow(-0.5)}
    cm = np.eye(4, dtype=complex)
    for op in var:
        cm = E.embed(mats[str(op.gate)], [q.x for q in op.qubits], (2, 2)) @ cm
    custom = cirq.CliffordGate.from_op_list(var, [a, b])
    sp = [
        # name, gate, closed, closed-kind, class, both orientations?
        ("CZ", cirq.CZ, C["CZ"], "exact", "core", True),
        ("CNOT", cirq.CNOT, C["CNOT"], "exact", "core", True),
        ("SWAP", cirq.SWAP, C["SWAP"], "exact", "core", False),
        ("CZ**-1", cirq.CZ ** -1, G.czpow(-1), "exact", "core", False),
        ("SWAP[gs=.5]", cirq.SwapPowGate(global_shift=0.5), G.swappow(1, 0.5), "exact", "core", True),
        ("CZ**-1[gs=.25]", cirq.CZPowGate(exponent=-1, global_shift=0.25), G.czpow(-1, 0.25), "exact", "fast", True),
        ("CZ**2[gs=.125]", cirq.CZPowGate(exponent=2, global_shift=0.125), G.czpow(2, 0.125), "exact", "fast", False),
        ("CX**3[gs=.5]", cirq.CXPowGate(exponent=3, global_shift=0.5), G.cxpow(3, 0.5), "exact", "fast", True),
        ("CX**2[gs=.25]", cirq.CXPowGate(exponent=2, global_shift=0.25), G.cxpow(2, 0.25), "exact", "fast", False),
        ("SWAP**2[gs=.25]", cirq.SwapPowGate(exponent=2, global_shift=0.25), G.swappow(2, 0.25), "exact", "fast", False),
        ("SWAP**-1", cirq.SWAP ** -1, G.swappow(-1), "exact", "fast", True),
        ("CNOT#tag", ("tag", cirq.CNOT), C["CNOT"], "exact", "fast", False),
        ("ISWAP", cirq.ISWAP, C["ISWAP"], "exact", "slow", True),
        ("ISWAP**-1", cirq.ISWAP ** -1, C["ISWAP_INV"], "exact", "slow", False),
        ("CXSWAP", cirq.CXSWAP, C["CXSWAP"], "phase", "slow", True),
        ("CZSWAP", cirq.CZSWAP, C["CZSWAP"], "phase", "slow", False),
        ("CliffordGate.CNOT", cirq.CliffordGate.CNOT, C["CNOT"], "phase", "slow", True),
        ("Cliff2[custom]", custom, cm, "phase", "slow", True),
        ("XX**0.5", cirq.XX ** 0.5, G.xxpow(0.5), "exact", "slow", False),
        ("ZZ**-0.5", cirq.ZZ ** -0.5, G.zzpow(-0.5), "exact", "slow", False),
        ("YY", cirq.YY, G.yypow(1), "exact", "slow", False),
        ("CY", cirq.ControlledGate(cirq.Y), C["CY"], "exact", "slow", True),
        ("DPS(1j*XZ)", cirq.DensePauliString("XZ", coefficient=1j), 1j * np.kron(G.PX, G.PZ), "exact", "slow", False),
    ]
    return sp


def _mk_op(g, qs):
    if isinstance(g, tuple) and g[0] == "tag":
        return g[1].on(*qs).with_tags("c13")
    return g.on(*qs)


def make_letters(n, seed):
    L = []
    shape = (2,) * n
    for i in range(n):
        for nm, g, m, closed, cls in oneq_specs(seed):
            op = _mk_op(g, [Q[i]])
            mat = m if m is not None else cirq.unitary(op)
            L.append(Letter(f"{nm}({i})", op, mat, (i,), closed, cls))
    if n >= 2:
        for i, j in itertools.permutations(range(n), 2):
            for nm, g, m, closed, cls, both in twoq_specs(seed):
                if i > j and not both:
                    continue
                op = _mk_op(g, [Q[i], Q[j]])
                if closed == "exact":
                    mat = m
                else:
                    mat = cirq.unitary(op)
                    if not prop_to(m, mat):
                        # the object's own unitary disagrees with its closed form mod phase: keep the closed form so that
                        # the searches report it
                        mat = m
                L.append(Letter(f"{nm}({i},{j})", op, mat, (i, j), closed, cls))
        a, b = Q[0], Q[1]
        ps = cirq.X(a) * cirq.Y(b)
        L.append(Letter("PauliString(X0*Y1)", ps, np.kron(G.PX, G.PY), (0, 1), "exact", "slow"))
        sub = cirq.CircuitOperation(cirq.FrozenCircuit(cirq.H(a), cirq.CNOT(a, b)))
        L.append(Letter("CircuitOp[H0,CNOT01]", sub, G.CONST["CNOT"] @ np.kron(G.CONST["H"], G.I2), (0, 1), "exact", "slow"))
    L.append(Letter("GP(1j)", cirq.global_phase_operation(1j), [[1j]], (), "exact", "core"))
    L.append(Letter("GP(e^{i pi/4})", cirq.global_phase_operation(_ph(1)), [[_ph(1)]], (), "exact", "core"))
    for l in L:
        l.full = E.embed(l.mat, l.axes, shape)
        l.trivial = prop_to(np.eye(2 ** n), l.full)
    return L


_LET = {}
_LTAB = {}
_SETS = {}
_SEED = 0


_INIT_DONE = None


def _init(seed):
    global _SEED, _INIT_DONE
    if _INIT_DONE == seed:
        return
    _SEED = seed
    _LET.clear()
    _LTAB.clear()
    _SETS.clear()
    for n in (1, 2, 3):
        L = make_letters(n, seed)
        _LET[n] = L
        idx = range(len(L))
        _SETS[n] = {
            "core": [i for i in idx if L[i].cls == "core"],
            "fast": [i for i in idx if L[i].cls in ("core", "fast")],
            "all": list(idx),
        }
        # fast letters + the multi-qubit CliffordGate objects (their tableau _act_on_ is `then` + padding, cheap)
        _SETS[n]["fast_tab"] = [i for i in idx if L[i].cls in ("core", "fast")
                                or (isinstance(L[i].op.gate, cirq.CliffordGate) and len(L[i].axes) == 2)]
        tabs = []
        for l in L:
            s = new_tab(n)
            cirq.act_on(l.op, s)
            tabs.append(s.tableau)
        _LTAB[n] = tabs
    # n=3 reduced set: the core letters + a few slow ones exercising padding / decompose / fallback routes
    names3 = {"Cliff2[custom](0,2)", "Cliff2[custom](2,1)", "CXSWAP(2,0)", "ISWAP(0,2)", "SQC[17](1)", "SQC[22](2)",
              "Matrix(ph*S.H)(2)", "PhXZ(x=.5,z=.5,a=.5)(0)", "CliffordGate.CNOT(1,2)", "CY(2,0)"}
    L3 = _LET[3]
    _SETS[3]["g3"] = [i for i in range(len(L3)) if L3[i].cls == "core" or L3[i].name in names3]
    gen_names = {f"{g}({i})" for g in ("H", "S", "X**0.5") for i in range(3)}
    gen_names |= {f"CZ({i},{j})" for i in range(3) for j in range(3) if i < j}
    gen_names |= {f"CNOT({i},{j})" for i in range(3) for j in range(3) if i != j}
    gen_names |= {f"SWAP({i},{j})" for i in range(3) for j in range(3) if i < j}
    _SETS[3]["gen"] = [i for i in range(len(L3)) if L3[i].name in gen_names]
    _SETS[3]["gen_gp"] = _SETS[3]["gen"] + [i for i in range(len(L3)) if L3[i].name.startswith("GP(")]
    if len(_SETS[3]["gen"]) != 21:
        raise core.HarnessError("n=3 generator set incomplete")
    missing = names3 - {l.name for l in L3}
    if missing:
        raise core.HarnessError(f"n=3 letter names not found: {missing}")
    _INIT_DONE = seed


def hist_names(n, hist):
    return [_LET[n][i].name for i in hist]


def no_random():
    return ScriptedRandomState(Chooser())


def new_tab(n, prng=None):
    return cirq.CliffordTableauSimulationState(tableau=cirq.CliffordTableau(n), qubits=Q[:n], prng=prng or no_random())


def new_ch(n, prng=None):
    return cirq.StabilizerChFormSimulationState(qubits=Q[:n], prng=prng or no_random(), initial_state=0)


# ---------------------------------------------------------------------------------------------
# G1 / G3: tableau


def tab_canon(t):
    return t.xs.tobytes() + t.zs.tobytes() + t.rs.tobytes()


def tab_replay(n, hist, prng=None):
    st = new_tab(n, prng)
    U = np.eye(2 ** n, dtype=complex)
    L = _LET[n]
    for li in hist:
        cirq.act_on(L[li].op, st)
        U = L[li].full @ U
    return st, U


def tab_conj_msg(n, t, U):
    """Row i of the tableau must be U X_i U^dagger (i<n) / U Z_{i-n} U^dagger with the exact sign."""
    if t.n != n or t.xs.shape != (2 * n, n) or t.zs.shape != (2 * n, n) or t.rs.shape != (2 * n,):
        return f"tableau has wrong shape: n={t.n} xs{t.xs.shape} zs{t.zs.shape} rs{t.rs.shape}"
    BP = basis_paulis(n)
    xs, zs, rs = t.xs, t.zs, t.rs
    for i in range(2 * n):
        R = pauli_row_matrix(xs[i], zs[i], rs[i])
        if not close(R @ U, U @ BP[i]):
            which = f"destabilizer {i} (image of X_{i})" if i < n else f"stabilizer {i - n} (image of Z_{i - n})"
            s = "-" if rs[i] else "+"
            row = "".join({(0, 0): "I", (1, 0): "X", (1, 1): "Y", (0, 1): "Z"}[(int(x), int(z))] for x, z in zip(xs[i], zs[i]))
            plus = np.allclose(R @ U, -(U @ BP[i]), atol=ATOL, rtol=0)
            return (f"{which} is {s}{row} but the reference unitary conjugates the Pauli to "
                    f"{'the opposite sign' if plus else 'a different Pauli string'}")
    return None


def tab_symplectic_msg(t):
    n = t.n
    x = t.xs.astype(int)
    z = t.zs.astype(int)
    lam = (x @ z.T + z @ x.T) % 2
    J = np.zeros((2 * n, 2 * n), dtype=int)
    J[:n, n:] = np.eye(n, dtype=int)
    J[n:, :n] = np.eye(n, dtype=int)
    if not np.array_equal(lam, J):
        return f"destabilizer/stabilizer (anti)commutation relations broken: symplectic form\n{lam}"
    return None


def g1_transition(n, st, U, li):
    """Applies letter li on a copy of st.  Returns (msg|None, canon', ukey')."""
    L = _LET[n][li]
    s2 = st.copy()
    try:
        cirq.act_on(L.op, s2)
    except Exception as e:  # noqa
        return f"act_on({L.name}) raised {type(e).__name__}: {e}", None, None
    U2 = L.full @ U
    t2 = s2.tableau
    msg = tab_conj_msg(n, t2, U2)
    if msg:
        return f"after act_on({L.name}): {msg}\ntableau after:\n{t2._str_full_()}", None, None
    th = st.tableau.then(_LTAB[n][li])
    if not (th == t2):
        return (f"tableau.then(tableau of {L.name}) differs from act_on({L.name}):\nthen:\n{th._str_full_()}\n"
                f"act_on:\n{t2._str_full_()}"), None, None
    return None, tab_canon(t2), ukey(U2)


_DEC_MATS = None


def op_matrix(op):
    """Closed-form matrix of an operation returned by a decomposition (H, S, Paulis, CNOT, SWAP, CZ, pow gates)."""
    g = op.gate
    C = G.CONST
    if isinstance(g, cirq.HPowGate):
        return G.hpow(float(g.exponent), float(g.global_shift))
    if isinstance(g, cirq.XPowGate) and g.dimension == 2:
        return G.xpow(float(g.exponent), float(g.global_shift))
    if isinstance(g, cirq.YPowGate):
        return G.ypow(float(g.exponent), float(g.global_shift))
    if isinstance(g, cirq.ZPowGate) and g.dimension == 2:
        return G.zpow(float(g.exponent), float(g.global_shift))
    if isinstance(g, cirq.CXPowGate):
        return G.cxpow(float(g.exponent), float(g.global_shift))
    if isinstance(g, cirq.CZPowGate):
        return G.czpow(float(g.exponent), float(g.global_shift))
    if isinstance(g, cirq.SwapPowGate):
        return G.swappow(float(g.exponent), float(g.global_shift))
    return cirq.unitary(op)


def ops_product(n, ops, qubits):
    idx = {q: i for i, q in enumerate(qubits)}
    U = np.eye(2 ** n, dtype=complex)
    for op in ops:
        U = E.embed(op_matrix(op), [idx[q] for q in op.qubits], (2,) * n) @ U
    return U


def tab_invariants_msg(n, st, U, level=2, hist=None):
    """Per-state invariants.  level 1: cheap ones; 2: everything."""
    t = st.tableau
    qs = Q[:n]
    msg = tab_conj_msg(n, t, U)
    if msg:
        return msg
    psi = U[:, 0]
    for i, s in enumerate(t.stabilizers()):
        if not close(dps_matrix(s) @ psi, psi):
            return f"stabilizers()[{i}] = {s} does not fix the reference state U|0> with eigenvalue +1"
    ds = t.destabilizers()
    ss = t.stabilizers()
    for i in range(n):
        D = dps_matrix(ds[i])
        for j in range(n):
            S = dps_matrix(ss[j])
            sign = -1 if i == j else 1
            if not close(D @ S, sign * (S @ D)):
                return f"destabilizer {i} and stabilizer {j} do not {'anti' if i == j else ''}commute"
    msg = tab_symplectic_msg(t)
    if msg:
        return msg
    if not t._validate():
        return "CliffordTableau._validate() is False on a reachable tableau"
    if tab_canon(st.copy().tableau) != tab_canon(t):
        return "SimulationState.copy() changed the tableau"
    ident = cirq.CliffordTableau(n)
    Ud = U.conj().T
    inv = t.inverse()
    msg = tab_conj_msg(n, inv, Ud)
    if msg:
        return f"inverse(): {msg}"
    if not (t.then(inv) == ident) or not (inv.then(t) == ident):
        return "t.then(t.inverse()) / t.inverse().then(t) is not the identity tableau"
    if not ((t @ inv) == ident):
        return "t @ t.inverse() is not the identity tableau"
    # gate built from the tableau
    g = cirq.CliffordGate.from_clifford_tableau(t)
    if not (g.clifford_tableau == t):
        return "CliffordGate.from_clifford_tableau(t).clifford_tableau != t"
    t2 = cirq.CliffordTableau(n, rs=t.rs.copy(), xs=t.xs.copy(), zs=t.zs.copy())
    g2 = cirq.CliffordGate.from_clifford_tableau(t2)
    if not (t == t2) or hash(t) != hash(t2):
        return "tableau != / hash differs from an independently built equal tableau"
    if not (g == g2) or (g != g2) or hash(g) != hash(g2):
        return "CliffordGate ==/hash differs from a gate built from an independently built equal tableau"
    gi = cirq.CliffordGate.from_clifford_tableau(ident)
    is_id = prop_to(np.eye(2 ** n), U)
    if (g == gi) != is_id:
        return f"CliffordGate == identity gate is {g == gi} but reference unitary proportional to identity is {is_id}"
    if not cirq.has_stabilizer_effect(g) or cirq.num_qubits(g) != n:
        return "has_stabilizer_effect / num_qubits of the gate wrong"
    pows = (-1, 0, 2, 3, -2, 5) if level >= 2 and n <= 2 else (-1, 2, 3)
    for e in pows:
        ge = g ** e
        Ue = np.linalg.matrix_power(U if e >= 0 else Ud, abs(e))
        msg = tab_conj_msg(n, ge.clifford_tableau, Ue)
        if msg:
            return f"CliffordGate ** {e}: {msg}"
    gi2 = cirq.inverse(g)
    if not (gi2 == g ** -1):
        return "cirq.inverse(gate) != gate**-1"
    if n == 1:
        sg = SQC.from_clifford_tableau(t2)
        if not (sg == g) or hash(sg) != hash(g):
            return "SingleQubitCliffordGate.from_clifford_tableau(t) != CliffordGate.from_clifford_tableau(t)"
        if not prop_to(U, cirq.unitary(sg)):
            return f"cirq.unitary(SingleQubitCliffordGate from tableau) not proportional to reference U"
    # decomposition
    ops = cirq.decompose_clifford_tableau_to_operations(list(qs), t)
    if tab_canon(t) != tab_canon(st.tableau) or not (t == t2):
        return "decompose_clifford_tableau_to_operations modified its input tableau"
    Ud_ = ops_product(n, ops, qs)
    if not prop_to(U, Ud_):
        return (f"product of decompose_clifford_tableau_to_operations is not proportional to the reference unitary; ops="
                f"{ops}")
    if hist is not None and len(hist) <= 3:
        hops = [_LET[n][li].op for li in hist]
        if all(op.gate is not None for op in hops):
            gl = cirq.CliffordGate.from_op_list(hops, list(qs))
            if not (gl == g):
                return f"CliffordGate.from_op_list({hist_names(n, hist)}) != gate of the tableau reached by act_on of the same ops"
    if level >= 2:
        Ug = cirq.unitary(g)
        if not prop_to(U, Ug):
            return "cirq.unitary(CliffordGate.from_clifford_tableau(t)) not proportional to reference U"
        # _act_on_ of the gate (then + padding) on a fresh state, both qubit orders
        s0 = new_tab(n)
        cirq.act_on(g.on(*qs), s0)
        if not (s0.tableau == t):
            return "act_on(gate from tableau) on the identity state does not reproduce the tableau"
        if n == 2:
            s1 = new_tab(n)
            cirq.act_on(g.on(qs[1], qs[0]), s1)
            SW = G.CONST["SWAP"]
            msg = tab_conj_msg(n, s1.tableau, SW @ U @ SW)
            if msg:
                return f"act_on(gate.on(q1, q0)) (padding with reversed axes): {msg}"
    return None


def ref_outcomes(n, psi, targets):
    ref = {}
    for bits in itertools.product((0, 1), repeat=len(targets)):
        v = psi
        for ax, b in zip(targets, bits):
            v = proj(n, ax, b) @ v
        p = float(np.vdot(v, v).real)
        if p > 1e-12:
            ref[bits] = (p, v / math.sqrt(p))
    return ref


def meas_targets(n):
    if n == 1:
        return [(0,)]
    if n == 2:
        return [(0,), (1,), (0, 1), (1, 0)]
    return [(0,), (1,), (2,), (2, 0)]


def tab_measure_msg(n, st, U):
    """Returns (msg|None, paths, random_cases)."""
    psi = U[:, 0]
    base = st.tableau
    paths = 0
    nrandom = 0
    for tg in meas_targets(n):
        ref = ref_outcomes(n, psi, tg)
        got = {}
        mop = cirq.measure(*[Q[i] for i in tg], key="m")

        def one(ch):
            s = cirq.CliffordTableauSimulationState(tableau=base.copy(), qubits=Q[:n], prng=ScriptedRandomState(ch))
            cirq.act_on(mop, s)
            return tuple(int(b) for b in s.log_of_measurement_results["m"]), s.tableau

        for ch, (bits, t2) in explore(one, max_paths=64):
            paths += 1
            if bits in got:
                return f"measure{tg}: outcome {bits} produced by two different PRNG answer paths", paths, nrandom
            got[bits] = ch.weight
            if bits not in ref:
                return (f"measure{tg}: outcome {bits} produced (path weight {ch.weight}) but its reference probability is 0; "
                        f"reference distribution { {k: round(v[0], 6) for k, v in ref.items()} }"), paths, nrandom
            p, post = ref[bits]
            if abs(ch.weight - p) > 1e-9:
                return f"measure{tg}: P({bits}) = {ch.weight} (product of the code's own draws), reference {p:.9f}", paths, nrandom
            for i, s in enumerate(t2.stabilizers()):
                if not close(dps_matrix(s) @ post, post):
                    return (f"measure{tg} outcome {bits}: post-measurement stabilizer {i} = {s} does not fix the normalised "
                            f"projection of the reference state"), paths, nrandom
            msg = tab_symplectic_msg(t2)
            if msg:
                return f"measure{tg} outcome {bits}: post-measurement {msg}", paths, nrandom
        if set(got) != set(ref):
            return (f"measure{tg}: outcomes explored {sorted(got)} but reference support is {sorted(ref)} "
                    f"(deterministic in the code <=> probability in {{0,1}} violated)"), paths, nrandom
        if len(ref) > 1:
            nrandom += 1
    if tab_canon(base) != tab_canon(st.tableau):
        return "measurement on a copy modified the original tableau", paths, nrandom
    return None, paths, nrandom


# flags
F_INV1, F_INV2, F_MEAS = 1, 2, 4


def _g1_task(task):
    n, hist, set_name, flags = task
    viols = []
    out = []
    cnt = {"inv_states": 0, "meas_paths": 0, "meas_random_cases": 0}
    try:
        st, U = tab_replay(n, hist)
    except Exception as e:  # noqa
        return hist, None, None, out, [{"case": ("g1replay", n, hist), "msg": f"replay raised {type(e).__name__}: {e}"}], cnt
    c0 = tab_canon(st.tableau)
    k0 = ukey(U)
    if flags & (F_INV1 | F_INV2):
        try:
            msg = tab_invariants_msg(n, st, U, 2 if flags & F_INV2 else 1, hist)
        except Exception as e:  # noqa
            import traceback
            msg = f"unexpected {type(e).__name__}: {e}\n{traceback.format_exc(limit=6)}"
        cnt["inv_states"] += 1
        if msg:
            viols.append({"case": ("g1inv", n, hist, 2 if flags & F_INV2 else 1), "msg": msg})
    if flags & F_MEAS:
        try:
            msg, paths, nr = tab_measure_msg(n, st, U)
        except core.HarnessError:
            raise
        except Exception as e:  # noqa
            import traceback
            msg, paths, nr = f"unexpected {type(e).__name__}: {e}\n{traceback.format_exc(limit=6)}", 0, 0
        cnt["meas_paths"] += paths
        cnt["meas_random_cases"] += nr
        if msg:
            viols.append({"case": ("g1meas", n, hist), "msg": msg})
    for li in _SETS[n][set_name]:
        try:
            msg, c2, k2 = g1_transition(n, st, U, li)
        except Exception as e:  # noqa
            import traceback
            msg, c2, k2 = f"unexpected {type(e).__name__}: {e}\n{traceback.format_exc(limit=6)}", None, None
        if msg:
            if len(viols) < 3:
                viols.append({"case": ("g1", n, hist, li), "msg": msg})
            out.append((li, None, None))
        else:
            out.append((li, c2, k2))
    if tab_canon(st.tableau) != c0:
        viols.append({"case": ("g1", n, hist, -1), "msg": "acting on copies modified the original state"})
    return hist, c0, k0, out, viols, cnt


def _fmt_case(case):
    kind, n, hist = case[0], case[1], case[2]
    d = {"kind": kind, "n": n, "history": hist_names(n, hist)}
    if kind in ("g1", "g2") and len(case) > 3 and case[3] >= 0:
        d["letter"] = _LET[n][case[3]].name
    return d


def tab_bfs(name, n, plan, max_depth=None, expect=None):
    """plan(depth) -> (set_name, flags) for states at that BFS depth."""
    res = StageResult(name)
    seen = {}
    keys = {}
    root = new_tab(n)
    c_root = tab_canon(root.tableau)
    seen[c_root] = (ukey(np.eye(2 ** n)), ())
    keys[seen[c_root][0]] = c_root
    frontier = [()]
    depth = 0
    transitions = 0
    nontrivial = 0
    expanded = 0
    closed = False
    while frontier:
        if max_depth is not None and depth >= max_depth:
            break
        set_name, flags = plan(depth)
        tasks = [(n, h, set_name, flags) for h in frontier]
        chunk = max(1, min(32, len(tasks) // (core.NPROC * 6) or 1))
        outs = core.pmap(_g1_task, tasks, chunk=chunk)
        nxt = []
        for hist, c0, k0, out, viols, cnt in outs:
            expanded += 1
            res.add_counters(cnt)
            for v in viols:
                res.violations.append({"index": len(res.violations), "case": core.jsonable(v["case"]),
                                       "msg": (v["msg"] + f"\ncase: {_fmt_case(v['case'])}")[:4000], "sig": {"kind": v["case"][0]}})
            for li, c2, k2 in out:
                transitions += 1
                if not _LET[n][li].trivial:
                    nontrivial += 1
                if c2 is None:
                    continue
                if c2 in seen:
                    if seen[c2][0] != k2:
                        res.violations.append({"index": len(res.violations), "case": core.jsonable(("g1pair", n, seen[c2][1], hist + (li,))),
                                               "msg": "one tableau reached for two reference unitaries that differ mod phase",
                                               "sig": {"kind": "g1pair"}})
                else:
                    if k2 in keys:
                        res.violations.append({"index": len(res.violations), "case": core.jsonable(("g1pair", n, seen[keys[k2]][1], hist + (li,))),
                                               "msg": "two different tableaux reached for the same reference unitary mod phase",
                                               "sig": {"kind": "g1pair"}})
                    seen[c2] = (k2, hist + (li,))
                    keys.setdefault(k2, c2)
                    nxt.append(hist + (li,))
        depth += 1
        if len(res.samples) < 2 and nxt:
            res.samples.append({"n": n, "history": hist_names(n, nxt[len(nxt) // 2])})
        frontier = nxt
        if len(res.violations) >= 20:
            break
    if not frontier and not res.violations:
        closed = True
    res.evaluations = transitions
    res.distinct_nontrivial_extra = nontrivial
    res.add_counters({"states": len(seen), "transitions": transitions, "traces_validated_against_impl": transitions,
                      "states_expanded": expanded, "max_depth": depth, "closed": 1 if closed else 0,
                      "distinct_reference_unitaries_mod_phase": len(keys), "frontier_left": len(frontier)})
    if len(keys) != len(seen) and not res.violations:
        res.violations.append({"index": 0, "case": core.jsonable(("g1count", n)),
                               "msg": f"{len(seen)} tableau states but {len(keys)} reference unitaries mod phase", "sig": {"kind": "g1count"}})
    if expect is not None and closed and len(seen) != expect:
        res.violations.append({"index": 0, "case": core.jsonable(("g1count", n)),
                               "msg": f"closure of the {n}-qubit tableau state space has {len(seen)} states, the Clifford group has {expect}",
                               "sig": {"kind": "g1count"}})
    res.exhaustive = True
    res.note = (f"n={n}: {'closed orbit' if closed else f'depth-bounded (depth {depth})'}; {len(seen)} states, "
                f"{len(keys)} reference unitaries mod phase")
    return res


def g1_replay(case):
    kind, n = case[0], case[1]
    if kind == "g1count":
        # serial closure over a generating set, counting only
        gens = [i for i in _SETS[n]["core"]]
        seen = {tab_canon(new_tab(n).tableau)}
        fr = [()]
        while fr:
            nx = []
            for h in fr:
                st, U = tab_replay(n, h)
                for li in gens:
                    s2 = st.copy()
                    cirq.act_on(_LET[n][li].op, s2)
                    c = tab_canon(s2.tableau)
                    if c not in seen:
                        seen.add(c)
                        nx.append(h + (li,))
            fr = nx
        exp = {1: 24, 2: 11520}[n]
        return None if len(seen) == exp else bad(f"closure has {len(seen)} states, expected {exp}", kind="g1count")
    if kind == "g1pair":
        h1, h2 = tuple(case[2]), tuple(case[3])
        s1, U1 = tab_replay(n, h1)
        s2, U2 = tab_replay(n, h2)
        for s, U, h in ((s1, U1, h1), (s2, U2, h2)):
            msg = tab_conj_msg(n, s.tableau, U)
            if msg:
                return bad(f"history {hist_names(n, h)}: {msg}", kind="g1pair")
        same_t = tab_canon(s1.tableau) == tab_canon(s2.tableau)
        same_u = ukey(U1) == ukey(U2)
        if same_t != same_u:
            return bad(f"tableaux equal: {same_t}, reference unitaries equal mod phase: {same_u} for histories "
                       f"{hist_names(n, h1)} / {hist_names(n, h2)}", kind="g1pair")
        return None
    hist = tuple(case[2])
    st, U = tab_replay(n, hist)
    if kind == "g1replay":
        return None
    if kind == "g1inv":
        msg = tab_invariants_msg(n, st, U, case[3], hist)
    elif kind == "g1meas":
        msg = tab_measure_msg(n, st, U)[0]
    elif kind == "g1":
        if case[3] < 0:
            return None
        msg = g1_transition(n, st, U, case[3])[0]
    else:
        raise core.HarnessError(f"unknown case {case}")
    return bad(msg + f"\ncase: {_fmt_case(case)}", kind=kind) if msg else None


# ---------------------------------------------------------------------------------------------
# G2: CH form


def ch_canon(s):
    om = complex(s.omega)
    parts = [np.asarray(s.F).astype(np.uint8).tobytes(), np.asarray(s.G).astype(np.uint8).tobytes(),
             np.asarray(s.M).astype(np.uint8).tobytes(), np.asarray(s.gamma).astype(np.int64).tobytes(),
             np.asarray(s.v).astype(np.uint8).tobytes(), np.asarray(s.s).astype(np.uint8).tobytes(),
             repr((round(om.real, 6) + 0.0, round(om.imag, 6) + 0.0)).encode()]
    return hashlib.blake2b(b"|".join(parts), digest_size=16).digest()


def ch_replay(n, hist, prng=None):
    st = new_ch(n, prng)
    psi = np.zeros(2 ** n, dtype=complex)
    psi[0] = 1
    L = _LET[n]
    for li in hist:
        cirq.act_on(L[li].op, st)
        psi = L[li].full @ psi
    return st, psi


def vec_msg(ref, got, what):
    got = np.asarray(got)
    if got.shape != ref.shape:
        return f"{what}: shape {got.shape} != {ref.shape}"
    if bool(np.abs(ref - got).max() <= ATOL):
        return None
    if E.eq_up_to_phase(ref, got, atol=1e-7):
        f = E.phase_of(got, ref)
        return (f"{what}: equal to the reference only up to a global phase: implementation = ({complex(f):.6f}) * reference; "
                f"reference {np.round(ref, 4)} implementation {np.round(got, 4)}")
    return f"{what}: differs from the reference vector: reference {np.round(ref, 4)} implementation {np.round(got, 4)}"


def g2_transition(n, st, psi, li):
    L = _LET[n][li]
    s2 = st.copy()
    try:
        cirq.act_on(L.op, s2)
    except Exception as e:  # noqa
        return f"act_on({L.name}) raised {type(e).__name__}: {e}", None, None
    ref = L.full @ psi
    msg = vec_msg(ref, s2.state.state_vector(), f"CH state_vector() after act_on({L.name})")
    if msg:
        return msg, None, None
    return None, ch_canon(s2.state), ref


_KRON_HISTS = None


def ch_invariants_msg(n, st, psi):
    s = st.state
    msg = vec_msg(psi, s.state_vector(), "state_vector()")
    if msg:
        return msg
    msg = vec_msg(psi, s.to_state_vector(), "to_state_vector()")
    if msg:
        return msg
    for x in range(2 ** n):
        if abs(complex(s.inner_product_of_state_and_x(x)) - psi[x]) > ATOL:
            return f"inner_product_of_state_and_x({x}) = {s.inner_product_of_state_and_x(x)} reference {psi[x]}"
    cp = st.copy()
    if ch_canon(cp.state) != ch_canon(s):
        return "copy() changed the CH form"
    # reindex through the public SimulationState API
    T = psi.reshape((2,) * n)
    for perm in itertools.permutations(range(n)):
        r = st.transpose_to_qubit_order([Q[i] for i in perm])
        if tuple(r.qubits) != tuple(Q[i] for i in perm):
            return f"transpose_to_qubit_order({perm}) qubits {r.qubits}"
        msg = vec_msg(np.transpose(T, perm).reshape(-1), r.state.state_vector(), f"transpose_to_qubit_order({perm})")
        if msg:
            return msg
    if ch_canon(s) != ch_canon(cp.state):
        return "transpose_to_qubit_order(inplace=False) modified the receiver"
    # kron with small one-qubit states (prepared through the real rules on another qubit)
    for prep, pmat in (_KRON_PREPS if n == 1 else _KRON_PREPS[1::2]):
        o = cirq.StabilizerChFormSimulationState(qubits=[QX], prng=no_random(), initial_state=0)
        phi = np.array([1, 0], dtype=complex)
        for g, m in zip(prep, pmat):
            cirq.act_on(g.on(QX) if isinstance(g, cirq.Gate) else g, o)
            phi = (m @ phi) if m.shape == (2, 2) else m[0, 0] * phi
        k1 = st.kronecker_product(o)
        msg = vec_msg(np.kron(psi, phi), k1.state.state_vector(), "kronecker_product(self, other)")
        if msg:
            return msg
        k2 = o.kronecker_product(st)
        msg = vec_msg(np.kron(phi, psi), k2.state.state_vector(), "kronecker_product(other, self)")
        if msg:
            return msg
        if tuple(k1.qubits) != tuple(Q[:n]) + (QX,) or tuple(k2.qubits) != (QX,) + tuple(Q[:n]):
            return "kronecker_product qubit order wrong"
        # an entangling gate across the seam, then reorder
        cirq.act_on(cirq.CNOT(QX, Q[0]), k2)
        refv = E.embed(G.CONST["CNOT"], [0, 1], (2,) * (n + 1)) @ np.kron(phi, psi)
        msg = vec_msg(refv, k2.state.state_vector(), "CNOT across the kron seam")
        if msg:
            return msg
    return None


_KRON_PREPS = [
    ((), ()),
    ((cirq.H, cirq.S), (G.CONST["H"], G.CONST["S"])),
    ((cirq.X, cirq.global_phase_operation(_ph(3))), (G.PX, np.array([[_ph(3)]]))),
    ((cirq.Y ** 0.5, cirq.ZPowGate(exponent=0.5, global_shift=0.5)), (G.ypow(0.5), G.zpow(0.5, 0.5))),
]


def ch_measure_msg(n, st, psi):
    base = st.state
    paths = 0
    nrandom = 0
    for tg in meas_targets(n):
        ref = ref_outcomes(n, psi, tg)
        got = {}
        mop = cirq.measure(*[Q[i] for i in tg], key="m")

        def one(ch):
            s = cirq.StabilizerChFormSimulationState(qubits=Q[:n], prng=ScriptedRandomState(ch), initial_state=base.copy())
            cirq.act_on(mop, s)
            return tuple(int(b) for b in s.log_of_measurement_results["m"]), s.state.state_vector()

        for ch, (bits, vec) in explore(one, max_paths=4096):
            paths += 1
            got[bits] = got.get(bits, 0.0) + ch.weight
            if bits not in ref:
                return (f"measure{tg}: outcome {bits} produced (path weight {ch.weight}) but its reference probability is 0; "
                        f"reference { {k: round(v[0], 6) for k, v in ref.items()} }"), paths, nrandom
            msg = vec_msg(ref[bits][1], vec, f"measure{tg} outcome {bits}: post-measurement state_vector() vs normalised projection")
            if msg:
                return msg, paths, nrandom
        if set(got) != set(ref):
            return f"measure{tg}: outcomes explored {sorted(got)} but reference support is {sorted(ref)}", paths, nrandom
        for b in ref:
            if abs(got[b] - ref[b][0]) > 1e-9:
                return f"measure{tg}: P({b}) = {got[b]} (sum of path weights), reference {ref[b][0]:.9f}", paths, nrandom
        if len(ref) > 1:
            nrandom += 1
    if ch_canon(base) != ch_canon(st.state):
        return "measurement on a copy modified the original CH form", paths, nrandom
    return None, paths, nrandom


def _g2_task(task):
    n, hist, set_name, flags = task
    viols = []
    out = []
    cnt = {"inv_states": 0, "meas_paths": 0, "meas_random_cases": 0}
    prng = no_random()
    try:
        st, psi = ch_replay(n, hist, prng)
    except Exception as e:  # noqa
        return hist, None, out, [{"case": ("g2replay", n, hist), "msg": f"replay raised {type(e).__name__}: {e}"}], cnt
    c0 = ch_canon(st.state)
    if flags & (F_INV1 | F_INV2):
        try:
            msg = ch_invariants_msg(n, st, psi)
        except Exception as e:  # noqa
            import traceback
            msg = f"unexpected {type(e).__name__}: {e}\n{traceback.format_exc(limit=6)}"
        cnt["inv_states"] += 1
        if msg:
            viols.append({"case": ("g2inv", n, hist), "msg": msg})
    if flags & F_MEAS:
        try:
            msg, paths, nr = ch_measure_msg(n, st, psi)
        except core.HarnessError:
            raise
        except Exception as e:  # noqa
            import traceback
            msg, paths, nr = f"unexpected {type(e).__name__}: {e}\n{traceback.format_exc(limit=6)}", 0, 0
        cnt["meas_paths"] += paths
        cnt["meas_random_cases"] += nr
        if msg:
            viols.append({"case": ("g2meas", n, hist), "msg": msg})
    for li in _SETS[n][set_name]:
        try:
            msg, c2, ref = g2_transition(n, st, psi, li)
        except Exception as e:  # noqa
            import traceback
            msg, c2, ref = f"unexpected {type(e).__name__}: {e}\n{traceback.format_exc(limit=6)}", None, None
        if msg:
            if len(viols) < 3:
                viols.append({"case": ("g2", n, hist, li), "msg": msg})
            out.append((li, None, None, None))
        else:
            out.append((li, c2, vkey(ref), ukey(ref)))
    if any(k > 1 for (k, _, _, _) in prng.ch.trace):
        viols.append({"case": ("g2", n, hist, -1), "msg": "a unitary Clifford letter consumed real randomness"})
    if ch_canon(st.state) != c0:
        viols.append({"case": ("g2", n, hist, -1), "msg": "acting on copies modified the original state"})
    return hist, c0, out, viols, cnt


def ch_bfs(name, n, plan, max_depth=None):
    res = StageResult(name)
    root = new_ch(n)
    e0 = np.zeros(2 ** n, dtype=complex)
    e0[0] = 1
    seen = {ch_canon(root.state): ()}
    vecs = {vkey(e0)}
    rays = {ukey(e0)}
    frontier = [()]
    depth = 0
    transitions = 0
    nontrivial = 0
    expanded = 0
    while frontier:
        if max_depth is not None and depth >= max_depth:
            break
        set_name, flags = plan(depth)
        tasks = [(n, h, set_name, flags) for h in frontier]
        chunk = max(1, min(32, len(tasks) // (core.NPROC * 6) or 1))
        outs = core.pmap(_g2_task, tasks, chunk=chunk)
        nxt = []
        for hist, c0, out, viols, cnt in outs:
            expanded += 1
            res.add_counters(cnt)
            for v in viols:
                res.violations.append({"index": len(res.violations), "case": core.jsonable(v["case"]),
                                       "msg": (v["msg"] + f"\ncase: {_fmt_case(v['case'])}")[:4000], "sig": {"kind": v["case"][0]}})
            for li, c2, vk, uk in out:
                transitions += 1
                if not _LET[n][li].trivial:
                    nontrivial += 1
                if c2 is None:
                    continue
                vecs.add(vk)
                rays.add(uk)
                if c2 not in seen:
                    seen[c2] = hist + (li,)
                    nxt.append(hist + (li,))
        depth += 1
        if len(res.samples) < 2 and nxt:
            res.samples.append({"n": n, "history": hist_names(n, nxt[len(nxt) // 2])})
        frontier = nxt
        if len(res.violations) >= 20:
            break
    closed = not frontier and not res.violations
    res.evaluations = transitions
    res.distinct_nontrivial_extra = nontrivial
    res.add_counters({"states": len(seen), "transitions": transitions, "traces_validated_against_impl": transitions,
                      "states_expanded": expanded, "max_depth": depth, "closed": 1 if closed else 0,
                      "distinct_reference_vectors": len(vecs), "distinct_reference_vectors_mod_phase": len(rays),
                      "frontier_left": len(frontier)})
    res.exhaustive = True
    res.note = (f"n={n}: {'closed orbit (fixpoint)' if closed else f'depth-bounded (depth {depth})'}; {len(seen)} CH representations, "
                f"{len(vecs)} distinct reference vectors incl. phase ({len(rays)} mod phase; full stabilizer orbit = "
                f"{ {1: 6, 2: 60, 3: 1080}[n] } x 8)")
    return res


def g2_replay(case):
    kind, n = case[0], case[1]
    hist = tuple(case[2])
    st, psi = ch_replay(n, hist)
    if kind == "g2replay":
        return None
    if kind == "g2inv":
        msg = ch_invariants_msg(n, st, psi)
    elif kind == "g2meas":
        msg = ch_measure_msg(n, st, psi)[0]
    elif kind == "g2":
        if case[3] < 0:
            return None
        msg = g2_transition(n, st, psi, case[3])[0]
    else:
        raise core.HarnessError(f"unknown case {case}")
    return bad(msg + f"\ncase: {_fmt_case(case)}", kind=kind) if msg else None


def replay_any(case):
    if case[0].startswith("g1"):
        return g1_replay(case)
    return g2_replay(case)


# ---------------------------------------------------------------------------------------------
# letters stage: the reference matrices are the letters' own unitaries; non-Clifford neighbours are rejected

REJECT = [
    ("X**0.25", lambda: cirq.X(Q[0]) ** 0.25), ("T", lambda: cirq.T(Q[0])), ("H**0.5", lambda: cirq.H(Q[0]) ** 0.5),
    ("CZ**0.5", lambda: cirq.CZ(Q[0], Q[1]) ** 0.5), ("CNOT**0.5", lambda: cirq.CNOT(Q[0], Q[1]) ** 0.5),
    ("SWAP**0.5", lambda: cirq.SWAP(Q[0], Q[1]) ** 0.5), ("ISWAP**0.5", lambda: cirq.ISWAP(Q[0], Q[1]) ** 0.5),
    ("CCZ", lambda: cirq.CCZ(Q[0], Q[1], Q[2])), ("Y**0.3[gs=.5]", lambda: cirq.YPowGate(exponent=0.3, global_shift=0.5).on(Q[1])),
    ("PhXZ(x=.25)", lambda: cirq.PhasedXZGate(x_exponent=0.25, z_exponent=0.5, axis_phase_exponent=0).on(Q[0])),
    ("Matrix(T.H)", lambda: cirq.MatrixGate(G.CONST["T"] @ G.CONST["H"]).on(Q[2])),
]


def run_letter(case):
    kind = case[0]
    if kind == "letter":
        _, n, li = case
        L = _LET[n][li]
        if not cirq.has_stabilizer_effect(L.op):
            return bad(f"has_stabilizer_effect({L.name}) is False for a Clifford operation", kind="letter")
        if not cirq.CliffordSimulator.is_supported_operation(L.op):
            return bad(f"CliffordSimulator.is_supported_operation({L.name}) is False", kind="letter")
        if L.axes == ():
            return good(nontrivial=False)
        u = cirq.unitary(L.op)
        if L.closed == "exact":
            if not close(L.mat, u):
                return bad(f"cirq.unitary({L.name}) differs from its closed form:\n{np.round(u, 4)}\nvs\n{np.round(L.mat, 4)}", kind="letter")
        else:
            if not prop_to(L.mat, u):
                return bad(f"cirq.unitary({L.name}) not proportional to the reference matrix", kind="letter")
        return good(nontrivial=not L.trivial)
    if kind == "reject":
        _, ri, which = case
        name, mk = REJECT[ri]
        op = mk()
        if cirq.has_stabilizer_effect(op):
            return bad(f"has_stabilizer_effect({name}) is True for a non-Clifford operation", kind="reject")
        st = new_tab(3) if which == 0 else new_ch(3)
        cirq.act_on(cirq.H(Q[0]), st)
        try:
            cirq.act_on(op, st)
        except TypeError:
            return good()
        return bad(f"act_on({name}) on a {'tableau' if which == 0 else 'CH-form'} state did not raise TypeError for a non-Clifford operation",
                   kind="reject")
    raise core.HarnessError(str(case))


def letter_cases():
    out = [("letter", n, li) for n in (1, 2, 3) for li in range(len(_LET[n]))]
    out += [("reject", ri, w) for ri in range(len(REJECT)) for w in (0, 1)]
    return out


# ---------------------------------------------------------------------------------------------
# SingleQubitCliffordGate: exhaustive algebra

PAULIS = (cirq.X, cirq.Y, cirq.Z)
PMAT = {cirq.X: G.PX, cirq.Y: G.PY, cirq.Z: G.PZ}
_C1 = None  # the 24 closed-form group elements mod phase (keys)


def c1_group_keys():
    global _C1
    if _C1 is None:
        gens = [G.CONST["H"], G.CONST["S"]]
        seen = {ukey(np.eye(2)): np.eye(2, dtype=complex)}
        fr = [np.eye(2, dtype=complex)]
        while fr:
            nx = []
            for m in fr:
                for g in gens:
                    m2 = g @ m
                    k = ukey(m2)
                    if k not in seen:
                        seen[k] = m2
                        nx.append(m2)
            fr = nx
        if len(seen) != 24:
            raise core.HarnessError("closed-form single-qubit Clifford group has != 24 elements")
        _C1 = seen
    return _C1


def sqc(i):
    return SQC.all_single_qubit_cliffords[i]


def conj_pauli(U, P):
    """(pauli, flip) with U P U^dagger = (+-) pauli, or None."""
    M = U @ PMAT[P] @ U.conj().T
    for p in PAULIS:
        if close(M, PMAT[p], 1e-7):
            return (p, False)
        if close(M, -PMAT[p], 1e-7):
            return (p, True)
    return None


def gates_product(gates):
    U = np.eye(2, dtype=complex)
    for g in gates:
        U = op_matrix(g.on(Q[0])) @ U
    return U


def run_algebra(case):
    kind = case[0]
    if kind == "pair":
        _, i, j = case
        gi, gj = sqc(i), sqc(j)
        Ui, Uj = cirq.unitary(gi), cirq.unitary(gj)
        m = gi.merged_with(gj)
        if not prop_to(Uj @ Ui, cirq.unitary(m)):
            return bad(f"SQC[{i}].merged_with(SQC[{j}]) is not proportional to U_j U_i", kind="merged_with")
        ti, tj = gi.clifford_tableau, gj.clifford_tableau
        msg = tab_conj_msg(1, ti.then(tj), Uj @ Ui)
        if msg:
            return bad(f"tableau[{i}].then(tableau[{j}]): {msg}", kind="then")
        msg = tab_conj_msg(1, ti @ tj, Ui @ Uj)
        if msg:
            return bad(f"tableau[{i}] @ tableau[{j}]: {msg}", kind="matmul")
        b = gi.equivalent_gate_before(gj)
        if not prop_to(Uj @ Ui, Ui @ cirq.unitary(b)):
            return bad(f"SQC[{i}].equivalent_gate_before(SQC[{j}]): --out--self-- is not equivalent to --self--gate--", kind="equivalent_gate_before")
        com = prop_to(Ui @ Uj, Uj @ Ui)
        if gi.commutes_with_single_qubit_gate(gj) != com:
            return bad(f"SQC[{i}].commutes_with_single_qubit_gate(SQC[{j}]) = {not com}, matrices commute up to phase: {com}", kind="commutes")
        if cirq.commutes(gi, gj) != com:
            return bad(f"cirq.commutes(SQC[{i}], SQC[{j}]) = {not com}, matrices commute up to phase: {com}", kind="commutes")
        if (gi == gj) != (i == j) or (i == j and hash(gi) != hash(gj)):
            return bad(f"SQC[{i}] == SQC[{j}] is {gi == gj}", kind="eq")
        if j < 3:
            P = PAULIS[j]
            exact = close(Ui @ PMAT[P], PMAT[P] @ Ui, 1e-7)
            if gi.commutes_with_pauli(P) != exact:
                return bad(f"SQC[{i}].commutes_with_pauli({P}) = {not exact}, U P == P U is {exact}", kind="commutes_pauli")
            if cirq.commutes(gi, P) != exact:
                return bad(f"cirq.commutes(SQC[{i}], {P}) = {not exact}, U P == P U is {exact}", kind="commutes_pauli")
        return good(nontrivial=i != 0 and j != 0)
    if kind == "elem":
        _, i = case
        g = sqc(i)
        U = cirq.unitary(g)
        if ukey(U) not in c1_group_keys():
            return bad(f"cirq.unitary(SQC[{i}]) is not a Clifford matrix", kind="unitary")
        msg = tab_conj_msg(1, g.clifford_tableau, U)
        if msg:
            return bad(f"SQC[{i}] tableau vs its unitary: {msg}", kind="unitary")
        gen = np.exp(1j * core.generic(_SEED))
        for k in list(range(8)) + ["generic"]:
            ph = gen if k == "generic" else _ph(k)
            u = ph * U
            f = SQC.from_unitary(u)
            if f is None or not (f == g):
                return bad(f"from_unitary(phase {ph:.4f} * U[{i}]) returned {f!r}", kind="from_unitary")
            r = SQC.from_unitary_with_global_phase(u)
            if r is None or not (r[0] == g):
                return bad(f"from_unitary_with_global_phase(phase {ph:.4f} * U[{i}]) returned gate {r!r}", kind="from_unitary_phase")
            if not close(complex(r[1]) * cirq.unitary(r[0]), u) or abs(complex(r[1]) - ph) > 1e-8:
                return bad(f"from_unitary_with_global_phase(phase {ph:.4f} * U[{i}]) returned phase {r[1]}: phase*unitary(gate) != input", kind="from_unitary_phase")
        z = g.to_phased_xz_gate()
        zc = G.phased_xz(float(z.x_exponent), float(z.z_exponent), float(z.axis_phase_exponent))
        if not prop_to(U, zc) or not prop_to(U, cirq.unitary(z)):
            return bad(f"SQC[{i}].to_phased_xz_gate() = {z!r} is not proportional to the gate's unitary", kind="to_phased_xz")
        dg = g.decompose_gate()
        if not close(U, gates_product(dg)):
            return bad(f"SQC[{i}].decompose_gate() = {list(dg)} does not multiply to cirq.unitary(gate) incl. phase", kind="decompose_gate")
        do = cirq.decompose_once(g.on(Q[0]))
        if not close(U, ops_product(1, do, Q[:1])):
            return bad(f"decompose_once(SQC[{i}]) does not multiply to cirq.unitary(gate)", kind="decompose_gate")
        rot = g.decompose_rotation()
        if len(rot) > 2:
            return bad(f"SQC[{i}].decompose_rotation() has {len(rot)} rotations (documented: zero, one or two)", kind="decompose_rotation")
        R = np.eye(2, dtype=complex)
        for p, qt in rot:
            R = {cirq.X: G.xpow, cirq.Y: G.ypow, cirq.Z: G.zpow}[p](qt / 2) @ R
        if not prop_to(U, R):
            return bad(f"SQC[{i}].decompose_rotation() = {rot} is not proportional to the gate", kind="decompose_rotation")
        for P in PAULIS:
            want = conj_pauli(U, P)
            got = g.pauli_tuple(P)
            if want is None or got[0] != want[0] or bool(got[1]) != want[1]:
                return bad(f"SQC[{i}].pauli_tuple({P}) = {got}, U P U^dagger is {want}", kind="pauli_tuple")
            d = g.dense_pauli_string(P)
            if not close(dps_matrix(d), U @ PMAT[P] @ U.conj().T, 1e-7):
                return bad(f"SQC[{i}].dense_pauli_string({P}) = {d}", kind="pauli_tuple")
        Ud = U.conj().T
        for e in range(-4, 27):
            ge = g ** e
            if not isinstance(ge, SQC) or not prop_to(np.linalg.matrix_power(U if e >= 0 else Ud, abs(e)), cirq.unitary(ge)):
                return bad(f"SQC[{i}] ** {e} is not proportional to U^{e}", kind="pow")
        if not prop_to(Ud, cirq.unitary(cirq.inverse(g))):
            return bad(f"cirq.inverse(SQC[{i}]) wrong", kind="pow")
        for e in (0.5, -0.5, 1.5, -1.5, 2.5):
            try:
                ge = g ** e
            except TypeError:
                if i in (1, 2, 3):
                    return bad(f"Pauli SQC[{i}] ** {e} is not defined", kind="pow_half")
                continue
            Ue = cirq.unitary(ge)
            tgt = np.linalg.matrix_power(U if e >= 0 else Ud, int(abs(2 * e)))
            if not prop_to(tgt, Ue @ Ue):
                return bad(f"(SQC[{i}] ** {e}) squared is not proportional to U^{2 * e}", kind="pow_half")
        c = cirq.CliffordGate.from_clifford_tableau(g.clifford_tableau.copy())
        if not (c == g) or not (g == c) or hash(c) != hash(g):
            return bad(f"SQC[{i}] != CliffordGate with the same tableau", kind="eq")
        if cirq.num_qubits(g) != 1 or not cirq.has_stabilizer_effect(g):
            return bad("num_qubits/has_stabilizer_effect", kind="eq")
        return good()
    if kind == "map":
        return run_map(case)
    if kind == "named":
        return run_named(case)
    if kind == "nonclifford":
        T = G.CONST["T"]
        for nm, u in (("T", T), ("T.H", T @ G.CONST["H"]), ("generic", E.generic_unitary(2, _SEED)), ("X**0.25", G.xpow(0.25)),
                      ("not unitary", np.array([[1, 1], [0, 1]], dtype=complex)), ("3x3", np.eye(3, dtype=complex)),
                      ("4x4", np.eye(4, dtype=complex))):
            if SQC.from_unitary(u) is not None or SQC.from_unitary_with_global_phase(u) is not None:
                return bad(f"from_unitary({nm}) did not return None", kind="from_unitary")
        return good()
    if kind == "cache":
        return run_cache(case)
    raise core.HarnessError(str(case))


def _gate_for(U):
    """The SQC whose unitary is proportional to U (by matrix search)."""
    k = ukey(U)
    for i in range(24):
        if ukey(cirq.unitary(sqc(i))) == k:
            return i
    return None


def run_map(case):
    _, sub = case[0], case[1]
    if sub == "xz":
        _, _, px, fx, pz, fz = case
        g = SQC.from_xz_map((PAULIS[px], bool(fx)), (PAULIS[pz], bool(fz)))
        U = cirq.unitary(g)
        if conj_pauli(U, cirq.X) != (PAULIS[px], bool(fx)) or conj_pauli(U, cirq.Z) != (PAULIS[pz], bool(fz)):
            return bad(f"from_xz_map(x_to=({PAULIS[px]},{bool(fx)}), z_to=({PAULIS[pz]},{bool(fz)})): unitary conjugates X to "
                       f"{conj_pauli(U, cirq.X)} and Z to {conj_pauli(U, cirq.Z)}", kind="from_xz_map")
        return good()
    if sub == "single":
        _, _, frm, to, flip, style = case
        kw = {"xyz"[frm] + "_to": (PAULIS[to], bool(flip))}
        g = SQC.from_single_map({PAULIS[frm]: (PAULIS[to], bool(flip))}) if style else SQC.from_single_map(**kw)
        U = cirq.unitary(g)
        if conj_pauli(U, PAULIS[frm]) != (PAULIS[to], bool(flip)) or g.pauli_tuple(PAULIS[frm]) != (PAULIS[to], bool(flip)):
            return bad(f"from_single_map({kw}): gate maps {PAULIS[frm]} to {conj_pauli(U, PAULIS[frm])}", kind="from_single_map")
        if not prop_to(np.eye(2), np.linalg.matrix_power(U, 4)):
            return bad(f"from_single_map({kw}) is not a 90 or 180 degree rotation", kind="from_single_map")
        return good()
    if sub == "double":
        _, _, f1, f2, t1, t2, fl1, fl2, style = case
        m = {PAULIS[f1]: (PAULIS[t1], bool(fl1)), PAULIS[f2]: (PAULIS[t2], bool(fl2))}
        try:
            if style:
                g = SQC.from_double_map(m)
            else:
                kw = {"xyz"[f1] + "_to": m[PAULIS[f1]], "xyz"[f2] + "_to": m[PAULIS[f2]]}
                g = SQC.from_double_map(**kw)
        except ValueError:
            if t1 == t2:
                return Res(skipped=True, nontrivial=False)
            raise
        if t1 == t2:
            return bad(f"from_double_map({m}) accepted two Paulis mapped to the same Pauli", kind="from_double_map")
        U = cirq.unitary(g)
        for f in (f1, f2):
            if conj_pauli(U, PAULIS[f]) != m[PAULIS[f]] or g.pauli_tuple(PAULIS[f]) != m[PAULIS[f]]:
                return bad(f"from_double_map({m}): gate maps {PAULIS[f]} to {conj_pauli(U, PAULIS[f])}", kind="from_double_map")
        return good()
    if sub == "quarter":
        _, _, p, qt = case
        g = SQC.from_quarter_turns(PAULIS[p], qt)
        ref = (G.xpow, G.ypow, G.zpow)[p](qt / 2)
        if not prop_to(ref, cirq.unitary(g)):
            return bad(f"from_quarter_turns({PAULIS[p]}, {qt}) is not proportional to {PAULIS[p]}**{qt / 2}", kind="from_quarter_turns")
        return good(nontrivial=qt % 4 != 0)
    if sub == "pauli":
        _, _, p, sq = case
        g = SQC.from_pauli(PAULIS[p], bool(sq))
        ref = (G.xpow, G.ypow, G.zpow)[p](0.5 if sq else 1)
        if not prop_to(ref, cirq.unitary(g)):
            return bad(f"from_pauli({PAULIS[p]}, sqrt={bool(sq)}) wrong", kind="from_pauli")
        return good()
    raise core.HarnessError(str(case))


def run_named(case):
    C = G.CONST
    S = SQC
    named1 = [("I", S.I, G.I2), ("X", S.X, G.PX), ("Y", S.Y, G.PY), ("Z", S.Z, G.PZ), ("H", S.H, C["H"]), ("S", S.S, C["S"]),
              ("X_sqrt", S.X_sqrt, G.xpow(0.5)), ("X_nsqrt", S.X_nsqrt, G.xpow(-0.5)), ("Y_sqrt", S.Y_sqrt, G.ypow(0.5)),
              ("Y_nsqrt", S.Y_nsqrt, G.ypow(-0.5)), ("Z_sqrt", S.Z_sqrt, G.zpow(0.5)), ("Z_nsqrt", S.Z_nsqrt, G.zpow(-0.5))]
    for nm, g, ref in named1:
        if not prop_to(ref, cirq.unitary(g)):
            return bad(f"SingleQubitCliffordGate.{nm} is not proportional to its closed form", kind="named")
    named2 = [("CliffordGate.CNOT", cirq.CliffordGate.CNOT, C["CNOT"]), ("CliffordGate.CZ", cirq.CliffordGate.CZ, C["CZ"]),
              ("CliffordGate.SWAP", cirq.CliffordGate.SWAP, C["SWAP"]), ("CXSWAP", cirq.CXSWAP, C["CXSWAP"]),
              ("CZSWAP", cirq.CZSWAP, C["CZSWAP"])]
    for nm, g, ref in named2:
        if not prop_to(ref, cirq.unitary(g)):
            return bad(f"{nm} unitary is not proportional to its closed form", kind="named")
        msg = tab_conj_msg(2, g.clifford_tableau, ref)
        if msg:
            return bad(f"{nm} tableau: {msg}", kind="named")
    if len({ukey(cirq.unitary(sqc(i))) for i in range(24)}) != 24 or len(set(SQC.all_single_qubit_cliffords)) != 24:
        return bad("all_single_qubit_cliffords are not 24 distinct group elements", kind="named")
    return good()


def run_cache(case):
    """Cache history: a live (mutable) tableau converted to a gate / hashed between in-place updates."""
    _, n, seq = case
    L = _LET[n]
    st = new_tab(n)
    U = np.eye(2 ** n, dtype=complex)
    conv = SQC if n == 1 else cirq.CliffordGate
    hash_msg = None
    for step, li in enumerate(seq):
        t = st.tableau
        conv.from_clifford_tableau(t)  # conversion BEFORE the update (fills any cache keyed by the live object)
        hash(t)
        cirq.act_on(L[li].op, st)
        U = L[li].full @ U
        t = st.tableau
        g1 = conv.from_clifford_tableau(t)
        names = hist_names(n, seq[:step + 1])
        if not (g1.clifford_tableau == t):
            return bad(f"from_clifford_tableau(live tableau) after {names} (converted before each update) returned a gate whose tableau "
                       f"differs from the argument (stale cached result):\nargument:\n{t._str_full_()}\ngate:\n"
                       f"{g1.clifford_tableau._str_full_()}", kind="stale_tableau_cache")
        msg = tab_conj_msg(n, g1.clifford_tableau, U)
        if msg:
            return bad(f"from_clifford_tableau after {names}: {msg}", kind="stale_tableau_cache")
        fresh = cirq.CliffordTableau(n, rs=t.rs.copy(), xs=t.xs.copy(), zs=t.zs.copy())
        if not (fresh == t):
            return bad("a tableau built from copies of the arrays != the tableau", kind="tableau_eq")
        if hash(fresh) != hash(t) and hash_msg is None:
            hash_msg = (f"after {names}: tableau == an independently built equal tableau but their hashes differ "
                        f"(hash cached before the in-place update)")
    if hash_msg:
        return bad(hash_msg, kind="stale_tableau_hash")
    return good()


def algebra_cases(tier):
    out = [("named",), ("nonclifford",)]
    out += [("elem", i) for i in range(24)]
    out += [("pair", i, j) for i in range(24) for j in range(24)]
    for px in range(3):
        for pz in range(3):
            if px != pz:
                for fx in (0, 1):
                    for fz in (0, 1):
                        out.append(("map", "xz", px, fx, pz, fz))
    for frm in range(3):
        for to in range(3):
            for flip in (0, 1):
                for style in (0, 1):
                    out.append(("map", "single", frm, to, flip, style))
    for f1, f2 in itertools.permutations(range(3), 2):
        for t1 in range(3):
            for t2 in range(3):
                for fl1 in (0, 1):
                    for fl2 in (0, 1):
                        for style in (0, 1):
                            out.append(("map", "double", f1, f2, t1, t2, fl1, fl2, style))
    for p in range(3):
        for qt in range(-5, 7):
            out.append(("map", "quarter", p, qt))
        for sq in (0, 1):
            out.append(("map", "pauli", p, sq))
    return out


def cache_cases(tier):
    out = []
    c1 = [i for i in _SETS[1]["core"] if not _LET[1][i].trivial][:6]
    for L in (1, 2, 3):
        for seq in itertools.product(c1, repeat=L):
            out.append(("cache", 1, seq))
    c2 = [i for i in _SETS[2]["core"] if not _LET[2][i].trivial]
    c2 = [i for i in c2 if _LET[2][i].name in ("H(0)", "S(1)", "CNOT(0,1)", "CZ(0,1)", "X(1)")]
    for L in (1, 2, 3):
        for seq in itertools.product(c2, repeat=L):
            out.append(("cache", 2, seq))
    return out


# ---------------------------------------------------------------------------------------------
# simulators: exact outcome distributions over all scripted-PRNG paths vs the reference interpreter


def sim_letters():
    a, b, c = Q
    return [
        # name, op, needs-keys
        ("H(a)", cirq.H(a), ()),
        ("H(b)", cirq.H(b), ()),
        ("S(a)", cirq.S(a), ()),
        ("Y(c)**0.5[gs=.5]", cirq.YPowGate(exponent=0.5, global_shift=0.5).on(c), ()),
        ("CNOT(a,b)", cirq.CNOT(a, b), ()),
        ("CNOT(b,c)", cirq.CNOT(b, c), ()),
        ("CZ(c,a)", cirq.CZ(c, a), ()),
        ("SWAP(a,c)", cirq.SWAP(a, c), ()),
        ("SQC[19](b)", SQC.all_single_qubit_cliffords[19].on(b), ()),
        ("M(a;m)", cirq.measure(a, key="m"), ()),
        ("M(b;m)", cirq.measure(b, key="m"), ()),
        ("M(c,b;k)", cirq.measure(c, b, key="k"), ()),
        ("M(b;n,inv)", cirq.measure(b, key="n", invert_mask=(True,)), ()),
        ("X(b)?m", cirq.X(b).with_classical_controls("m"), ("m",)),
        ("H(c)?m", cirq.H(c).with_classical_controls("m"), ("m",)),
        ("Z(a)?k", cirq.Z(a).with_classical_controls("k"), ("k",)),
        ("R(b)", cirq.ResetChannel().on(b), ()),
    ]


SIM_PREPS = [
    ("none", []),
    ("bell", [cirq.H(Q[0]), cirq.CNOT(Q[0], Q[1]), cirq.S(Q[1])]),
    ("ghz", [cirq.H(Q[0]), cirq.CNOT(Q[0], Q[1]), cirq.CNOT(Q[1], Q[2]), cirq.S(Q[2]) ** -1, cirq.H(Q[1])]),
]
SIM_CONFIGS = ["sim", "sim_split", "run1", "run2_split", "sampler1", "sampler2", "sim_keepmut", "sim_split_keepmut"]
_SL = None


def _sim_init():
    global _SL
    if _SL is None:
        _SL = sim_letters()


def sim_valid(seq):
    have = set()
    for li in seq:
        for k in _SL[li][2]:
            if k not in have:
                return False
        have |= set(cirq.measurement_key_names(_SL[li][1]))
    return True


def records_of_step(circ, sim):
    recs = []
    last = None
    for step, moment in zip(sim.simulate_moment_steps(circ, qubit_order=list(Q)), circ):
        for op in moment.operations:
            for k in sorted(cirq.measurement_key_names(op)):
                recs.append((k, tuple(int(x) for x in step.measurements[k])))
        last = step
    return tuple(recs), last


def run_sim(case):
    prep_i, seq, ci = case
    cfg = SIM_CONFIGS[ci]
    ops = list(SIM_PREPS[prep_i][1]) + [_SL[li][1] for li in seq]
    circ = cirq.Circuit(ops)
    has_meas = circ.has_measurements()
    ref = interp.run(circ, list(Q))
    nontrivial = len(ref) >= 2
    if cfg.startswith("sim"):
        split = "split" in cfg
        mutate = cfg.endswith("keepmut")
        who = f"CliffordSimulator(split_untangled_states={split})"
        unitary_circuit = not has_meas and not any(isinstance(o.gate, cirq.ResetChannel) for o in ops)
        prefix_ref = None
        if unitary_circuit:
            # amplitudes incl. global phase after every moment
            prefix_ref = []
            v = np.zeros(8, dtype=complex)
            v[0] = 1
            for moment in circ:
                for op in moment.operations:
                    v = E.embed(op_matrix(op), [q.x for q in op.qubits], (2, 2, 2)) @ v
                prefix_ref.append(v)
        X0 = E.embed(G.PX, [0], (2, 2, 2))
        got = {}
        npaths = 0

        def one(ch):
            """Keeps every step's state object past the following moments; compares only after the iteration ended."""
            sim = cirq.CliffordSimulator(seed=ScriptedRandomState(ch), split_untangled_states=split)
            recs = []
            kept = []
            for i, (step, moment) in enumerate(zip(sim.simulate_moment_steps(circ, qubit_order=list(Q)), circ)):
                for op in moment.operations:
                    for k in sorted(cirq.measurement_key_names(op)):
                        recs.append((k, tuple(int(x) for x in step.measurements[k])))
                st = step.state
                lock = np.array(st.state_vector(), dtype=complex)  # value seen in lock-step
                kept.append((st, lock, {k: tuple(int(x) for x in v) for k, v in step.measurements.items()}, step))
                if mutate:
                    st.apply_unitary(cirq.X(Q[0]))  # the handed-out state is a snapshot: editing it must not leak back
            err = None
            for i, (st, lock, meas, step) in enumerate(kept):
                now = np.asarray(st.state_vector(), dtype=complex)
                want = X0 @ lock if mutate else lock
                if not close(want, now):
                    err = (f"{who}: the state handed out by step {i} of simulate_moment_steps (kept while later moments were "
                           f"simulated{', after X(q0) was applied to the kept copy' if mutate else ''}) changed: in lock-step "
                           f"{np.round(lock, 4)}{' (x X0)' if mutate else ''}, after the iteration {np.round(now, 4)}")
                    break
                if {k: tuple(int(x) for x in v) for k, v in step.measurements.items()} != meas:
                    err = f"{who}: measurements of kept step {i} changed after later moments"
                    break
                if prefix_ref is not None:
                    m = vec_msg(prefix_ref[i], lock, f"{who} state_vector() after moment {i}"
                                + (" (earlier handed-out states were edited by the caller)" if mutate else ""))
                    if m:
                        err = m
                        break
            return tuple(recs), kept[-1][1], err

        for ch, (rec, psi, err) in explore(one, max_paths=4096):
            npaths += 1
            if err:
                return bad(f"{err}\n{circ}", kind="sim_kept_state" if "handed out" in err or "kept step" in err else "sim_vector", config=cfg)
            rho = np.outer(psi, psi.conj())
            if rec in got:
                p0, r0 = got[rec]
                got[rec] = (p0 + ch.weight, r0 + ch.weight * rho)
            else:
                got[rec] = (ch.weight, ch.weight * rho)
        got = {k: (p, r / p) for k, (p, r) in got.items()}
        msg = interp.compare_dists(ref, got, atol=1e-8)
        if msg:
            return bad(f"{who}.simulate_moment_steps{' (handed-out states edited by the caller)' if mutate else ''}: {msg}\n{circ}",
                       kind="sim_distribution", config=cfg)
        return Res(ok=True, nontrivial=nontrivial or len(circ) >= 2, counters={"paths": npaths})
    if not has_meas:
        return Res(skipped=True, nontrivial=False)
    reps = 2 if "2" in cfg else 1
    ref_single = {}
    for rec, (p, _) in ref.items():
        key = interp.canon_record(rec)
        ref_single[key] = ref_single.get(key, 0.0) + p
    ref_multi = {}
    for combo in itertools.product(ref_single.items(), repeat=reps):
        p = 1.0
        for _, pi in combo:
            p *= pi
        key = tuple(k for k, _ in combo)
        ref_multi[key] = ref_multi.get(key, 0.0) + p
    sampler = cfg.startswith("sampler")
    if sampler:
        # StabilizerSampler reports ResultDict(measurements=...): one row per key; skip repeated keys and resets
        keys = [k for o in ops for k in cirq.measurement_key_names(o)]
        if len(keys) != len(set(keys)):
            return Res(skipped=True, nontrivial=False)
    got = {}
    npaths = 0

    def one(ch):
        prng = ScriptedRandomState(ch)
        prng.vector_mode = "dfs"
        if sampler:
            res = cirq.StabilizerSampler(seed=prng).run(circ, repetitions=reps)
        else:
            res = cirq.CliffordSimulator(seed=prng, split_untangled_states="split" in cfg).run(circ, repetitions=reps)
        out = []
        for r in range(reps):
            d = []
            for k in sorted(res.records.keys()):
                arr = res.records[k]
                if arr.shape[0] != reps:
                    raise AssertionError(f"records[{k}].shape = {arr.shape}, repetitions = {reps}")
                d.append((k, tuple(tuple(int(x) for x in inst) for inst in arr[r])))
            out.append(tuple(d))
        return tuple(out)

    for ch, key in explore(one, max_paths=20000):
        npaths += 1
        got[key] = got.get(key, 0.0) + ch.weight
    kr = {k for k, p in ref_multi.items() if p > 1e-9}
    kg = {k for k, p in got.items() if p > 1e-9}
    who = "StabilizerSampler" if sampler else f"CliffordSimulator(split={'split' in cfg})"
    if kr != kg:
        return bad(f"{who}.run(repetitions={reps}): record supports differ: only reference {sorted(kr - kg)[:3]}, only implementation "
                   f"{sorted(kg - kr)[:3]}\n{circ}", kind="run_support", config=cfg)
    for k in kr:
        if abs(ref_multi[k] - got[k]) > 1e-8:
            return bad(f"{who}.run(repetitions={reps}): P({k}) = {got[k]:.9f}, reference {ref_multi[k]:.9f}\n{circ}", kind="run_distribution", config=cfg)
    return Res(ok=True, nontrivial=len(ref_single) >= 2, counters={"paths": npaths})


def sim_describe(case):
    prep_i, seq, ci = case
    return {"prep": SIM_PREPS[prep_i][0], "letters": [_SL[i][0] for i in seq], "config": SIM_CONFIGS[ci]}


def sim_cases(tier):
    _sim_init()
    nL = len(_SL)
    out = []
    if tier == "quick":
        plan = [(0, 3), (1, 2), (2, 2)]
    else:
        plan = [(0, 4), (1, 3), (2, 3)]
    for prep_i, Lmax in plan:
        for L in range(1, Lmax + 1):
            for seq in itertools.product(range(nL), repeat=L):
                if not sim_valid(seq):
                    continue
                if L >= 3 and not any(cirq.is_measurement(_SL[li][1]) for li in seq):
                    continue  # long measurement-free circuits are G2's job
                for ci in range(len(SIM_CONFIGS)):
                    if L == 4 and ci in (3, 5, 7):
                        continue
                    out.append((prep_i, seq, ci))
    return out


# ---------------------------------------------------------------------------------------------


def make_tab_stage(name, n, plan, max_depth=None, expect=None):
    return CustomStage(name, lambda: tab_bfs(name, n, plan, max_depth, expect), replay_any)


def make_ch_stage(name, n, plan, max_depth=None):
    return CustomStage(name, lambda: ch_bfs(name, n, plan, max_depth), replay_any)


def stages(tier, seed):
    _init(seed)
    _sim_init()
    reset = lambda: (_init(seed), _sim_init())
    ALLF = F_INV2 | F_MEAS
    out = [
        CaseStage("letters_reference_and_rejections", letter_cases(), run_letter, reset=reset),
        CaseStage("single_qubit_clifford_algebra", algebra_cases(tier), run_algebra, reset=reset),
        CaseStage("tableau_cache_history", cache_cases(tier), run_algebra, reset=reset),
        make_tab_stage("G1_tableau_closure_n1", 1, lambda d: ("all", ALLF), expect=24),
        make_ch_stage("G2_chform_closure_n1", 1, lambda d: ("all", ALLF)),
    ]
    if tier == "quick":
        out += [
            make_tab_stage("G1_tableau_closure_n2", 2, lambda d: ("all" if d <= 1 else "core", ALLF), expect=11520),
            make_ch_stage("G2_chform_closure_n2", 2, lambda d: ("all" if d <= 1 else "core", ALLF)),
            make_tab_stage("G3_tableau_n3_depth3", 3, lambda d: ("g3", F_INV1 | F_MEAS if d <= 1 else F_INV1), max_depth=3),
        ]
    else:
        out += [
            make_tab_stage("G1_tableau_closure_n2", 2, lambda d: ("all" if d <= 2 else "fast_tab", ALLF), expect=11520),
            make_ch_stage("G2_chform_closure_n2", 2, lambda d: ("all" if d <= 2 else "fast", ALLF)),
            make_tab_stage("G3_tableau_n3_all_letters_depth2", 3, lambda d: ("all", F_INV1 | F_MEAS), max_depth=2),
            make_tab_stage("G3_tableau_n3_depth4", 3, lambda d: ("g3" if d <= 2 else "core", F_INV1 | F_MEAS if d <= 2 else F_INV1), max_depth=4),
            make_tab_stage("G3_tableau_n3_generators_depth5", 3, lambda d: ("gen", F_INV1 if d <= 3 else 0), max_depth=5),
            make_ch_stage("G2_chform_n3_all_letters_depth2", 3, lambda d: ("all", F_INV1 | F_MEAS), max_depth=2),
            make_ch_stage("G2_chform_n3_depth3", 3, lambda d: ("g3", F_INV1 | F_MEAS), max_depth=3),
            make_ch_stage("G2_chform_n3_generators_depth5", 3, lambda d: ("gen_gp", (F_INV1 | F_MEAS) if d <= 2 else 0), max_depth=5),
        ]
    out.append(CaseStage("simulator_distributions_all_paths", sim_cases(tier), run_sim, reset=reset, describe=sim_describe))
    return out
