"""C15 -- analytical decompositions rebuild their input within documented bounds.

Bounded-exhaustive (E1): a finite stand-in for "all unitaries", built to contain the measure-zero cases
(Cliffords, Weyl-chamber lattice incl. faces/edges/vertices, +-1e-7 perturbations, degenerate spectra,
named gates, generic representatives), crossed with every routine and option of the anchored modules.
Oracle: the product of the returned factors / the reference-embedded unitary of the returned operations
(mc/ref/embed.py with cirq.unitary of each *single* op) equals the input exactly or up to global phase as
each docstring states, within max(10 x routine atol, 1e-7); plus the promised form (gate types, gate counts,
canonical ranges).  The Weyl class of every two-qubit input is known by construction (mc/ref/c15lib.py).
"""
from __future__ import annotations

import itertools
import math

import numpy as np
import sympy
import cirq
import cirq_google

from mc import core
from mc.core import CaseStage, Res, bad, good
from mc.ref import embed as E
from mc.ref import gates as G
from mc.ref import c15lib as L

PROPERTY = "C15"
LEVEL = "exploration"
RULE = ("inputs = finite stand-in for all unitaries: S1 (24 Cliffords x 8 phases, RzRyRz on {0,pi/2,pi,generic,pi-1e-7}^3, "
        "exp(i eps H)), S2 = K1.exp(i(xXX+yYY+zZZ)).K2 over the full Weyl lattice {-pi/4..3pi/8}^3, chamber "
        "vertices/edges/faces +-1e-7 in all 26 directions and 2-3 equivalent presentations, named gates, degenerate spectra, "
        "generic points, with K in {1, Cliffords x 1, H x S, generic x generic}; S3 (CCZ/CCX/CSWAP/QFT3/local x S2/"
        "multiplexers with degenerate cosine-sine angles/generic); all 24 / 11520 Clifford tableaux; 60 stabilizer states; "
        "every routine x every option flag is run on every element; a case is non-trivial when at least one routine returned "
        "a decomposition that was compared with the input; distinct = distinct (stage, input descriptor)")
TECHNIQUE = ("bounded-exhaustive enumeration of a Weyl-chamber lattice (with boundary perturbations) x routine x option; "
             "reconstruction by an independent embedding reference; gate counts against classes known by construction")
LEVEL_TEXT = ("Every routine/option of the anchored decomposition modules is executed on every element of a finite input set "
              "that contains the measure-zero classes where numerical linear algebra fails (identity, local, CNOT/iSWAP/SWAP "
              "classes, chamber boundaries, degenerate spectra, 1e-7 perturbations). The returned factors/operations are "
              "multiplied by an independent reference and compared with the input; counts and canonical forms are compared "
              "with the class known from the construction of the input. Nothing is sampled; the bound is the input alphabet.")
LEVEL_NOTE = ("trusted: numpy/scipy; cirq.unitary of single returned operations (tied to closed forms by C03/C04); the closed-form "
              "gate matrices of mc/ref/gates.py; Makhlin invariants validate the claimed Weyl vectors of named gates at start-up")
ASSUMPTIONS = [
    "numpy / scipy linear algebra",
    "cirq.unitary of a single returned operation (X/Y/Z/PhasedX/PhasedXZ/CZ/CNOT/CCX/ISWAP/FSim/MS/SYC/MatrixGate powers) is "
    "correct (tied to closed forms by C03/C04); the product over the circuit is formed by mc/ref/embed.py",
    "inputs are finite representatives: 'all unitaries' is bounded by the documented alphabet",
    "at the +-1e-7 perturbed points and wherever the class is ambiguous at the 1e-10..1e-3 scale only upper bounds on gate "
    "counts and reconstruction are demanded",
]

PI = math.pi
TOL = 1e-7
Q2 = cirq.LineQubit.range(2)
Q3 = cirq.LineQubit.range(3)

_S = {}


def _init(seed):
    if _S.get("seed") == seed:
        return
    gen = (core.generic(seed, 0), core.generic(seed, 1), core.generic(seed, 2))
    _S.clear()
    _S["seed"] = seed
    _S["gen"] = gen
    _S["s2"] = L.S2(seed, gen)
    _S["s3"] = None


def _seed():
    return core.seed_from_env()


def gen():
    return _S["gen"]


def s2():
    return _S["s2"]


def s3():
    if _S.get("s3") is None:
        _S["s3"] = L.s3_list(_S["seed"], _S["gen"], _S["s2"])
    return _S["s3"]


# ------------------------------------------------------------------------------------------------
# reference evaluation of returned operations


def q2_layout(desc):
    """Qubit pair handed to a routine: sorted order or reversed (q0 > q1), chosen by descriptor parity.
    Results are always evaluated in the order (q0, q1) that was handed over."""
    par = sum(int(t) for t in desc if isinstance(t, (int, np.integer))) % 2
    return list(Q2) if par == 0 else [Q2[1], Q2[0]]


PERM3 = list(itertools.permutations(range(3)))


def flat_ops(tree):
    return list(cirq.flatten_to_ops(tree))


def ops_unitary(ops, qubits):
    """Unitary of a list of cirq operations: cirq.unitary of each single op, composed by the embed reference."""
    idx = {q: i for i, q in enumerate(qubits)}
    seq = []
    for op in ops:
        m = cirq.unitary(op, None)
        if m is None:
            raise ValueError(f"returned operation without unitary: {op!r}")
        seq.append((m, [idx[q] for q in op.qubits]))
    return E.apply_ops(seq, (2,) * len(qubits))


def nq(op):
    return len(op.qubits)


def is_gpo(op):
    return isinstance(op.gate, cirq.GlobalPhaseGate)


class Fails:
    """Collects failures of one case and error maxima."""

    def __init__(self, name):
        self.name = name
        self.items = []
        self.counters = {}
        self.compared = 0

    def add(self, kind, msg):
        self.items.append((kind, msg))

    def err(self, key, val):
        k = "max_err_" + key
        if not (val <= self.counters.get(k, 0.0)):
            self.counters[k] = float(val) if np.isfinite(val) else 1e9

    def count(self, key, n=1):
        self.counters[key] = self.counters.get(key, 0) + n

    def need(self, cond, kind, msg):
        """msg: str or zero-argument callable (built only on failure)."""
        self.compared += 1
        if not cond:
            self.add(kind, msg() if callable(msg) else msg)
        return cond

    def close(self, key, err, tol, kind, msg):
        self.compared += 1
        self.err(key, err)
        if not (err <= tol):
            self.add(kind, f"{msg() if callable(msg) else msg}: error {err:.3g} > {tol:.3g}")
            return False
        return True

    def result(self):
        if self.items:
            kind = self.items[0][0]
            text = f"input {self.name}: " + " || ".join(f"[{k}] {m}" for k, m in self.items[:4])
            if len(self.items) > 4:
                text += f" || (+{len(self.items) - 4} more)"
            r = bad(text, kind=kind)
            r.counters = self.counters
            return r
        r = good(nontrivial=self.compared > 0, **self.counters)
        return r


def fmt(m):
    return np.array2string(np.asarray(m), precision=6, suppress_small=True, max_line_width=200).replace("\n", " ")


def guarded(F, kind, fn, *a, allowed=(), **kw):
    """Run fn; an exception not in `allowed` is a violation.  Returns (ok, value | exception)."""
    try:
        return True, fn(*a, **kw)
    except allowed as e:  # documented rejection
        return False, e
    except core.HarnessError:
        raise
    except Exception as e:  # noqa
        import traceback
        F.add(kind + ":exception", f"{fn.__name__}{_short_args(kw)} raised {type(e).__name__}: {str(e)[:300]} "
                                   f"@ {traceback.format_exc(limit=-2)[-300:]}")
        return False, e


def _short_args(kw):
    return "(" + ", ".join(f"{k}={v!r}" for k, v in kw.items() if not isinstance(v, np.ndarray)) + ")"


# ------------------------------------------------------------------------------------------------
# S1 stage: single-qubit routines


def su2_ok(m, tol=1e-7):
    return L.is_unitary(m, tol) and abs(np.linalg.det(m) - 1) <= tol


def run_s1(desc):
    u = L.s1_matrix(desc, gen())
    F = Fails(f"S1{desc}")
    near_id = desc[0] == "e"
    # --- deconstruct_single_qubit_matrix_into_angles: U ~ Z^{p2/pi} Y^{p1/pi} Z^{p0/pi} up to global phase
    ok, r = guarded(F, "zyz", cirq.deconstruct_single_qubit_matrix_into_angles, u)
    if ok:
        p0, p1, p2 = r
        got = G.zpow(p2 / PI) @ G.ypow(p1 / PI) @ G.zpow(p0 / PI)
        F.close("zyz", L.phase_err(u, got), TOL, "zyz", f"deconstruct_single_qubit_matrix_into_angles -> {r} does not rebuild U={fmt(u)}")
    # --- axis_angle
    ok, r = guarded(F, "axis_angle", cirq.axis_angle, u)
    if ok:
        x, y, z = r.axis
        got = r.global_phase * L.expi(x * L.X + y * L.Y + z * L.Z, -r.angle / 2)
        # the routine snaps rotations with |sin(angle/2)| < 1e-7 to the identity: error up to 1e-7 is documented behaviour
        F.close("axis_angle", L.exact_err(u, got), 3e-7 if near_id else TOL, "axis_angle", f"axis_angle -> {r!r} does not rebuild U={fmt(u)}")
        F.need(abs(abs(r.global_phase) - 1) < 1e-9 and abs(x * x + y * y + z * z - 1) < 1e-7, "axis_angle_form", f"non-unit phase/axis {r!r}")
        F.need(x + y + z >= -1e-7 and -PI + 1e-8 - 1e-9 < r.angle <= PI + 1e-8 + 1e-9, "axis_angle_form", f"not canonical: {r!r}")
        F.close("axis_angle_unitary", L.exact_err(got, cirq.unitary(r)), 1e-9, "axis_angle_unitary", "cirq.unitary(AxisAngleDecomposition) differs from its documented formula")
    # --- pauli rotations / gates / phased_x_z / phxz / from_matrix
    for atol in (0, 1e-8, 1e-5):
        tol = max(10 * atol, TOL)
        ok, r = guarded(F, "pauli_rotations", cirq.single_qubit_matrix_to_pauli_rotations, u, atol=atol)
        if ok:
            got = L.I2
            for p, ht in r:
                got = {cirq.X: G.xpow, cirq.Y: G.ypow, cirq.Z: G.zpow}[p](ht) @ got
            F.close("pauli_rotations", L.phase_err(u, got), tol, "pauli_rotations", f"single_qubit_matrix_to_pauli_rotations(atol={atol}) -> {r} does not rebuild U={fmt(u)}")
            F.need(len(r) <= 3 and all(p in (cirq.X, cirq.Y, cirq.Z) for p, _ in r), "pauli_rotations_form", f"{r}")
        ok, r = guarded(F, "to_gates", cirq.single_qubit_matrix_to_gates, u, atol)
        if ok:
            got = L.I2
            for g in r:
                got = cirq.unitary(g) @ got
            F.close("to_gates", L.phase_err(u, got), tol, "to_gates", f"single_qubit_matrix_to_gates(tolerance={atol}) -> {r} does not rebuild U={fmt(u)}")
            F.need(len(r) <= 3 and all(isinstance(g, (cirq.XPowGate, cirq.YPowGate, cirq.ZPowGate)) for g in r), "to_gates_form", f"{r}")
        ok, r = guarded(F, "phased_x_z", cirq.single_qubit_matrix_to_phased_x_z, u, atol)
        if ok:
            got = L.I2
            for g in r:
                got = cirq.unitary(g) @ got
            F.close("phased_x_z", L.phase_err(u, got), tol, "phased_x_z", f"single_qubit_matrix_to_phased_x_z(atol={atol}) -> {r} does not rebuild U={fmt(u)}")
            form = len(r) <= 2 and all(isinstance(g, (cirq.PhasedXPowGate, cirq.XPowGate, cirq.YPowGate, cirq.ZPowGate)) for g in r)
            if len(r) == 2:
                form = form and isinstance(r[1], cirq.ZPowGate) and not isinstance(r[0], cirq.ZPowGate)
            F.need(form, "phased_x_z_form", f"not [PhasedX, Z]: {r}")
        ok, r = guarded(F, "phxz", cirq.single_qubit_matrix_to_phxz, u, atol)
        if ok:
            got = L.I2 if r is None else cirq.unitary(r)
            F.close("phxz", L.phase_err(u, got), tol, "phxz", f"single_qubit_matrix_to_phxz(atol={atol}) -> {r} does not rebuild U={fmt(u)}")
            F.need(r is None or isinstance(r, cirq.PhasedXZGate), "phxz_form", f"{r!r}")
            if r is None:
                # None only if close to identity (trace distance <= atol)
                F.need(L.phase_err(u, L.I2) <= max(10 * atol, 1e-9), "phxz_none", f"None returned for a non-identity matrix (atol={atol})")
    ok, r = guarded(F, "from_matrix", cirq.PhasedXZGate.from_matrix, u)
    if ok:
        F.close("from_matrix", L.phase_err(u, cirq.unitary(r)), TOL, "from_matrix", f"PhasedXZGate.from_matrix -> {r!r} does not rebuild U={fmt(u)}")
        F.close("from_matrix_ref", L.exact_err(cirq.unitary(r), G.phased_xz(r.x_exponent, r.z_exponent, r.axis_phase_exponent)), 1e-9,
                "from_matrix_ref", "PhasedXZGate unitary differs from closed form")
    # --- unitary_eig / map_eigenvalues
    _check_eig(F, u)
    return F.result()


def _check_eig(F, u, tag=""):
    ok, r = guarded(F, "unitary_eig", cirq.unitary_eig, u)
    if ok:
        vals, vecs = r
        F.close("unitary_eig_V", L.exact_err(vecs @ L.dag(vecs), np.eye(len(u))), 1e-8, "unitary_eig", f"{tag}eigenvector matrix not unitary")
        F.close("unitary_eig", L.exact_err(u, (vecs * vals) @ L.dag(vecs)), TOL, "unitary_eig", lambda: f"{tag}V diag(vals) V^dag != matrix {fmt(u) if len(u) <= 4 else ''}")
    # entire functions only (no branch cut): f(M) must equal the power series value
    for c in (0.5, -1.3):
        ok, r = guarded(F, "map_eigenvalues", cirq.map_eigenvalues, u, lambda v, c=c: np.exp(1j * c * v))
        if ok:
            ref = _expm_series(1j * c * u)
            F.close("map_eigenvalues", L.exact_err(ref, r), TOL, "map_eigenvalues", f"{tag}map_eigenvalues(exp(i*{c}*v)) != matrix exponential")
    ok, r = guarded(F, "map_eigenvalues", cirq.map_eigenvalues, u, lambda v: v * v + 2 * v)
    if ok:
        F.close("map_eigenvalues", L.exact_err(u @ u + 2 * u, r), TOL, "map_eigenvalues", f"{tag}map_eigenvalues(v^2+2v) != M^2+2M")


def _expm_series(a):
    # scaling and squaring with a plain Taylor series (independent of scipy.linalg.expm)
    a = np.asarray(a, dtype=complex)
    n = len(a)
    k = max(0, int(math.ceil(math.log2(max(1e-16, np.linalg.norm(a, 2))))) + 4)
    b = a / (2 ** k)
    term = np.eye(n, dtype=complex)
    out = np.eye(n, dtype=complex)
    for j in range(1, 25):
        term = term @ b / j
        out = out + term
    for _ in range(k):
        out = out @ out
    return out


# ------------------------------------------------------------------------------------------------
# S2: KAK


def kak_product(k):
    b0, b1 = k.single_qubit_operations_before
    a0, a1 = k.single_qubit_operations_after
    x, y, z = k.interaction_coefficients
    return k.global_phase * (np.kron(a0, a1) @ L.interaction(x, y, z) @ np.kron(b0, b1))


def _check_kak_obj(F, k, u, info, label, tol=TOL, want_canon_eq=True):
    F.close("kak", L.exact_err(u, kak_product(k)), tol, "kak_product", f"{label}: g*(a0(x)a1)*exp(i(xXX+yYY+zZZ))*(b0(x)b1) != U; coefficients {k.interaction_coefficients}")
    v = tuple(float(t) for t in k.interaction_coefficients)
    F.need(L.is_canonical(v), "kak_canonical", f"{label}: interaction coefficients {v} are not canonical (pi/4>=x>=y>=|z|, z>=0 if x=pi/4)")
    F.need(abs(abs(k.global_phase) - 1) <= 1e-8, "kak_phase", f"{label}: |global_phase| = {abs(k.global_phase)}")
    for nm, m in zip(("b0", "b1", "a0", "a1"), (*k.single_qubit_operations_before, *k.single_qubit_operations_after)):
        F.need(np.shape(m) == (2, 2) and su2_ok(np.asarray(m)), "kak_su2", lambda: f"{label}: factor {nm} is not in SU(2): {fmt(m)}")
    if want_canon_eq and _robust_canon(info):
        d = max(abs(a - b) for a, b in zip(v, info["vc"]))
        F.close("kak_vec", d, 1e-7, "kak_coefficients", f"{label}: coefficients {v} differ from the reference canonical vector {info['vc']}")


def _robust_canon(info):
    """The canonical vector is unambiguous unless x is within (1e-10, 1e-6) of the pi/4 face with z != 0
    (the documented windows in which z may be forced non-negative are 1e-9 / 1e-8 wide)."""
    x, y, z = info["vc"]
    if info["exact"]:
        return True
    dx = PI / 4 - x
    return not (1e-10 < dx < 1e-6) or abs(z) < 1e-10


def run_kak(desc):
    u, info = s2().build(desc)
    F = Fails(f"S2{desc} = {info['name']}")
    ok, k = guarded(F, "kak", cirq.kak_decomposition, u)
    if ok:
        _check_kak_obj(F, k, u, info, "kak_decomposition(U)")
        if desc[0] == 2 or (desc[4] == L.LOC_I and desc[5] == L.LOC_I) or desc[4] == desc[5]:
            # the protocol methods of the returned object are plain functions of its fields: checked on a sub-family
            F.close("kak_unitary", L.exact_err(kak_product(k), cirq.unitary(k)), 1e-8, "kak_unitary_protocol", "cirq.unitary(KakDecomposition) differs from the documented product formula")
            qs = q2_layout(desc)
            ok2, dops = guarded(F, "kak_decompose", cirq.decompose_once_with_qubits, k, qs)
            if ok2:
                F.close("kak_decompose", L.exact_err(u, ops_unitary(flat_ops(dops), qs)), TOL, "kak_decompose", "KakDecomposition._decompose_ does not rebuild U")
    ok, k2 = guarded(F, "kak", cirq.kak_decomposition, cirq.MatrixGate(u), check_preconditions=False)
    if ok:
        _check_kak_obj(F, k2, u, info, "kak_decomposition(MatrixGate(U), check_preconditions=False)")
    ok, k3 = guarded(F, "kak", cirq.kak_decomposition, u, rtol=0, atol=1e-9)
    if ok:
        _check_kak_obj(F, k3, u, info, "kak_decomposition(U, rtol=0, atol=1e-9)")
    # kak_vector on the single matrix
    ok, v = guarded(F, "kak_vector", cirq.kak_vector, u)
    if ok:
        v = tuple(float(t) for t in v)
        F.need(np.shape(v) == (3,) and L.is_canonical(v, face_tol=1e-8), "kak_vector_canonical", f"kak_vector -> {v} not canonical")
        if _robust_canon(info):
            d = max(abs(a - b) for a, b in zip(v, info["vc"]))
            F.close("kak_vector", d, 1e-7, "kak_vector_value", f"kak_vector -> {v} differs from the reference canonical vector {info['vc']}")
    # magic-basis bidiagonalisation (the engine of kak_decomposition)
    ub = L.dag(L.MAGIC) @ u @ L.MAGIC
    _check_bidiag_unitary(F, ub, "magic-basis U")
    # num_cnots_required
    ok, n = guarded(F, "num_cnots", cirq.linalg.decompositions.num_cnots_required, u)
    if ok:
        F.need(n in (0, 1, 2, 3), "num_cnots_range", f"num_cnots_required -> {n}")
        if info["ncnot"] is not None:
            F.need(n == info["ncnot"], "num_cnots_value", f"num_cnots_required -> {n}, reference class {info['vc']} needs {info['ncnot']}")
    # extract_right_diag
    ok, d = guarded(F, "extract_right_diag", cirq.linalg.decompositions.extract_right_diag, u)
    if ok:
        d = np.asarray(d)
        form = d.shape == (4, 4) and np.allclose(d, np.diag(np.diag(d)), atol=1e-12) and np.allclose(np.abs(np.diag(d)), 1, atol=1e-9)
        F.need(form, "extract_right_diag_form", lambda: f"extract_right_diag -> not a diagonal unitary: {fmt(d)}")
        if form and info["ncnot"] == 3:
            F.close("extract_right_diag", two_cnot_defect(u @ d), 1e-7, "extract_right_diag_class",
                    lambda: f"U @ extract_right_diag(U) is not in the 2-CNOT class (Im tr(m)/sqrt(det) != 0), D={fmt(np.diag(d))}")
    return F.result()


def two_cnot_defect(u):
    """|Im(tr(U_B^T U_B)/sqrt(det U))|: zero iff the canonical z coordinate is 0 (<= 2 CNOT), first order in z."""
    ub = L.dag(L.MAGIC) @ u @ L.MAGIC
    m = ub.T @ ub
    t = np.trace(m) / np.sqrt(np.linalg.det(u) + 0j)
    return abs(t.imag)


def _check_bidiag_unitary(F, m, label):
    ok, r = guarded(F, "bidiag_unitary", cirq.bidiagonalize_unitary_with_special_orthogonals, m)
    if not ok:
        return
    l, d, rr = r
    n = len(m)
    for nm, o in (("L", l), ("R", rr)):
        o = np.asarray(o)
        F.need(np.all(np.imag(o) == 0) and np.allclose(o @ o.T, np.eye(n), atol=1e-8) and abs(np.linalg.det(o) - 1) < 1e-7,
               "bidiag_unitary_so", f"{label}: {nm} is not special orthogonal (det={np.linalg.det(o):.6g})")
    F.close("bidiag_unitary", L.exact_err(l @ m @ rr, np.diag(d)), TOL, "bidiag_unitary_diag", f"{label}: L @ mat @ R != diag(d)")
    F.close("bidiag_unitary_d", float(np.max(np.abs(np.abs(d) - 1))), TOL, "bidiag_unitary_diag", f"{label}: diagonal not unit modulus")


# ------------------------------------------------------------------------------------------------
# S2: CZ synthesis family


def count2q(ops):
    return sum(1 for o in ops if nq(o) == 2)


def _cz_target_checks(F, ops, label, allow_partial):
    good_types = True
    for o in ops:
        if nq(o) == 2:
            if not isinstance(o.gate, cirq.CZPowGate):
                good_types = False
            elif not allow_partial and abs(o.gate.exponent - 1) > 1e-12:
                good_types = False
        elif nq(o) != 1:
            good_types = False
    F.need(good_types, "cz_gate_types", f"{label}: operations other than 1-qubit gates and {'CZPow' if allow_partial else 'CZ'}: {[str(o) for o in ops if nq(o) != 1]}")


def run_cz_main(desc):
    return run_cz(desc, full=False)


def run_cz(desc, full=True):
    """full=False: the four option combinations of two_qubit_matrix_to_cz_operations only."""
    u, info = s2().build(desc)
    QS = q2_layout(desc)
    F = Fails(f"S2{desc} = {info['name']} on qubits {QS}")
    a, b = QS
    ncn = info["ncnot"]
    for allow_partial in (False, True):
        for clean in (True, False):
            for atol in ((1e-8, 1e-5) if (clean and not allow_partial and full) else (1e-8,)):
                label = f"two_qubit_matrix_to_cz_operations(allow_partial_czs={allow_partial}, clean_operations={clean}, atol={atol})"
                ok, ops = guarded(F, "cz", cirq.two_qubit_matrix_to_cz_operations, a, b, u, allow_partial_czs=allow_partial,
                                  clean_operations=clean, atol=atol)
                if not ok:
                    continue
                ops = flat_ops(ops)
                tol = max(10 * atol, TOL)
                F.close("cz" if atol == 1e-8 else "cz_atol1e-5", L.phase_err(u, ops_unitary(ops, QS)), tol, "cz_unitary", f"{label} does not rebuild U up to global phase")
                _cz_target_checks(F, ops, label, allow_partial)
                n = count2q(ops)
                F.need(n <= 3, "cz_count_bound", f"{label}: {n} CZ gates > 3")
                if not allow_partial and ncn is not None and atol == 1e-8:
                    F.need(n == ncn, "cz_count", f"{label}: {n} CZ gates but the class {info['vc']} needs exactly {ncn}")
    if not full:
        return F.result()
    # diagonal + cz
    for allow_partial in (False, True):
        for clean in (True, False):
            label = f"two_qubit_matrix_to_diagonal_and_cz_operations(allow_partial_czs={allow_partial}, clean_operations={clean})"
            ok, r = guarded(F, "diag_cz", cirq.two_qubit_matrix_to_diagonal_and_cz_operations, a, b, u,
                            allow_partial_czs=allow_partial, clean_operations=clean)
            if not ok:
                continue
            d, ops = r
            ops = flat_ops(ops)
            d = np.asarray(d)
            form = d.shape == (4, 4) and np.allclose(d, np.diag(np.diag(d)), atol=1e-8) and np.allclose(np.abs(np.diag(d)), 1, atol=1e-8)
            F.need(form, "diag_cz_form", lambda: f"{label}: D is not a diagonal unitary: {fmt(d)}")
            F.close("diag_cz", L.phase_err(u, ops_unitary(ops, QS) @ d), TOL, "diag_cz_unitary", f"{label}: Circuit(ops) @ D != V up to global phase")
            _cz_target_checks(F, ops, label, allow_partial)
            n = count2q(ops)
            F.need(n <= 3, "diag_cz_count_bound", f"{label}: {n} CZ gates > 3")
            if ncn is not None and not allow_partial:
                F.need(n <= 2 and n <= ncn, "diag_cz_count", f"{label}: {n} CZ gates for class {info['vc']} (needs {ncn}; diagonal extraction promises <= 2)")
    # isometry
    for allow_partial in (False, True):
        for clean in (True, False):
            label = f"two_qubit_matrix_to_cz_isometry(allow_partial_czs={allow_partial}, clean_operations={clean})"
            ok, ops = guarded(F, "isometry", cirq.two_qubit_matrix_to_cz_isometry, a, b, u, allow_partial_czs=allow_partial, clean_operations=clean)
            if not ok:
                continue
            ops = flat_ops(ops)
            w = ops_unitary(ops, QS)
            F.close("isometry", L.phase_err(u[:, :2], w[:, :2]), TOL, "isometry_unitary", f"{label}: action on |0>(x)psi differs from U")
            _cz_target_checks(F, ops, label, allow_partial)
            n = count2q(ops)
            F.need(n <= 3, "isometry_count_bound", f"{label}: {n} CZ gates > 3")
            if ncn is not None and not allow_partial:
                F.need(n <= 2, "isometry_count", f"{label}: {n} CZ gates, documented at most 2 (class {info['vc']})")
    return F.result()


# ------------------------------------------------------------------------------------------------
# S2: sqrt-iSWAP synthesis


def run_sqrt_iswap_main(desc):
    return run_sqrt_iswap(desc, full=False)


def run_sqrt_iswap(desc, full=True):
    """full=False: use_sqrt_iswap_inv=False, clean_operations=False only (all five required counts)."""
    u, info = s2().build(desc)
    QS = q2_layout(desc)
    F = Fails(f"S2{desc} = {info['name']} on qubits {QS}")
    a, b = QS
    feas = info["sq_feas"]
    for inv in ((False, True) if full else (False,)):
        target = cirq.SQRT_ISWAP_INV if inv else cirq.SQRT_ISWAP
        for clean in ((False, True) if full else (False,)):
            for req in (None, 0, 1, 2, 3):
                label = f"two_qubit_matrix_to_sqrt_iswap_operations(required_sqrt_iswap_count={req}, use_sqrt_iswap_inv={inv}, clean_operations={clean})"
                ok, ops = guarded(F, "sqrt_iswap", cirq.two_qubit_matrix_to_sqrt_iswap_operations, a, b, u, required_sqrt_iswap_count=req,
                                  use_sqrt_iswap_inv=inv, clean_operations=clean, allowed=(ValueError,))
                if not ok:
                    if isinstance(ops, ValueError):
                        # documented: impossible with exactly `req` gates
                        if req is None:
                            F.add("sqrt_iswap_valueerror", f"{label} raised ValueError without a required count: {ops}")
                        elif feas[req] is True:
                            F.add("sqrt_iswap_valueerror", f"{label} raised ValueError but class {info['vc']} can be done with exactly {req}: {ops}")
                        else:
                            F.count("documented_rejections")
                    continue
                ops = flat_ops(ops)
                F.close("sqrt_iswap", L.phase_err(u, ops_unitary(ops, QS)), TOL, "sqrt_iswap_unitary", f"{label} does not rebuild U up to global phase")
                types_ok = all((nq(o) == 1 and (isinstance(o.gate, cirq.PhasedXZGate) if clean else isinstance(o.gate, (cirq.XPowGate, cirq.YPowGate, cirq.ZPowGate))))
                               or (nq(o) == 2 and o.gate == target) for o in ops)
                F.need(types_ok, "sqrt_iswap_gate_types", f"{label}: unexpected operations {[str(o) for o in ops if not (nq(o) == 1)]} / 1q types {sorted({type(o.gate).__name__ for o in ops if nq(o) == 1})}")
                n = count2q(ops)
                F.need(n <= 3, "sqrt_iswap_count_bound", f"{label}: {n} > 3 two-qubit gates")
                if req is not None:
                    F.need(n == req, "sqrt_iswap_count", f"{label}: {n} sqrt-iSWAP gates, exactly {req} required")
                    if feas[req] is False:
                        F.add("sqrt_iswap_impossible", f"{label} returned a circuit although the class {info['vc']} cannot be done with {req} (and it rebuilt U?)")
                elif info["sq_min"] is not None:
                    F.need(n == info["sq_min"], "sqrt_iswap_min_count", f"{label}: {n} gates, the class {info['vc']} needs {info['sq_min']} (fewest possible is documented)")
    return F.result()




# ------------------------------------------------------------------------------------------------
# S2: other two-qubit targets (FSim x4, MS, Sycamore)

FSIM_GATES = [
    ("FSim(pi/2,0)", lambda: cirq.FSimGate(PI / 2, 0.0)),
    ("ISWAP", lambda: cirq.ISWAP),
    ("FSim(3pi/8+0.01,pi/4-0.01)", lambda: cirq.FSimGate(3 * PI / 8 + 0.01, PI / 4 - 0.01)),
    ("FSim(5pi/8-0.01,-pi/4+0.01)", lambda: cirq.FSimGate(5 * PI / 8 - 0.01, -PI / 4 + 0.01)),
    ("FSim(1.4,0.2)", lambda: cirq.FSimGate(1.4, 0.2)),
    ("FSim(-pi/2,0.1)", lambda: cirq.FSimGate(-PI / 2, 0.1)),
    ("ISWAP**-1", lambda: cirq.ISWAP ** -1),
    ("ISWAP**0.8", lambda: cirq.ISWAP ** 0.8),
    ("ISWAP**-1.2", lambda: cirq.ISWAP ** -1.2),
    ("FSim(pi/2,pi/4-0.01)", lambda: cirq.FSimGate(PI / 2, PI / 4 - 0.01)),
    ("FSim(3pi/8+0.01,0)", lambda: cirq.FSimGate(3 * PI / 8 + 0.01, 0.0)),
    ("FSim(5pi/8-0.01,0.3)", lambda: cirq.FSimGate(5 * PI / 8 - 0.01, 0.3)),
]
FSIM_TOL = 1e-6  # the construction goes through arcsin(sqrt(.)) of quantities clamped at 1e-8: sqrt(1e-8)-scale errors are inherent


def run_four_fsim(case):
    desc, gi, form = case
    u, info = s2().build(desc)
    name, mk = FSIM_GATES[gi]
    g = mk()
    F = Fails(f"S2{desc} = {info['name']}; fsim_gate={name}; form={form}")
    a, b = Q2
    if form == 0:
        ok, c = guarded(F, "four_fsim", cirq.decompose_two_qubit_interaction_into_four_fsim_gates, u, fsim_gate=g)
        qs = Q2
    else:
        qs = [cirq.NamedQubit("b"), cirq.NamedQubit("a")]
        ok, c = guarded(F, "four_fsim", cirq.decompose_two_qubit_interaction_into_four_fsim_gates, cirq.MatrixGate(u), fsim_gate=g, qubits=qs)
    if not ok:
        return F.result()
    ops = list(c.all_operations())
    F.close("four_fsim", L.exact_err(u, ops_unitary(ops, qs)), FSIM_TOL, "four_fsim_unitary", "decompose_two_qubit_interaction_into_four_fsim_gates does not rebuild U (incl. global phase)")
    n = sum(1 for o in ops if nq(o) == 2 and o.gate == g)
    others = [o for o in ops if not (nq(o) == 1 or is_gpo(o) or (nq(o) == 2 and o.gate == g))]
    F.need(n == 4 and not others, "four_fsim_count", lambda: f"{n} copies of the fsim gate (exactly 4 documented); other multi-qubit ops: {[str(o) for o in others]}")
    F.need(set(q for o in ops for q in o.qubits) <= set(qs), "four_fsim_qubits", "operations on foreign qubits")
    return F.result()


def run_ion_syc(desc):
    u, info = s2().build(desc)
    QS = q2_layout(desc)
    F = Fails(f"S2{desc} = {info['name']} on qubits {QS}")
    a, b = QS
    for clean in (True, False):
        label = f"two_qubit_matrix_to_ion_operations(clean_operations={clean})"
        ok, ops = guarded(F, "ion", cirq.two_qubit_matrix_to_ion_operations, a, b, u, clean_operations=clean)
        if ok:
            ops = flat_ops(ops)
            F.close("ion", L.phase_err(u, ops_unitary(ops, QS)), TOL, "ion_unitary", f"{label} does not rebuild U up to global phase")
            two = [o for o in ops if nq(o) != 1]
            F.need(all(nq(o) == 2 and isinstance(o.gate, cirq.XXPowGate) for o in two), "ion_gate_types", lambda: f"{label}: non-MS multi-qubit ops {[str(o) for o in two]}")
            F.need(len(two) <= 3, "ion_count_bound", f"{label}: {len(two)} MS gates > 3")
    for clean in (True, False):
        label = f"two_qubit_matrix_to_sycamore_operations(clean_operations={clean})"
        ok, ops = guarded(F, "sycamore", cirq_google.two_qubit_matrix_to_sycamore_operations, a, b, u, clean_operations=clean)
        if ok:
            ops = flat_ops(ops)
            F.close("sycamore", L.phase_err(u, ops_unitary(ops, QS)), TOL, "sycamore_unitary", f"{label} does not rebuild U up to global phase")
            two = [o for o in ops if nq(o) != 1]
            F.need(all(nq(o) == 2 and o.gate == cirq_google.SYC for o in two), "sycamore_gate_types", lambda: f"{label}: non-SYC multi-qubit ops {[str(o) for o in two]}")
            F.need(len(two) <= 6, "sycamore_count_bound", f"{label}: {len(two)} SYC gates > 6 (two per partial CZ, at most three partial CZ)")
            if clean:
                F.need(all(isinstance(o.gate, cirq.PhasedXZGate) for o in ops if nq(o) == 1), "sycamore_clean_types", f"{label}: single-qubit gates are not all PhasedXZ")
    return F.result()


# ------------------------------------------------------------------------------------------------
# known-gate shortcuts: parameterized sqrt-iSWAP, known Sycamore ops, CPhase -> two FSim


def t_grid():
    g = gen()[0]
    return (0.0, 0.25, 0.5, 1.0, 1.5, 2.0, -0.5, 2.5, g, 1 - 1e-7, 1 + 1e-7, 1e-7, -1.0, 3.0, 1.0 + 1e-10)


ANGLES = None


def angle_grid():
    g = gen()[1]
    return (0.0, PI / 4, PI / 2, PI, -PI / 2, 3 * PI / 2, g, 1e-7, PI - 1e-7)


def param_cases():
    nt = len(t_grid())
    na = len(angle_grid())
    cs = []
    for inv in (0, 1):
        for sym in (0, 1):
            for k in (0, 1, 2):
                cs += [(k, i, 0, inv, sym) for i in range(nt)]
            cs += [(3, i, j, inv, sym) for i in range(na) for j in range(na)]
    cs += [(4, 0, 0, 0, 0), (4, 1, 0, 1, 0)]
    return cs


def run_param_sqrt_iswap(case):
    kind, i, j, inv, sym = case
    QS = q2_layout(case)
    a, b = QS
    F = Fails(f"parameterized_2q_op_to_sqrt_iswap_operations case {case}")
    ts = sympy.Symbol("t")
    ps = sympy.Symbol("p")
    if kind == 4:
        op = [cirq.XX(a, b) ** 0.3, cirq.CNOT(a, b)][i]
        ok, r = guarded(F, "param_sqrt_iswap", cirq.parameterized_2q_op_to_sqrt_iswap_operations, op, use_sqrt_iswap_inv=bool(inv))
        if ok:
            F.need(r is None or r is NotImplemented, "param_sqrt_iswap_unknown", f"unknown gate {op} was decomposed: {r}")
        return F.result()
    if kind < 3:
        t = t_grid()[i]
        cls, ref = [(cirq.CZPowGate, G.czpow), (cirq.SwapPowGate, G.swappow), (cirq.ISwapPowGate, G.iswappow)][kind]
        gate = cls(exponent=ts if sym else t)
        want = ref(t)
        resolver = {"t": t}
        nm = f"{cls.__name__}(exponent={t!r}{' via symbol' if sym else ''})"
    else:
        th, ph = angle_grid()[i], angle_grid()[j]
        gate = cirq.FSimGate(ts if sym else th, ps if sym else ph)
        want = G.fsim(th, ph)
        resolver = {"t": th, "p": ph}
        nm = f"FSimGate({th!r},{ph!r}{' via symbols' if sym else ''})"
    F.name = f"{nm}, use_sqrt_iswap_inv={bool(inv)}, qubits {QS}"
    ok, r = guarded(F, "param_sqrt_iswap", cirq.parameterized_2q_op_to_sqrt_iswap_operations, gate.on(a, b), use_sqrt_iswap_inv=bool(inv))
    if not ok:
        return F.result()
    if r is None or r is NotImplemented:
        F.add("param_sqrt_iswap_refused", f"documented-supported gate refused: {r}")
        return F.result()
    ok, ops = guarded(F, "param_sqrt_iswap_resolve", lambda: [cirq.resolve_parameters(o, resolver) for o in flat_ops(r)])
    if not ok:
        return F.result()
    F.close("param_sqrt_iswap", L.phase_err(want, ops_unitary(ops, QS)), TOL, "param_sqrt_iswap_unitary", "decomposition does not rebuild the gate up to global phase")
    target = cirq.SQRT_ISWAP_INV if inv else cirq.SQRT_ISWAP
    two = [o for o in ops if nq(o) != 1]
    F.need(all(nq(o) == 2 and o.gate == target for o in two), "param_sqrt_iswap_types", lambda: f"multi-qubit ops other than {target}: {[str(o) for o in two]}")
    return F.result()


def known_syc_ops():
    a, b = Q2
    g = gen()[0]
    ex = (0.0, 0.25, 0.5, 1.0, 1.5, -0.5, g, 1e-7, 1 - 1e-7, 2.0, 3.0)
    out = []
    for qs in ((a, b), (b, a)):
        out += [("SWAP", cirq.SWAP(*qs), True), ("ISWAP", cirq.ISWAP(*qs), True)]
        for t in ex:
            out.append((f"CZ**{t!r}", cirq.CZ(*qs) ** t, True))
            out.append((f"CNOT**{t!r}", cirq.CNOT(*qs) ** t, True))
            out.append((f"ZZ**{t!r}", cirq.ZZ(*qs) ** t, True))
            out.append((f"PhasedISwap(phase_exponent={t!r}, exponent=1)", cirq.PhasedISwapPowGate(phase_exponent=t, exponent=1.0).on(*qs), True))
            out.append((f"PhasedISwap(phase_exponent=0.25, exponent={t!r})", cirq.PhasedISwapPowGate(phase_exponent=0.25, exponent=t).on(*qs), True))
            out.append((f"CircuitOp[SWAP, ZZ**{t!r}]", cirq.CircuitOperation(cirq.FrozenCircuit(cirq.SWAP(*qs), cirq.ZZ(*qs) ** t)), True))
            out.append((f"CircuitOp[ZZ**{t!r}, SWAP]", cirq.CircuitOperation(cirq.FrozenCircuit(cirq.ZZ(*qs) ** t, cirq.SWAP(*qs))), True))
        out.append(("tagged CZ", (cirq.CZ(*qs) ** 0.5).with_tags("x"), True))
        out.append(("FSim(0.3,0.2)", cirq.FSimGate(0.3, 0.2).on(*qs), False))
        out.append(("SWAP**0.5", cirq.SWAP(*qs) ** 0.5, False))
        out.append(("ISWAP**0.5", cirq.ISWAP(*qs) ** 0.5, False))
        out.append(("PhasedISwap(0.1, 0.3)", cirq.PhasedISwapPowGate(phase_exponent=0.1, exponent=0.3).on(*qs), False))
    return out


def run_known_syc(i):
    name, op, known = known_syc_ops()[i]
    F = Fails(f"known_2q_op_to_sycamore_operations({name} on {op.qubits})")
    ok, r = guarded(F, "known_syc", cirq_google.known_2q_op_to_sycamore_operations, op)
    if not ok:
        return F.result()
    if r is None:
        if known:
            F.add("known_syc_refused", "documented-known operation returned None")
            return F.result()
        return Res(skipped=True, nontrivial=False)
    ops = flat_ops(r)
    want = ops_unitary(flat_ops(cirq.decompose_once(op)) if isinstance(op.untagged, cirq.CircuitOperation) else [op], Q2)
    F.close("known_syc", L.phase_err(want, ops_unitary(ops, Q2)), TOL, "known_syc_unitary", "decomposition does not rebuild the operation up to global phase")
    two = [o for o in ops if nq(o) != 1]
    F.need(all(nq(o) == 2 and o.gate == cirq_google.SYC for o in two), "known_syc_types", lambda: f"non-SYC multi-qubit ops {[str(o) for o in two]}")
    return F.result()


def cphase_cases():
    g = gen()
    ts = (0.0, 0.1, 0.25, 0.5, 0.75, 1.0, 1.25, 1.5, 1.9, -0.5, 2.5, g[0])
    ths = (0.0, PI / 8, PI / 4, 3 * PI / 8, PI / 2, 5 * PI / 8, PI, -PI / 4, g[1])
    phs = (0.0, PI / 6, PI / 2, PI, 3 * PI / 2, -PI / 2, 2 * PI - 0.3, g[2])
    return ts, ths, phs


def run_cphase_fsim(case):
    i, j, k = case
    ts, ths, phs = cphase_cases()
    t, th, ph = ts[i], ths[j], phs[k]
    F = Fails(f"decompose_cphase_into_two_fsim(CZ**{t!r}, fsim_gate=FSimGate({th!r},{ph!r}))")
    # documented feasibility: |sin th| <= |sin(delta/4)| <= |sin(ph/2)| or reversed, for some parameter value of the same gate
    lo, hi = sorted((abs(math.sin(th)), abs(math.sin(ph / 2))))
    delta = -PI * t
    svals = (abs(math.sin(delta / 4)), abs(math.cos(delta / 4)))
    m = 1e-6
    feasible = any(lo + m <= s <= hi - m for s in svals)
    infeasible = all(s < lo - m or s > hi + m for s in svals)
    denom = abs(math.sin(th) ** 2 - math.sin(ph / 2) ** 2)
    fsim = cirq.FSimGate(th, ph)
    qs = [cirq.NamedQubit("c"), cirq.NamedQubit("d")] if (i + j + k) % 2 else None
    kw = {"qubits": qs} if qs else {}
    ok, r = guarded(F, "cphase_fsim", cirq.decompose_cphase_into_two_fsim, cirq.CZPowGate(exponent=t), fsim_gate=fsim, allowed=(ValueError,), **kw)
    if not ok:
        if isinstance(r, ValueError):
            if feasible and denom > 1e-6:
                F.add("cphase_fsim_refused", f"ValueError although the documented condition holds (lo={lo:.6g}, hi={hi:.6g}, |sin(d/4)| candidates {svals}): {r}")
                return F.result()
            return Res(skipped=True, nontrivial=False)
        return F.result()
    ops = flat_ops(r)
    qq = qs or Q2
    F.close("cphase_fsim", L.exact_err(G.czpow(t), ops_unitary(ops, qq)), FSIM_TOL, "cphase_fsim_unitary", "operations do not rebuild CZ**t (global phase is documented to be accounted for)")
    n = sum(1 for o in ops if nq(o) == 2 and o.gate == fsim)
    others = [o for o in ops if not (nq(o) == 1 or is_gpo(o) or (nq(o) == 2 and o.gate == fsim))]
    F.need(n == 2 and not others, "cphase_fsim_count", lambda: f"{n} fsim gates (exactly two documented), others {[str(o) for o in others]}")
    if infeasible:
        F.add("cphase_fsim_impossible", "a decomposition was returned although the documented feasibility condition fails")
    return F.result()


# ------------------------------------------------------------------------------------------------
# linalg building blocks

RAW = tuple(range(-5, 7))  # units of pi/8


def canonicalize_cases(tier):
    cs = [(0, a, b, c) for a in RAW for b in RAW for c in RAW]
    cs += [(1, a, b, c) for a in range(len(L.BASES)) for b in range(len(L.SIGNS)) for c in (0, 1, 2)]
    cs += [(2, a, 0, c) for a in range(L.N_GENERIC) for c in (0, 1, 2)]
    return cs


def run_canonicalize(case):
    kind, a, b, c = case
    exact = False
    if kind == 0:
        v = (a * L.UNIT, b * L.UNIT, c * L.UNIT)
        vc = tuple(t * L.UNIT for t in L.canon_int((a, b, c)))
        exact = True
    elif kind == 1:
        base, s = L.BASES[a], L.SIGNS[b]
        v0 = tuple(base[i] + L.DELTA * s[i] for i in range(3))
        v = L.scramble(v0, c)
        vc = L.canon(v0)
    else:
        v0 = L.generic_points(gen())[a]
        v = L.scramble(v0, c)
        vc = L.canon(v0)
    F = Fails(f"kak_canonicalize_vector{v}")
    ok, k = guarded(F, "canonicalize", cirq.kak_canonicalize_vector, *v)
    if ok:
        info = {"vc": vc, "exact": exact}
        _check_kak_obj(F, k, L.interaction(*v), info, "kak_canonicalize_vector", tol=1e-8)
    return F.result()


def run_kak_vector_batch(case):
    """kak_vector on batched shapes must equal the per-matrix results and the reference vectors."""
    lo, hi = case
    descs = _S["kv_descs"][lo:hi]
    built = [s2().build(d) for d in descs]
    us = np.array([u for u, _ in built])
    F = Fails(f"kak_vector batch of S2 descriptors [{lo}:{hi}] (first {descs[0]})")
    n = len(us)
    ok, v1 = guarded(F, "kak_vector_batch", cirq.kak_vector, us)
    if not ok:
        return F.result()
    F.need(np.shape(v1) == (n, 3), "kak_vector_shape", f"shape {np.shape(v1)} for input {(n, 4, 4)}")
    shapes = [(1, n), (n, 1)] + ([(2, n // 2)] if n % 2 == 0 else [])
    for sh in shapes:
        ok, v2 = guarded(F, "kak_vector_batch", cirq.kak_vector, us.reshape(sh + (4, 4)), check_preconditions=False)
        if ok:
            F.need(np.shape(v2) == sh + (3,), "kak_vector_shape", f"shape {np.shape(v2)} for input {sh + (4, 4)}")
            if np.shape(v2) == sh + (3,):
                F.close("kak_vector_batch", float(np.max(np.abs(np.reshape(v2, (n, 3)) - v1))), 1e-9, "kak_vector_batch_consistency", f"batched shape {sh} differs from flat batch")
    ok, v3 = guarded(F, "kak_vector_batch", cirq.kak_vector, [u for u in us])
    if ok:
        F.close("kak_vector_batch", float(np.max(np.abs(np.asarray(v3) - v1))), 1e-9, "kak_vector_batch_consistency", "list input differs from array input")
    for idx, (u, info) in enumerate(built):
        v = tuple(float(t) for t in v1[idx])
        F.need(L.is_canonical(v, face_tol=1e-8), "kak_vector_canonical", f"entry {idx} ({info['name']}): {v} not canonical")
        if _robust_canon(info):
            F.close("kak_vector", max(abs(p - q) for p, q in zip(v, info["vc"])), 1e-7, "kak_vector_value", f"entry {idx} ({info['name']}): {v} != reference {info['vc']}")
    ok, v0 = guarded(F, "kak_vector_batch", cirq.kak_vector, np.zeros((0, 4, 4)))
    if ok:
        F.need(np.shape(v0) == (0, 3), "kak_vector_shape", f"empty input gives shape {np.shape(v0)}")
    return F.result()


def orthos(n, seed):
    """A few n x n orthogonal matrices: identity, a permutation with a sign, generic rotation."""
    rng = np.random.RandomState(77 + seed + n)
    q, r = np.linalg.qr(rng.randn(n, n))
    q = q * np.sign(np.diag(r))
    p = np.eye(n)[::-1].copy()
    p[0] *= -1
    return [np.eye(n), p, q]


DIAG_PATTERNS = {
    4: [(1, 1, 1, 1), (2, 1, 1, 0), (1, 1, 0, 0), (0, 0, 0, 0), (3, 2, 1, 0.5), (2, 2, 1, 1), (1, 1, 1, 0), (5, 0, 0, 0),
        (1, 1, 1 - 1e-8, 0.5), (1, 1e-9, 0, 0), (2, 2, 2, 1), (1, 0.5, 0.5, 0.5)],
    3: [(1, 1, 1), (2, 1, 0), (1, 1, 0), (0, 0, 0), (3, 2, 1)],
    2: [(1, 1), (1, 0), (0, 0), (2, 1)],
    1: [(1,), (0,)],
}
SECOND_PATTERNS = {
    4: [(1, 2, 3, 4), (1, 1, -1, -1), (0, 0, 0, 0), (0.5, -0.5, 0.5, 2), (1, -1, 1, -1), (2, 2, 2, 2), (0, 1, 0, 1)],
    3: [(1, 2, 3), (1, 1, -1), (0, 0, 0), (1, -1, 0)],
    2: [(1, 2), (1, -1), (0, 0)],
    1: [(2,), (0,)],
}


def bidiag_cases(tier):
    cs = []
    for n in (1, 2, 3, 4):
        for i in range(len(DIAG_PATTERNS[n])):
            for j in range(len(SECOND_PATTERNS[n])):
                for l in range(3):
                    for r in range(3):
                        cs.append((n, i, j, l, r))
    return cs


def run_bidiag_pair(case):
    n, i, j, l, r = case
    d1 = np.diag(DIAG_PATTERNS[n][i]).astype(float)
    d2 = np.diag(SECOND_PATTERNS[n][j]).astype(float)
    Lm, Rm = orthos(n, _S["seed"])[l], orthos(n, _S["seed"] + 1)[r]
    m1 = Lm @ d1 @ Rm
    m2 = Lm @ d2 @ Rm
    F = Fails(f"bidiagonalize_real_matrix_pair_with_symmetric_products: mat1 = L{l} diag{DIAG_PATTERNS[n][i]} R{r}, mat2 = L{l} diag{SECOND_PATTERNS[n][j]} R{r}")
    ok, res = guarded(F, "bidiag_pair", cirq.bidiagonalize_real_matrix_pair_with_symmetric_products, m1, m2)
    if ok:
        lf, rt = res
        for nm, o in (("L", lf), ("R", rt)):
            F.need(np.allclose(o @ o.T, np.eye(n), atol=1e-8), "bidiag_pair_orthogonal", f"{nm} is not orthogonal")
        for nm, m in (("mat1", m1), ("mat2", m2)):
            d = lf @ m @ rt
            F.close("bidiag_pair", float(np.max(np.abs(d - np.diag(np.diag(d))))) if n else 0.0, TOL, "bidiag_pair_diagonal", lambda: f"L @ {nm} @ R is not diagonal: {fmt(d)}")
    # symmetric / commuting-pair diagonalisation on the same spectra
    sym = Lm @ d2 @ Lm.T
    ok, p = guarded(F, "diag_sym", cirq.diagonalize_real_symmetric_matrix, sym)
    if ok:
        F.need(np.allclose(p @ p.T, np.eye(n), atol=1e-8), "diag_sym_orthogonal", "P is not orthogonal")
        d = p.T @ sym @ p
        F.close("diag_sym", float(np.max(np.abs(d - np.diag(np.diag(d))))), TOL, "diag_sym_diagonal", "P.T @ M @ P is not diagonal")
    if l == 0 and r == 0:
        ok, e = guarded(F, "diag_sym", cirq.diagonalize_real_symmetric_matrix, sym + np.triu(np.ones((n, n)), 1), allowed=(ValueError,))
        if n > 1:
            F.need(not ok, "diag_sym_precondition", "non-symmetric matrix accepted")
    # commuting pair: descending diagonal with degenerate blocks x block-diagonal symmetric matrix
    dd = np.diag(sorted(DIAG_PATTERNS[n][i], reverse=True)).astype(float)
    blocks = np.zeros((n, n))
    vals = np.diag(dd)
    start = 0
    while start < n:
        end = start + 1
        while end < n and vals[end] == vals[start]:
            end += 1
        k = end - start
        o = orthos(k, _S["seed"] + start)[l if k > 1 else 0]
        blocks[start:end, start:end] = o @ np.diag(SECOND_PATTERNS[n][j][start:end]) @ o.T
        start = end
    ok, p = guarded(F, "diag_pair", cirq.diagonalize_real_symmetric_and_sorted_diagonal_matrices, blocks, dd)
    if ok:
        F.need(np.allclose(p @ p.T, np.eye(n), atol=1e-8), "diag_pair_orthogonal", "P is not orthogonal")
        d = p.T @ blocks @ p
        F.close("diag_pair", float(np.max(np.abs(d - np.diag(np.diag(d))))), TOL, "diag_pair_diagonal", lambda: f"P.T @ symmetric @ P is not diagonal for diag {tuple(vals)}: {fmt(d)}")
        F.close("diag_pair_fix", L.exact_err(dd, p.T @ dd @ p), TOL, "diag_pair_fixes_diagonal", f"P.T @ diagonal @ P != diagonal for {tuple(vals)}")
    return F.result()


def so4_cases(tier):
    n = len(L.s1_small(gen()))
    return [(i, j, f) for i in range(n) for j in range(n) for f in ((0, 1) if (i + j) % 7 == 0 else (0,))]


def run_so4(case):
    i, j, flip = case
    sm = L.s1_small(gen())
    a = L.to_su2(L.s1_matrix(sm[i], gen()))
    b = L.to_su2(L.s1_matrix(sm[j], gen()))
    mat = L.dag(L.MAGIC) @ np.kron(a, b) @ L.MAGIC
    F = Fails(f"so4_to_magic_su2s(Mag^dag kron(SU2[{sm[i]}], SU2[{sm[j]}]) Mag){' with a row negated (det -1)' if flip else ''}")
    if np.max(np.abs(mat.imag)) > 1e-12:
        raise core.HarnessError("magic-basis image of SU(2)xSU(2) is not real")
    mat = mat.real.copy()
    if flip:
        mat[0] *= -1
        ok, r = guarded(F, "so4", cirq.so4_to_magic_su2s, mat, allowed=(ValueError,))
        F.need(not ok, "so4_precondition", "a det=-1 orthogonal matrix was accepted")
        return F.result()
    ok, r = guarded(F, "so4", cirq.so4_to_magic_su2s, mat)
    if ok:
        ra, rb = r
        F.need(su2_ok(ra) and su2_ok(rb), "so4_su2", lambda: f"factors not in SU(2): {fmt(ra)}, {fmt(rb)}")
        F.close("so4", L.exact_err(mat, L.dag(L.MAGIC) @ np.kron(ra, rb) @ L.MAGIC), TOL, "so4_product", "Mag^dag kron(A,B) Mag != mat")
    return F.result()


SCALARS = (1, 1j, -1, None)


def kron_cases(tier):
    d = L.s1_descs(tier)
    if tier == "quick":
        idx = list(range(0, len(d), 4))
    else:
        idx = list(range(len(d)))
    return [(i, j) for i in idx for j in idx]


def run_kron(case):
    i, j = case
    d = L.s1_descs()
    a = L.s1_matrix(d[i], gen())
    b = L.s1_matrix(d[j], gen())
    sc = SCALARS[(i + 2 * j) % 4]
    sc = np.exp(1j * gen()[2]) if sc is None else sc
    m = sc * np.kron(a, b)
    F = Fails(f"kron_factor_4x4_to_2x2s({sc:.4g} * kron(S1{d[i]}, S1{d[j]}))")
    ok, r = guarded(F, "kron_factor", cirq.kron_factor_4x4_to_2x2s, m)
    if ok:
        g, f1, f2 = r
        F.close("kron_factor", L.exact_err(m, g * np.kron(f1, f2)), TOL, "kron_factor_product", "g * kron(f1, f2) != matrix")
        F.need(abs(np.linalg.det(f1) - 1) < 1e-7 and abs(np.linalg.det(f2) - 1) < 1e-7, "kron_factor_det", lambda: f"factors not unit determinant: {np.linalg.det(f1)}, {np.linalg.det(f2)}")
    if i == j:
        bad_m = m.copy()
        bad_m[0, 0] += 0.5
        bad_m[3, 3] -= 0.25
        ok, r = guarded(F, "kron_factor", cirq.kron_factor_4x4_to_2x2s, bad_m, allowed=(ValueError,))
        if ok:
            g, f1, f2 = r
            F.close("kron_factor_bad", L.exact_err(bad_m, g * np.kron(f1, f2)), 1e-4, "kron_factor_accepts_non_product", "a non-product matrix was 'factored'")
    return F.result()


def eig_inputs():
    """Normal matrices for unitary_eig / map_eigenvalues / bidiagonalize_unitary: S2 sample, S3, degenerate, Hermitian."""
    out = []
    sm = L.s2_descs("quick", "small")
    for d in sm[::7]:
        u, info = s2().build(d)
        out.append((info["name"], u))
    for nm, u in s3():
        out.append((nm, u))
    g3 = E.generic_unitary(3, 60 + _S["seed"])
    for nm, lam in (("deg(1,1,-1)", (1, 1, -1)), ("deg(1,1,1)", (1, 1, 1)), ("deg(i,i,e^{i g})", (1j, 1j, np.exp(1j * gen()[0]))),
                    ("near-deg", (1, np.exp(1e-7j), np.exp(2e-7j))), ("near-deg2", (1, np.exp(1e-9j), -1))):
        out.append((f"3x3 V diag{nm} V^dag", (g3 * np.asarray(lam, dtype=complex)) @ L.dag(g3)))
    g4 = E.generic_unitary(4, 61 + _S["seed"])
    for nm, lam in (("hermitian(1,2,2,-3)", (1, 2, 2, -3)), ("hermitian(0,0,0,0)", (0, 0, 0, 0)), ("normal(1+i,1+i,2,0)", (1 + 1j, 1 + 1j, 2, 0))):
        out.append((f"4x4 V diag{nm} V^dag", (g4 * np.asarray(lam, dtype=complex)) @ L.dag(g4)))
    out.append(("1x1", np.array([[np.exp(0.3j)]])))
    return out


def run_eig(i):
    nm, m = _S["eig_inputs"][i]
    F = Fails(f"normal matrix #{i}: {nm}")
    _check_eig(F, m, tag=f"{nm}: ")
    if L.is_unitary(m):
        _check_bidiag_unitary(F, m, nm)
    else:
        ok, r = guarded(F, "bidiag_unitary", cirq.bidiagonalize_unitary_with_special_orthogonals, m, allowed=(ValueError,))
        F.need(not ok, "bidiag_unitary_precondition", "non-unitary accepted")
    if i == 0:
        nn = np.array([[1, 1], [0, 1]], dtype=complex)
        ok, r = guarded(F, "unitary_eig", cirq.unitary_eig, nn, allowed=(ValueError,))
        F.need(not ok, "unitary_eig_precondition", "non-normal matrix accepted by unitary_eig")
    return F.result()


# ------------------------------------------------------------------------------------------------
# S3 / n-qubit


def run_three_qubit(case):
    i, pi = case
    nm, u = s3()[i]
    qs = [Q3[k] for k in PERM3[pi]]
    F = Fails(f"S3[{i}] = {nm} on qubits {qs}")
    ok, ops = guarded(F, "three_qubit", cirq.three_qubit_matrix_to_operations, *qs, u)
    if ok:
        ops = flat_ops(ops)
        F.close("three_qubit", L.phase_err(u, ops_unitary(ops, qs)), TOL, "three_qubit_unitary", "three_qubit_matrix_to_operations does not rebuild U up to global phase")
        two = [o for o in ops if nq(o) != 1]
        F.need(all(nq(o) == 2 and (o.gate == cirq.CZ or o.gate == cirq.CNOT) for o in two), "three_qubit_types", lambda: f"multi-qubit ops other than CZ/CNOT: {sorted({str(o.gate) for o in two})}")
        F.need(len(two) <= 20, "three_qubit_count", f"{len(two)} two-qubit gates (module documents at most 20 CZ/CNOT)")
        F.count("max_two_qubit_gates", 0)
        F.counters["max_two_qubit_gates"] = max(F.counters.get("max_two_qubit_gates", 0), len(two))
    return F.result()


SHANNON_TOL = 1e-6  # the docstring warns that accuracy is limited by np.linalg.eig; upstream tests use 1e-6 on structured inputs


def shannon_inputs(tier):
    out = []
    s1d = L.s1_descs()
    for d in s1d[::16]:
        out.append((1, f"S1{d}", L.s1_matrix(d, gen())))
    for d in L.s2_descs("quick", "small")[::(9 if tier == "quick" else 3)]:
        u, info = s2().build(d)
        out.append((2, info["name"], u))
    # local two-qubit blocks: the synthesis of the block then touches one qubit (or none) only
    for i, c in enumerate(L.CLIFF):
        p = np.exp(1j * PI * (i % 8) / 4)
        out.append((2, f"e^(i pi {i % 8}/4) C{i} (x) I", np.kron(p * c, L.I2)))
        out.append((2, f"I (x) e^(i pi {i % 8}/4) C{i}", np.kron(L.I2, p * c)))
        if i % 4 == 0:
            out.append((2, f"C{i} (x) C{(i * 7 + 3) % 24}", np.kron(c, L.CLIFF[(i * 7 + 3) % 24])))
    gq = E.generic_unitary(2, 80 + _S["seed"])
    for i in (0, 3, 7, 12, 17, 22):
        c = L.CLIFF[i]
        out.append((3, f"C{i} (x) I (x) I", E.kron(c, L.I2, L.I2)))
        out.append((3, f"I (x) C{i} (x) I", E.kron(L.I2, c, L.I2)))
        out.append((3, f"I (x) I (x) C{i}", E.kron(L.I2, L.I2, c)))
        out.append((3, f"gen (x) C{i} (x) I", E.kron(gq, c, L.I2)))
        out.append((3, f"CZ(0,1) (x) C{i}", np.kron(G.czpow(1), c)))
        out.append((3, f"C{i} (x) CZ(1,2)", np.kron(c, G.czpow(1))))
    for nm, u in s3():
        out.append((3, nm, u))
    if tier != "quick":
        g4 = E.generic_unitary(16, 70 + _S["seed"])
        four = [("I16", np.eye(16, dtype=complex)), ("generic16", g4), ("CCCZ", np.diag([1] * 15 + [-1]).astype(complex)),
                ("QFT4", G.qft(4)), ("H(x)CCX", np.kron(L.H, G.ccxpow(1))), ("CSWAP(x)S", np.kron(G.cswap(), L.S)),
                ("mux(generic8,generic8')", G.block_diag(E.generic_unitary(8, 71 + _S["seed"]), E.generic_unitary(8, 72 + _S["seed"]))),
                ("SWAP(x)iSWAP", np.kron(G.swappow(1), G.iswappow(1))), ("CZ(x)CZ", np.kron(G.czpow(1), G.czpow(1)))]
        for nm, u in four:
            out.append((4, nm, u))
    return out


def shannon_layouts(n):
    if n == 1:
        return [(0,)]
    if n == 2:
        return [(0, 1), (1, 0)]
    if n == 3:
        return PERM3
    return [(0, 1, 2, 3), (2, 3, 1, 0)]


def run_shannon(case):
    i, li = case
    n, nm, u = _S["shannon"][i]
    base = cirq.LineQubit.range(n)
    qs = [base[k] for k in shannon_layouts(n)[li]]
    F = Fails(f"quantum_shannon_decomposition n={n} input {nm} on qubits {qs}")
    ok, ops = guarded(F, "shannon", lambda: list(cirq.quantum_shannon_decomposition(qs, u)))
    if ok:
        ops = flat_ops(ops)
        F.close(f"shannon_n{n}", L.exact_err(u, ops_unitary(ops, qs)), SHANNON_TOL, "shannon_unitary", "quantum_shannon_decomposition does not rebuild U (global phase is documented to be preserved)")
        big = [o for o in ops if nq(o) > 2]
        F.need(not big, "shannon_types", lambda: f"operations on more than two qubits: {[str(o) for o in big]}")
        two = [o for o in ops if nq(o) == 2]
        F.need(all(isinstance(o.gate, (cirq.CZPowGate, cirq.CXPowGate)) for o in two), "shannon_types", lambda: f"two-qubit gates other than CZ/CNOT powers: {sorted({str(o.gate) for o in two})}")
    return F.result()


MCX_MAX_N_QUICK = 11


def mcx_cases(tier):
    """controls 0..7 x free qubits 0..4 x 2 layouts: every branch of the size-dependent case split of
    decompose_multi_controlled_x on both sides of its thresholds (trivial m<=2; Lemma 7.2 iff free >= m-2, with a
    ladder of m-3 rungs; Lemma 7.3 recursion iff 1 <= free < m-2; general rotation iff free == 0 and m >= 3)."""
    cs = []
    for m in range(0, 8):
        for f in range(0, 5):
            if tier == "quick" and m + 1 + f > MCX_MAX_N_QUICK:
                continue
            for layout in (0, 1):
                cs.append((m, f, layout))
    cs.sort(key=lambda c: (c[0] + c[1], c))
    return cs


def _layout(n, layout):
    qs = cirq.LineQubit.range(n)
    return qs if layout == 0 else qs[::-1]


def _controlled_gate_list(F, ops, idx, kind):
    """Operations -> (controls, target, 2x2) triples for the basis-state propagator; None if the documented gate set
    (1-qubit gates, CNOT, CCNOT) is violated."""
    badops = [o for o in ops if not (nq(o) == 1 or o.gate == cirq.CNOT or o.gate == cirq.CCNOT)]
    F.need(not badops, kind + "_types", lambda: f"operations other than 1-qubit/CNOT/CCNOT: {[str(o) for o in badops[:5]]}")
    foreign = [o for o in ops if any(q not in idx for q in o.qubits)]
    F.need(not foreign, kind + "_qubits", lambda: f"foreign qubits used: {[str(o) for o in foreign[:5]]}")
    if badops or foreign:
        return None
    out = []
    for o in ops:
        w = [idx[q] for q in o.qubits]
        if len(w) == 1:
            out.append(((), w[0], cirq.unitary(o)))
        else:
            out.append((tuple(w[:-1]), w[-1], L.X))
    return out


def run_mcx(case):
    m, f, layout = case
    n = m + 1 + f
    allq = cirq.LineQubit.range(n)
    perm = _layout(n, layout)
    controls, target, free = list(perm[:m]), perm[m], list(perm[m + 1:])
    F = Fails(f"decompose_multi_controlled_x(controls={controls}, target={target}, free_qubits={free})")
    ok, ops = guarded(F, "mcx", cirq.decompose_multi_controlled_x, controls, target, free)
    if ok:
        ops = flat_ops(ops)
        idx = {q: i for i, q in enumerate(allq)}
        gl = _controlled_gate_list(F, ops, idx, "mcx")
        if gl is not None:
            # every one of the 2^n basis states is propagated through the operations and then through the inverse of
            # C^m X (x) identity; the result must be a global phase times the input
            d = L.propagate_defect(n, gl, [(tuple(idx[q] for q in controls), idx[target], L.X)])
            F.close("mcx", d, TOL, "mcx_unitary", f"operations do not implement C^{m} X (x) identity on the {f} free qubits (all {2 ** n} basis states propagated)")
            F.count("basis_states_propagated", 2 ** n)
    return F.result()


def mcrot_cases(tier):
    n = len(L.s1_small(gen()))
    cs = [(m, i, su, layout) for m in range(0, 8) for i in range(n) for su in (0, 1) for layout in ((0, 1) if i % 5 == 0 else (0,))]
    big = (24, 7, 37, 39)  # indices into s1_small: generic ZYZ, a Clifford, exp(i 1e-5 H), Ry(pi-1e-7)
    cs += [(8, i, su, 0) for i in big for su in (0, 1)]
    cs += [(9, i, 1, k % 2) for k, i in enumerate(big)]
    if tier != "quick":
        cs += [(9, i, 0, k % 2) for k, i in enumerate(big)]
        cs += [(10, i, 1, 0) for i in big[:2]]
    return cs


def run_mcrot(case):
    m, i, su, layout = case
    d = L.s1_small(gen())[i]
    mat = L.s1_matrix(d, gen())
    if su:
        mat = L.to_su2(mat)
    n = m + 1
    allq = cirq.LineQubit.range(n)
    perm = _layout(n, layout)
    controls, target = list(perm[:m]), perm[m]
    F = Fails(f"decompose_multi_controlled_rotation(S1{d}{' normalised to SU(2)' if su else ''}, {m} controls={controls}, target={target})")
    ok, ops = guarded(F, "mcrot", cirq.decompose_multi_controlled_rotation, mat, controls, target)
    if ok:
        ops = flat_ops(ops)
        idx = {q: k for k, q in enumerate(allq)}
        gl = _controlled_gate_list(F, ops, idx, "mcrot")
        if gl is not None:
            dfc = L.propagate_defect(n, gl, [(tuple(idx[q] for q in controls), idx[target], L.dag(mat))])
            F.close("mcrot", dfc, TOL, "mcrot_unitary", f"operations do not implement the {m}-controlled rotation (all {2 ** n} basis states propagated)")
    return F.result()


# ------------------------------------------------------------------------------------------------
# two-qubit state preparation


def stabilizer_states_2q():
    gens = [np.kron(L.H, L.I2), np.kron(L.I2, L.H), np.kron(L.S, L.I2), np.kron(L.I2, L.S), G.cxpow(1)]

    def norm(v):
        k = next(i for i in range(4) if abs(v[i]) > 1e-9)
        return v * (abs(v[k]) / v[k])

    start = norm(np.array([1, 0, 0, 0], dtype=complex))
    seen = {tuple(np.round(start, 6)): start}
    order = [start]
    frontier = [start]
    while frontier:
        nxt = []
        for v in frontier:
            for g in gens:
                w = norm(g @ v)
                k = tuple(np.round(w + 0.0, 6))
                if k not in seen:
                    seen[k] = w
                    order.append(w)
                    nxt.append(w)
        frontier = nxt
    if len(order) != 60:
        raise core.HarnessError(f"{len(order)} two-qubit stabilizer states instead of 60")
    return order


def prep_states():
    out = [(f"stabilizer#{i}", v, None) for i, v in enumerate(stabilizer_states_2q())]
    ga, gb = E.generic_state(2, 1 + _S["seed"]), E.generic_state(2, 2 + _S["seed"])
    out.append(("generic product", np.kron(ga, gb), 0))
    for k in range(3):
        out.append((f"generic entangled#{k}", E.generic_state(4, 3 + k + _S["seed"]), 1))
    u, w = E.generic_unitary(2, 5 + _S["seed"]), E.generic_unitary(2, 6 + _S["seed"])
    for s1 in (1e-9, 1e-5, 1e-3, 1e-2, 0.3, math.sqrt(0.5) - 1e-7, math.sqrt(0.5)):
        s0 = math.sqrt(1 - s1 * s1)
        for nm, (a, b) in (("computational", (L.I2, L.I2)), ("generic", (u, w))):
            st = s0 * np.kron(a[:, 0], b[:, 0]) + s1 * np.kron(a[:, 1], b[:, 1])
            ent = 1 if s1 >= 1e-3 else (0 if s1 < 1e-8 else None)
            out.append((f"Schmidt({s0:.9g},{s1:.3g}) in {nm} basis", st, ent))
    out.append(("1j*|11>", np.array([0, 0, 0, 1j], dtype=complex), 0))
    out.append(("(|00>+|11>)*i/sqrt2", np.array([1j, 0, 0, 1j], dtype=complex) / math.sqrt(2), 1))
    return out


PREP_TOL = 1e-6  # the routines compute an intermediate state in complex64 (documented in code): single-precision round-off


def run_state_prep(case):
    i, lay = case
    nm, st, ent = _S["prep"][i]
    QS = list(Q2) if lay == 0 else [Q2[1], Q2[0]]
    a, b = QS
    tgt = st / np.linalg.norm(st)
    schmidt = np.linalg.svd(tgt.reshape(2, 2), compute_uv=False)
    if ent is None and nm.startswith("stabilizer"):
        ent = 1 if schmidt[1] > 0.1 else 0
    F = Fails(f"state {nm} = {fmt(st)} on qubits {QS}")
    routines = [
        ("prepare_two_qubit_state_using_cz", lambda: cirq.prepare_two_qubit_state_using_cz(a, b, st), lambda g: g == cirq.CZ),
        ("prepare_two_qubit_state_using_iswap(use_iswap_inv=False)", lambda: cirq.prepare_two_qubit_state_using_iswap(a, b, st, use_iswap_inv=False), lambda g: g == cirq.ISWAP),
        ("prepare_two_qubit_state_using_iswap(use_iswap_inv=True)", lambda: cirq.prepare_two_qubit_state_using_iswap(a, b, st, use_iswap_inv=True), lambda g: g == cirq.ISWAP_INV),
        ("prepare_two_qubit_state_using_sqrt_iswap(use_sqrt_iswap_inv=True)", lambda: cirq.prepare_two_qubit_state_using_sqrt_iswap(a, b, st, use_sqrt_iswap_inv=True), lambda g: g == cirq.SQRT_ISWAP_INV),
        ("prepare_two_qubit_state_using_sqrt_iswap(use_sqrt_iswap_inv=False)", lambda: cirq.prepare_two_qubit_state_using_sqrt_iswap(a, b, st, use_sqrt_iswap_inv=False), lambda g: g == cirq.SQRT_ISWAP),
    ]
    for label, call, is_target in routines:
        ok, ops = guarded(F, "state_prep", call)
        if not ok:
            continue
        ops = flat_ops(ops)
        got = ops_unitary(ops, QS)[:, 0]
        F.close("state_prep", L.phase_err(tgt, got), PREP_TOL, "state_prep_state", f"{label}: circuit|00> differs from the requested state up to global phase (Schmidt coefficients {tuple(schmidt)})")
        two = [o for o in ops if nq(o) != 1]
        F.need(all(nq(o) == 2 and is_target(o.gate) for o in two) and len(two) <= 1, "state_prep_types", lambda: f"{label}: multi-qubit ops {[str(o) for o in two]} (at most one target gate documented)")
        if ent is not None:
            F.need(len(two) == ent, "state_prep_count", f"{label}: {len(two)} entangling gates for a{'n entangled' if ent else ' product'} state (documented: exactly {ent})")
    return F.result()


# ------------------------------------------------------------------------------------------------
# Clifford tableaux

PAULI1 = {(0, 0): L.I2, (1, 0): L.X, (0, 1): L.Z, (1, 1): L.Y}


def tableau_from_unitary(u, n):
    """(xs, zs, rs) rows: images U P U^dag of X_0..X_{n-1}, Z_0..Z_{n-1}; Y for x=z=1; r = sign bit."""
    xs = np.zeros((2 * n, n), dtype=bool)
    zs = np.zeros((2 * n, n), dtype=bool)
    rs = np.zeros(2 * n, dtype=bool)
    strings = list(itertools.product(((0, 0), (1, 0), (0, 1), (1, 1)), repeat=n))
    mats = [E.kron(*[PAULI1[p] for p in s]) for s in strings]
    row = 0
    for base in (L.X, L.Z):
        for q in range(n):
            p = E.kron(*[base if k == q else L.I2 for k in range(n)])
            img = u @ p @ L.dag(u)
            found = False
            for s, m in zip(strings, mats):
                c = np.trace(L.dag(m) @ img) / (2 ** n)
                if abs(abs(c) - 1) < 1e-6:
                    if abs(c.imag) > 1e-6:
                        return None
                    for k in range(n):
                        xs[row, k], zs[row, k] = bool(s[k][0]), bool(s[k][1])
                    rs[row] = c.real < 0
                    found = True
                    break
            if not found:
                return None
            row += 1
    return xs, zs, rs


def clifford_group_tableaux(n):
    """Closure of the H/S/CNOT tableaux under CliffordTableau.then (BFS); keys are (xs, zs, rs) bytes."""
    gens = []
    for q in range(n):
        for g in (cirq.H, cirq.S):
            t = cirq.CliffordTableau(n)
            st = cirq.CliffordTableauSimulationState(tableau=t, qubits=cirq.LineQubit.range(n), prng=np.random.RandomState(0))
            cirq.act_on(g, st, [cirq.LineQubit(q)])
            gens.append(t)
    if n == 2:
        t = cirq.CliffordTableau(n)
        st = cirq.CliffordTableauSimulationState(tableau=t, qubits=cirq.LineQubit.range(n), prng=np.random.RandomState(0))
        cirq.act_on(cirq.CNOT, st, cirq.LineQubit.range(2))
        gens.append(t)

    def key(t):
        return (t.xs.tobytes(), t.zs.tobytes(), t.rs.tobytes())

    ident = cirq.CliffordTableau(n)
    seen = {key(ident): 0}
    order = [ident]
    frontier = [ident]
    while frontier:
        nxt = []
        for t in frontier:
            for g in gens:
                c = t.then(g)
                k = key(c)
                if k not in seen:
                    seen[k] = len(order)
                    order.append(c)
                    nxt.append(c)
        frontier = nxt
    return order


def symplectic_2q_direct():
    """All 4x4 binary symplectic matrices [xs|zs] (rows = images of X0, X1, Z0, Z1), by brute force."""
    J = np.zeros((4, 4), dtype=int)
    J[0, 2] = J[1, 3] = J[2, 0] = J[3, 1] = 1   # column order (x0, x1, z0, z1)
    vecs = np.array(list(itertools.product((0, 1), repeat=4)))
    sp = (vecs @ J @ vecs.T) % 2   # symplectic products of all pairs of 4-bit vectors
    out = []
    for a in range(1, 16):          # image of X0
        for c in range(1, 16):      # image of Z0
            if sp[a, c] != 1:
                continue
            for b in range(1, 16):  # image of X1
                if sp[a, b] or sp[c, b]:
                    continue
                for d in range(1, 16):  # image of Z1
                    if sp[a, d] or sp[c, d] or sp[b, d] != 1:
                        continue
                    out.append((a, b, c, d))
    if len(out) != 720:
        raise core.HarnessError(f"{len(out)} symplectic matrices instead of 720")
    return out, vecs


def clifford_inputs(tier):
    one = clifford_group_tableaux(1)
    if len(one) != 24:
        raise core.HarnessError(f"{len(one)} one-qubit tableaux")
    items = [(1, t.xs.copy(), t.zs.copy(), t.rs.copy()) for t in one]
    if tier == "quick":
        sym, vecs = symplectic_2q_direct()
        for (a, b, c, d) in sym:
            rows = vecs[[a, b, c, d]]
            for sg in ((0, 0, 0, 0), (1, 0, 1, 0), (0, 1, 1, 1), (1, 1, 1, 1)):
                items.append((2, rows[:, :2].astype(bool), rows[:, 2:].astype(bool), np.array(sg, dtype=bool)))
    else:
        two = clifford_group_tableaux(2)
        if len(two) != 11520:
            raise core.HarnessError(f"{len(two)} two-qubit tableaux instead of 11520")
        items += [(2, t.xs.copy(), t.zs.copy(), t.rs.copy()) for t in two]
    return items


def run_clifford(case):
    i, lay = case
    n, xs, zs, rs = _S["cliff"][i]
    qs = cirq.LineQubit.range(n)
    if lay:
        qs = qs[::-1]
    F = Fails(f"CliffordTableau n={n} xs={xs.astype(int).tolist()} zs={zs.astype(int).tolist()} rs={rs.astype(int).tolist()} on qubits {list(qs)}")
    t = cirq.CliffordTableau(n, rs=rs.copy(), xs=xs.copy(), zs=zs.copy())
    ok, ops = guarded(F, "clifford", cirq.decompose_clifford_tableau_to_operations, qs, t)
    if ok:
        ops = flat_ops(ops)
        F.need(all(nq(o) <= 2 for o in ops), "clifford_types", "operations on more than two qubits")
        got = tableau_from_unitary(ops_unitary(ops, qs), n)
        if got is None:
            F.add("clifford_not_clifford", f"returned operations are not Clifford: {[str(o) for o in ops]}")
        else:
            gx, gz, gr = got
            same = np.array_equal(gx, xs) and np.array_equal(gz, zs) and np.array_equal(gr, rs)
            F.need(same, "clifford_tableau", lambda: f"operations {[str(o) for o in ops]} conjugate X_i,Z_i to xs={gx.astype(int).tolist()} zs={gz.astype(int).tolist()} rs={gr.astype(int).tolist()}")
        F.need(np.array_equal(t.xs, xs) and np.array_equal(t.zs, zs) and np.array_equal(t.rs, rs), "clifford_mutates_input", "the input tableau was modified")
    return F.result()


def _clifford_selftest():
    """The (xs, zs, rs) convention used by the oracle must reproduce the generator tableaux of H, S, CNOT."""
    for g, m, n in ((cirq.H, L.H, 1), (cirq.S, L.S, 1), (cirq.CNOT, G.cxpow(1), 2)):
        t = cirq.CliffordTableau(n)
        st = cirq.CliffordTableauSimulationState(tableau=t, qubits=cirq.LineQubit.range(n), prng=np.random.RandomState(0))
        cirq.act_on(g, st, cirq.LineQubit.range(n))
        x, z, r = tableau_from_unitary(m, n)
        if not (np.array_equal(x, t.xs) and np.array_equal(z, t.zs) and np.array_equal(r, t.rs)):
            raise core.HarnessError(f"tableau convention mismatch on generator {g}")


# ------------------------------------------------------------------------------------------------
# gate tabulation (heuristic): the reported structure must be what it says


def _tabulation():
    if _S.get("tab") is None:
        base = G.fsim(PI / 2, PI / 6)
        _S["tab"] = cirq.two_qubit_gate_product_tabulation(base, 0.05, sample_scaling=20, random_state=np.random.RandomState(11))
    return _S["tab"]


def run_tabulation(desc):
    u, info = s2().build(desc)
    tab = _tabulation()
    F = Fails(f"S2{desc} = {info['name']}; TwoQubitGateTabulation(SYC, max_infidelity=0.05, sample_scaling=20, seed 11)")
    ok, r = guarded(F, "tabulation", tab.compile_two_qubit_gate, u)
    if not ok:
        return F.result()
    loc = r.local_unitaries
    prod = np.kron(*loc[0])
    for k0, k1 in loc[1:]:
        prod = np.kron(k0, k1) @ tab.base_gate @ prod
    F.close("tabulation_actual", L.phase_err(r.actual_gate, prod), 1e-7, "tabulation_actual_gate", "actual_gate is not k_N.base.k_{N-1}...base.k_0 of the returned local_unitaries")
    F.need(all(L.is_unitary(np.asarray(k), 1e-7) for pair in loc for k in pair), "tabulation_locals", "local factors are not unitary")
    if r.success:
        # entanglement fidelity of actual vs target
        d = 4
        tr = abs(np.trace(L.dag(r.actual_gate) @ u)) ** 2
        fid = (d + tr) / (d * (d + 1))
        F.need(1 - fid <= tab.max_expected_infidelity + 1e-9, "tabulation_success", f"success=True but infidelity {1 - fid:.4g} > max_expected_infidelity {tab.max_expected_infidelity}")
        F.count("tabulation_success")
    return F.result()


# ------------------------------------------------------------------------------------------------
# stages


def _reset_for(tier, seed):
    def reset():
        _init(seed)
        if "kv_descs" not in _S:
            _S["kv_descs"] = L.s2_descs(tier, "main")
        if "shannon" not in _S:
            _S["shannon"] = shannon_inputs(tier)
        if "prep" not in _S:
            _S["prep"] = prep_states()
        if "eig_inputs" not in _S:
            _S["eig_inputs"] = eig_inputs()
    return reset


def stages(tier, seed):
    reset = _reset_for(tier, seed)
    reset()
    _clifford_selftest()
    q = tier == "quick"
    main = L.s2_descs(tier, "main")
    small = L.s2_descs(tier, "small")
    _S["cliff"] = clifford_inputs(tier)
    nb = 64
    batches = [(lo, min(len(main), lo + nb)) for lo in range(0, len(main), nb)]
    fs_gates = range(4) if q else range(len(FSIM_GATES))
    fsim_cases = [(d, gi, (k + gi) % 2) for k, d in enumerate(small[::(2 if q else 1)]) for gi in fs_gates]
    ts, ths, phs = cphase_cases()
    tab_cases = small[::(3 if q else 1)]
    st = [
        CaseStage("s1_single_qubit", L.s1_descs(tier), run_s1, reset=reset),
        CaseStage("linalg_kron_factor", kron_cases(tier), run_kron, reset=reset),
        CaseStage("linalg_so4_to_magic_su2s", so4_cases(tier), run_so4, reset=reset),
        CaseStage("linalg_bidiagonalize_diagonalize", bidiag_cases(tier), run_bidiag_pair, reset=reset),
        CaseStage("linalg_unitary_eig", list(range(len(_S["eig_inputs"]))), run_eig, reset=reset),
        CaseStage("kak_canonicalize_vector", canonicalize_cases(tier), run_canonicalize, reset=reset),
        CaseStage("s2_kak", main, run_kak, reset=reset),
        CaseStage("s2_kak_vector_batched", batches, run_kak_vector_batch, reset=reset),
        CaseStage("s2_cz_operations", main, run_cz_main, reset=reset),
        CaseStage("s2_cz_family_all_options", small, run_cz, reset=reset),
        CaseStage("s2_sqrt_iswap", main, run_sqrt_iswap_main, reset=reset),
        CaseStage("s2_sqrt_iswap_all_options", small, run_sqrt_iswap, reset=reset),
        CaseStage("s2_four_fsim", fsim_cases, run_four_fsim, reset=reset),
        CaseStage("s2_ion_sycamore", small, run_ion_syc, reset=reset),
        CaseStage("parameterized_to_sqrt_iswap", param_cases(), run_param_sqrt_iswap, reset=reset),
        CaseStage("known_ops_to_sycamore", list(range(len(known_syc_ops()))), run_known_syc, reset=reset),
        CaseStage("cphase_into_two_fsim", [(i, j, k) for i in range(len(ts)) for j in range(len(ths)) for k in range(len(phs))], run_cphase_fsim, reset=reset),
        CaseStage("s3_three_qubit", [(i, p) for i in range(len(s3())) for p in range(6)], run_three_qubit, reset=reset),
        CaseStage("quantum_shannon", [(i, l) for i, (n, _, _) in enumerate(_S["shannon"]) for l in range(len(shannon_layouts(n)))], run_shannon, reset=reset),
        CaseStage("multi_controlled_x", mcx_cases(tier), run_mcx, reset=reset),
        CaseStage("multi_controlled_rotation", mcrot_cases(tier), run_mcrot, reset=reset),
        CaseStage("two_qubit_state_preparation", [(i, l) for i in range(len(_S["prep"])) for l in (0, 1)], run_state_prep, reset=reset),
        CaseStage("clifford_tableau_synthesis", [(i, l) for i, c in enumerate(_S["cliff"]) for l in ((0, 1) if c[0] == 2 else (0,))], run_clifford, reset=reset),
        CaseStage("gate_tabulation", tab_cases, run_tabulation, reset=reset),
    ]
    return st
