"""C15 -- analytical decompositions rebuild their input within documented bounds.

Bounded-exhaustive (E1): a finite stand-in for "all unitaries", built to contain the measure-zero cases
(Cliffords, Weyl-chamber lattice incl. faces/edges/vertices, +-1e-7 perturbations, degenerate spectra,
named gates, generic representatives), crossed with every routine and option of the anchored modules.
Oracle: the product of the returned factors / the reference-embedded unitary of the returned operations
(mc/ref/embed.py with cirq.unitary of each *single* op) equals the input exactly or up to global phase as
each docstring states, within max(10 x routine atol, 1e-7); plus the promised form (gate types, gate counts,
canonical ranges).  The Weyl class of every two-qubit input is known by construction (mc/ref/c15lib.py).
"""
from __future__ import annotations

import itertools
import math

import numpy as np
import sympy
import cirq
import cirq_google

from mc import core
from mc.core import CaseStage, Res, bad, good
from mc.ref import embed as E
from mc.ref import gates as G
from mc.ref import c15lib as L

PROPERTY = "C15"
LEVEL = "exploration"
RULE = ("inputs = finite stand-in for all unitaries: S1 (24 Cliffords x 8 phases, RzRyRz on {0,pi/2,pi,generic,pi-1e-7}^3, "
        "exp(i eps H)), S2 = K1.exp(i(xXX+yYY+zZZ)).K2 over the full Weyl lattice {-pi/4..3pi/8}^3, chamber "
        "vertices/edges/faces +-1e-7 in all 26 directions and 2-3 equivalent presentations, named gates, degenerate spectra, "
        "generic points, with K in {1, Cliffords x 1, H x S, generic x generic}; S3 (CCZ/CCX/CSWAP/QFT3/local x S2/"
        "multiplexers with degenerate cosine-sine angles/generic); all 24 / 11520 Clifford tableaux; 60 stabilizer states; "
        "every routine x every option flag is run on every element; a case is non-trivial when at least one routine returned "
        "a decomposition that was compared with the input; distinct = distinct (stage, input descriptor)")
TECHNIQUE = ("bounded-exhaustive enumeration of a Weyl-chamber lattice (with boundary perturbations) x routine x option; "
             "reconstruction by an independent embedding reference; gate counts against classes known by construction")
LEVEL_TEXT = ("Every routine/option of the anchored decomposition modules is executed on every element of a finite input set "
              "that contains the measure-zero classes where numerical linear algebra fails (identity, local, CNOT/iSWAP/SWAP "
              "classes, chamber boundaries, degenerate spectra, 1e-7 perturbations). The returned factors/operations are "
              "multiplied by an independent reference and compared with the input; counts and canonical forms are compared "
              "with the class known from the construction of the input. Nothing is sampled; the bound is the input alphabet.")
LEVEL_NOTE = ("trusted: numpy/scipy; cirq.unitary of single returned operations (tied to closed forms by C03/C04); the closed-form "
              "gate matrices of mc/ref/gates.py; Makhlin invariants validate the claimed Weyl vectors of named gates at start-up")
ASSUMPTIONS = [
    "numpy / scipy linear algebra",
    "cirq.unitary of a single returned operation (X/Y/Z/PhasedX/PhasedXZ/CZ/CNOT/CCX/ISWAP/FSim/MS/SYC/MatrixGate powers) is "
    "correct (tied to closed forms by C03/C04); the product over the circuit is formed by mc/ref/embed.py",
    "inputs are finite representatives: 'all unitaries' is bounded by the documented alphabet",
    "at the +-1e-7 perturbed points and wherever the class is ambiguous at the 1e-10..1e-3 scale only upper bounds on gate "
    "counts and reconstruction are demanded",
]

PI = math.pi
TOL = 1e-7
Q2 = cirq.LineQubit.range(2)
Q3 = cirq.LineQubit.range(3)

_S = {}


def _init(seed):
    if _S.get("seed") == seed:
        return
    gen = (core.generic(seed, 0), core.generic(seed, 1), core.generic(seed, 2))
    _S.clear()
    _S["seed"] = seed
    _S["gen"] = gen
    _S["s2"] = L.S2(seed, gen)
    _S["s3"] = None


def _seed():
    return core.seed_from_env()


def gen():
    return _S["gen"]


def s2():
    return _S["s2"]


def s3():
    if _S.get("s3") is None:
        _S["s3"] = L.s3_list(_S["seed"], _S["gen"], _S["s2"])
    return _S["s3"]


# ------------------------------------------------------------------------------------------------
# reference evaluation of returned operations


def flat_ops(tree):
    return list(cirq.flatten_to_ops(tree))


def ops_unitary(ops, qubits):
    """Unitary of a list of cirq operations: cirq.unitary of each single op, composed by the embed reference."""
    idx = {q: i for i, q in enumerate(qubits)}
    seq = []
    for op in ops:
        m = cirq.unitary(op, None)
        if m is None:
            raise ValueError(f"returned operation without unitary: {op!r}")
        seq.append((m, [idx[q] for q in op.qubits]))
    return E.apply_ops(seq, (2,) * len(qubits))


def nq(op):
    return len(op.qubits)


def is_gpo(op):
    return isinstance(op.gate, cirq.GlobalPhaseGate)


class Fails:
    """Collects failures of one case and error maxima."""

    def __init__(self, name):
        self.name = name
        self.items = []
        self.counters = {}
        self.compared = 0

    def add(self, kind, msg):
        self.items.append((kind, msg))

    def err(self, key, val):
        k = "max_err_" + key
        if not (val <= self.counters.get(k, 0.0)):
            self.counters[k] = float(val) if np.isfinite(val) else 1e9

    def count(self, key, n=1):
        self.counters[key] = self.counters.get(key, 0) + n

    def need(self, cond, kind, msg):
        self.compared += 1
        if not cond:
            self.add(kind, msg)
        return cond

    def close(self, key, err, tol, kind, msg):
        self.compared += 1
        self.err(key, err)
        if not (err <= tol):
            self.add(kind, f"{msg}: error {err:.3g} > {tol:.3g}")
            return False
        return True

    def result(self):
        if self.items:
            kind = self.items[0][0]
            text = f"input {self.name}: " + " || ".join(f"[{k}] {m}" for k, m in self.items[:4])
            if len(self.items) > 4:
                text += f" || (+{len(self.items) - 4} more)"
            r = bad(text, kind=kind)
            r.counters = self.counters
            return r
        r = good(nontrivial=self.compared > 0, **self.counters)
        return r


def fmt(m):
    return np.array2string(np.asarray(m), precision=6, suppress_small=True, max_line_width=200).replace("\n", " ")


def guarded(F, kind, fn, *a, allowed=(), **kw):
    """Run fn; an exception not in `allowed` is a violation.  Returns (ok, value | exception)."""
    try:
        return True, fn(*a, **kw)
    except allowed as e:  # documented rejection
        return False, e
    except core.HarnessError:
        raise
    except Exception as e:  # noqa
        import traceback
        F.add(kind + ":exception", f"{fn.__name__}{_short_args(kw)} raised {type(e).__name__}: {str(e)[:300]} "
                                   f"@ {traceback.format_exc(limit=-2)[-300:]}")
        return False, e


def _short_args(kw):
    return "(" + ", ".join(f"{k}={v!r}" for k, v in kw.items() if not isinstance(v, np.ndarray)) + ")"


# ------------------------------------------------------------------------------------------------
# S1 stage: single-qubit routines


def su2_ok(m, tol=1e-7):
    return L.is_unitary(m, tol) and abs(np.linalg.det(m) - 1) <= tol


def run_s1(desc):
    u = L.s1_matrix(desc, gen())
    F = Fails(f"S1{desc}")
    near_id = desc[0] == "e"
    # --- deconstruct_single_qubit_matrix_into_angles: U ~ Z^{p2/pi} Y^{p1/pi} Z^{p0/pi} up to global phase
    ok, r = guarded(F, "zyz", cirq.deconstruct_single_qubit_matrix_into_angles, u)
    if ok:
        p0, p1, p2 = r
        got = G.zpow(p2 / PI) @ G.ypow(p1 / PI) @ G.zpow(p0 / PI)
        F.close("zyz", L.phase_err(u, got), TOL, "zyz", f"deconstruct_single_qubit_matrix_into_angles -> {r} does not rebuild U={fmt(u)}")
    # --- axis_angle
    ok, r = guarded(F, "axis_angle", cirq.axis_angle, u)
    if ok:
        x, y, z = r.axis
        got = r.global_phase * L.expi(x * L.X + y * L.Y + z * L.Z, -r.angle / 2)
        # the routine snaps rotations with |sin(angle/2)| < 1e-7 to the identity: error up to 1e-7 is documented behaviour
        F.close("axis_angle", L.exact_err(u, got), 3e-7 if near_id else TOL, "axis_angle", f"axis_angle -> {r!r} does not rebuild U={fmt(u)}")
        F.need(abs(abs(r.global_phase) - 1) < 1e-9 and abs(x * x + y * y + z * z - 1) < 1e-7, "axis_angle_form", f"non-unit phase/axis {r!r}")
        F.need(x + y + z >= -1e-7 and -PI + 1e-8 - 1e-9 < r.angle <= PI + 1e-8 + 1e-9, "axis_angle_form", f"not canonical: {r!r}")
        F.close("axis_angle_unitary", L.exact_err(got, cirq.unitary(r)), 1e-9, "axis_angle_unitary", "cirq.unitary(AxisAngleDecomposition) differs from its documented formula")
    # --- pauli rotations / gates / phased_x_z / phxz / from_matrix
    for atol in (0, 1e-8, 1e-5):
        tol = max(10 * atol, TOL)
        ok, r = guarded(F, "pauli_rotations", cirq.single_qubit_matrix_to_pauli_rotations, u, atol=atol)
        if ok:
            got = L.I2
            for p, ht in r:
                got = {cirq.X: G.xpow, cirq.Y: G.ypow, cirq.Z: G.zpow}[p](ht) @ got
            F.close("pauli_rotations", L.phase_err(u, got), tol, "pauli_rotations", f"single_qubit_matrix_to_pauli_rotations(atol={atol}) -> {r} does not rebuild U={fmt(u)}")
            F.need(len(r) <= 3 and all(p in (cirq.X, cirq.Y, cirq.Z) for p, _ in r), "pauli_rotations_form", f"{r}")
        ok, r = guarded(F, "to_gates", cirq.single_qubit_matrix_to_gates, u, atol)
        if ok:
            got = L.I2
            for g in r:
                got = cirq.unitary(g) @ got
            F.close("to_gates", L.phase_err(u, got), tol, "to_gates", f"single_qubit_matrix_to_gates(tolerance={atol}) -> {r} does not rebuild U={fmt(u)}")
            F.need(len(r) <= 3 and all(isinstance(g, (cirq.XPowGate, cirq.YPowGate, cirq.ZPowGate)) for g in r), "to_gates_form", f"{r}")
        ok, r = guarded(F, "phased_x_z", cirq.single_qubit_matrix_to_phased_x_z, u, atol)
        if ok:
            got = L.I2
            for g in r:
                got = cirq.unitary(g) @ got
            F.close("phased_x_z", L.phase_err(u, got), tol, "phased_x_z", f"single_qubit_matrix_to_phased_x_z(atol={atol}) -> {r} does not rebuild U={fmt(u)}")
            form = len(r) <= 2 and all(isinstance(g, (cirq.PhasedXPowGate, cirq.XPowGate, cirq.YPowGate, cirq.ZPowGate)) for g in r)
            if len(r) == 2:
                form = form and isinstance(r[1], cirq.ZPowGate) and not isinstance(r[0], cirq.ZPowGate)
            F.need(form, "phased_x_z_form", f"not [PhasedX, Z]: {r}")
        ok, r = guarded(F, "phxz", cirq.single_qubit_matrix_to_phxz, u, atol)
        if ok:
            got = L.I2 if r is None else cirq.unitary(r)
            F.close("phxz", L.phase_err(u, got), tol, "phxz", f"single_qubit_matrix_to_phxz(atol={atol}) -> {r} does not rebuild U={fmt(u)}")
            F.need(r is None or isinstance(r, cirq.PhasedXZGate), "phxz_form", f"{r!r}")
            if r is None:
                # None only if close to identity (trace distance <= atol)
                F.need(L.phase_err(u, L.I2) <= max(10 * atol, 1e-9), "phxz_none", f"None returned for a non-identity matrix (atol={atol})")
    ok, r = guarded(F, "from_matrix", cirq.PhasedXZGate.from_matrix, u)
    if ok:
        F.close("from_matrix", L.phase_err(u, cirq.unitary(r)), TOL, "from_matrix", f"PhasedXZGate.from_matrix -> {r!r} does not rebuild U={fmt(u)}")
        F.close("from_matrix_ref", L.exact_err(cirq.unitary(r), G.phased_xz(r.x_exponent, r.z_exponent, r.axis_phase_exponent)), 1e-9,
                "from_matrix_ref", "PhasedXZGate unitary differs from closed form")
    # --- unitary_eig / map_eigenvalues
    _check_eig(F, u)
    return F.result()


def _check_eig(F, u, tag=""):
    ok, r = guarded(F, "unitary_eig", cirq.unitary_eig, u)
    if ok:
        vals, vecs = r
        F.close("unitary_eig_V", L.exact_err(vecs @ L.dag(vecs), np.eye(len(u))), 1e-8, "unitary_eig", f"{tag}eigenvector matrix not unitary")
        F.close("unitary_eig", L.exact_err(u, (vecs * vals) @ L.dag(vecs)), TOL, "unitary_eig", f"{tag}V diag(vals) V^dag != matrix {fmt(u) if len(u) <= 4 else ''}")
    # entire functions only (no branch cut): f(M) must equal the power series value
    for c in (0.5, -1.3):
        ok, r = guarded(F, "map_eigenvalues", cirq.map_eigenvalues, u, lambda v, c=c: np.exp(1j * c * v))
        if ok:
            ref = _expm_series(1j * c * u)
            F.close("map_eigenvalues", L.exact_err(ref, r), TOL, "map_eigenvalues", f"{tag}map_eigenvalues(exp(i*{c}*v)) != matrix exponential")
    ok, r = guarded(F, "map_eigenvalues", cirq.map_eigenvalues, u, lambda v: v * v + 2 * v)
    if ok:
        F.close("map_eigenvalues", L.exact_err(u @ u + 2 * u, r), TOL, "map_eigenvalues", f"{tag}map_eigenvalues(v^2+2v) != M^2+2M")


def _expm_series(a):
    # scaling and squaring with a plain Taylor series (independent of scipy.linalg.expm)
    a = np.asarray(a, dtype=complex)
    n = len(a)
    k = max(0, int(math.ceil(math.log2(max(1e-16, np.linalg.norm(a, 2))))) + 4)
    b = a / (2 ** k)
    term = np.eye(n, dtype=complex)
    out = np.eye(n, dtype=complex)
    for j in range(1, 25):
        term = term @ b / j
        out = out + term
    for _ in range(k):
        out = out @ out
    return out


# ------------------------------------------------------------------------------------------------
# S2: KAK


def kak_product(k):
    b0, b1 = k.single_qubit_operations_before
    a0, a1 = k.single_qubit_operations_after
    x, y, z = k.interaction_coefficients
    return k.global_phase * (np.kron(a0, a1) @ L.interaction(x, y, z) @ np.kron(b0, b1))


def _check_kak_obj(F, k, u, info, label, tol=TOL, want_canon_eq=True):
    F.close("kak", L.exact_err(u, kak_product(k)), tol, "kak_product", f"{label}: g*(a0(x)a1)*exp(i(xXX+yYY+zZZ))*(b0(x)b1) != U; coefficients {k.interaction_coefficients}")
    v = tuple(float(t) for t in k.interaction_coefficients)
    F.need(L.is_canonical(v), "kak_canonical", f"{label}: interaction coefficients {v} are not canonical (pi/4>=x>=y>=|z|, z>=0 if x=pi/4)")
    F.need(abs(abs(k.global_phase) - 1) <= 1e-8, "kak_phase", f"{label}: |global_phase| = {abs(k.global_phase)}")
    for nm, m in zip(("b0", "b1", "a0", "a1"), (*k.single_qubit_operations_before, *k.single_qubit_operations_after)):
        F.need(np.shape(m) == (2, 2) and su2_ok(np.asarray(m)), "kak_su2", f"{label}: factor {nm} is not in SU(2): {fmt(m)}")
    if want_canon_eq and _robust_canon(info):
        d = max(abs(a - b) for a, b in zip(v, info["vc"]))
        F.close("kak_vec", d, 1e-7, "kak_coefficients", f"{label}: coefficients {v} differ from the reference canonical vector {info['vc']}")


def _robust_canon(info):
    """The canonical vector is unambiguous unless x is within (1e-10, 1e-3) of the pi/4 face with z != 0."""
    x, y, z = info["vc"]
    if info["exact"]:
        return True
    dx = PI / 4 - x
    return not (1e-10 < dx < 1e-3) or abs(z) < 1e-10


def run_kak(desc):
    u, info = s2().build(desc)
    F = Fails(f"S2{desc} = {info['name']}")
    ok, k = guarded(F, "kak", cirq.kak_decomposition, u)
    if ok:
        _check_kak_obj(F, k, u, info, "kak_decomposition(U)")
        F.close("kak_unitary", L.exact_err(kak_product(k), cirq.unitary(k)), 1e-8, "kak_unitary_protocol", "cirq.unitary(KakDecomposition) differs from the documented product formula")
        ok2, dops = guarded(F, "kak_decompose", cirq.decompose_once_with_qubits, k, Q2)
        if ok2:
            F.close("kak_decompose", L.exact_err(u, ops_unitary(flat_ops(dops), Q2)), TOL, "kak_decompose", "KakDecomposition._decompose_ does not rebuild U")
    ok, k2 = guarded(F, "kak", cirq.kak_decomposition, cirq.MatrixGate(u), check_preconditions=False)
    if ok:
        _check_kak_obj(F, k2, u, info, "kak_decomposition(MatrixGate(U), check_preconditions=False)")
    ok, k3 = guarded(F, "kak", cirq.kak_decomposition, u, rtol=0, atol=1e-9)
    if ok:
        _check_kak_obj(F, k3, u, info, "kak_decomposition(U, rtol=0, atol=1e-9)")
    # kak_vector on the single matrix
    ok, v = guarded(F, "kak_vector", cirq.kak_vector, u)
    if ok:
        v = tuple(float(t) for t in v)
        F.need(np.shape(v) == (3,) and L.is_canonical(v, face_tol=1e-8), "kak_vector_canonical", f"kak_vector -> {v} not canonical")
        if _robust_canon(info):
            d = max(abs(a - b) for a, b in zip(v, info["vc"]))
            F.close("kak_vector", d, 1e-7, "kak_vector_value", f"kak_vector -> {v} differs from the reference canonical vector {info['vc']}")
    # magic-basis bidiagonalisation (the engine of kak_decomposition)
    ub = L.dag(L.MAGIC) @ u @ L.MAGIC
    _check_bidiag_unitary(F, ub, "magic-basis U")
    # num_cnots_required
    ok, n = guarded(F, "num_cnots", cirq.linalg.decompositions.num_cnots_required, u)
    if ok:
        F.need(n in (0, 1, 2, 3), "num_cnots_range", f"num_cnots_required -> {n}")
        if info["ncnot"] is not None:
            F.need(n == info["ncnot"], "num_cnots_value", f"num_cnots_required -> {n}, reference class {info['vc']} needs {info['ncnot']}")
    # extract_right_diag
    ok, d = guarded(F, "extract_right_diag", cirq.linalg.decompositions.extract_right_diag, u)
    if ok:
        d = np.asarray(d)
        form = d.shape == (4, 4) and np.allclose(d, np.diag(np.diag(d)), atol=1e-12) and np.allclose(np.abs(np.diag(d)), 1, atol=1e-9)
        F.need(form, "extract_right_diag_form", f"extract_right_diag -> not a diagonal unitary: {fmt(d)}")
        if form and info["ncnot"] == 3:
            F.close("extract_right_diag", two_cnot_defect(u @ d), 1e-7, "extract_right_diag_class",
                    f"U @ extract_right_diag(U) is not in the 2-CNOT class (Im tr(m)/sqrt(det) != 0), D={fmt(np.diag(d))}")
    return F.result()


def two_cnot_defect(u):
    """|Im(tr(U_B^T U_B)/sqrt(det U))|: zero iff the canonical z coordinate is 0 (<= 2 CNOT), first order in z."""
    ub = L.dag(L.MAGIC) @ u @ L.MAGIC
    m = ub.T @ ub
    t = np.trace(m) / np.sqrt(np.linalg.det(u) + 0j)
    return abs(t.imag)


def _check_bidiag_unitary(F, m, label):
    ok, r = guarded(F, "bidiag_unitary", cirq.bidiagonalize_unitary_with_special_orthogonals, m)
    if not ok:
        return
    l, d, rr = r
    n = len(m)
    for nm, o in (("L", l), ("R", rr)):
        o = np.asarray(o)
        F.need(np.all(np.imag(o) == 0) and np.allclose(o @ o.T, np.eye(n), atol=1e-8) and abs(np.linalg.det(o) - 1) < 1e-7,
               "bidiag_unitary_so", f"{label}: {nm} is not special orthogonal (det={np.linalg.det(o):.6g})")
    F.close("bidiag_unitary", L.exact_err(l @ m @ rr, np.diag(d)), TOL, "bidiag_unitary_diag", f"{label}: L @ mat @ R != diag(d)")
    F.close("bidiag_unitary_d", float(np.max(np.abs(np.abs(d) - 1))), TOL, "bidiag_unitary_diag", f"{label}: diagonal not unit modulus")


# ------------------------------------------------------------------------------------------------
# S2: CZ synthesis family


def count2q(ops):
    return sum(1 for o in ops if nq(o) == 2)


def _cz_target_checks(F, ops, label, allow_partial):
    good_types = True
    for o in ops:
        if nq(o) == 2:
            if not isinstance(o.gate, cirq.CZPowGate):
                good_types = False
            elif not allow_partial and abs(o.gate.exponent - 1) > 1e-12:
                good_types = False
        elif nq(o) != 1:
            good_types = False
    F.need(good_types, "cz_gate_types", f"{label}: operations other than 1-qubit gates and {'CZPow' if allow_partial else 'CZ'}: {[str(o) for o in ops if nq(o) != 1]}")


def run_cz(desc):
    u, info = s2().build(desc)
    F = Fails(f"S2{desc} = {info['name']}")
    a, b = Q2
    ncn = info["ncnot"]
    for allow_partial in (False, True):
        for clean in (True, False):
            for atol in ((1e-8, 1e-5) if (clean and not allow_partial) else (1e-8,)):
                label = f"two_qubit_matrix_to_cz_operations(allow_partial_czs={allow_partial}, clean_operations={clean}, atol={atol})"
                ok, ops = guarded(F, "cz", cirq.two_qubit_matrix_to_cz_operations, a, b, u, allow_partial_czs=allow_partial,
                                  clean_operations=clean, atol=atol)
                if not ok:
                    continue
                ops = flat_ops(ops)
                tol = max(10 * atol, TOL)
                F.close("cz" if atol == 1e-8 else "cz_atol1e-5", L.phase_err(u, ops_unitary(ops, Q2)), tol, "cz_unitary", f"{label} does not rebuild U up to global phase")
                _cz_target_checks(F, ops, label, allow_partial)
                n = count2q(ops)
                F.need(n <= 3, "cz_count_bound", f"{label}: {n} CZ gates > 3")
                if not allow_partial and ncn is not None and atol == 1e-8:
                    F.need(n == ncn, "cz_count", f"{label}: {n} CZ gates but the class {info['vc']} needs exactly {ncn}")
                if allow_partial and info["nonzero"] is not None and atol == 1e-8:
                    F.need(n <= info["nonzero"], "cz_partial_count", f"{label}: {n} partial CZ for {info['nonzero']} non-zero coefficients")
    # diagonal + cz
    for allow_partial in (False, True):
        for clean in (True, False):
            label = f"two_qubit_matrix_to_diagonal_and_cz_operations(allow_partial_czs={allow_partial}, clean_operations={clean})"
            ok, r = guarded(F, "diag_cz", cirq.two_qubit_matrix_to_diagonal_and_cz_operations, a, b, u,
                            allow_partial_czs=allow_partial, clean_operations=clean)
            if not ok:
                continue
            d, ops = r
            ops = flat_ops(ops)
            d = np.asarray(d)
            form = d.shape == (4, 4) and np.allclose(d, np.diag(np.diag(d)), atol=1e-8) and np.allclose(np.abs(np.diag(d)), 1, atol=1e-8)
            F.need(form, "diag_cz_form", f"{label}: D is not a diagonal unitary: {fmt(d)}")
            F.close("diag_cz", L.phase_err(u, ops_unitary(ops, Q2) @ d), TOL, "diag_cz_unitary", f"{label}: Circuit(ops) @ D != V up to global phase")
            _cz_target_checks(F, ops, label, allow_partial)
            n = count2q(ops)
            F.need(n <= 3, "diag_cz_count_bound", f"{label}: {n} CZ gates > 3")
            if ncn is not None and not allow_partial:
                F.need(n <= 2 and n <= ncn, "diag_cz_count", f"{label}: {n} CZ gates for class {info['vc']} (needs {ncn}; diagonal extraction promises <= 2)")
    # isometry
    for allow_partial in (False, True):
        for clean in (True, False):
            label = f"two_qubit_matrix_to_cz_isometry(allow_partial_czs={allow_partial}, clean_operations={clean})"
            ok, ops = guarded(F, "isometry", cirq.two_qubit_matrix_to_cz_isometry, a, b, u, allow_partial_czs=allow_partial, clean_operations=clean)
            if not ok:
                continue
            ops = flat_ops(ops)
            w = ops_unitary(ops, Q2)
            F.close("isometry", L.phase_err(u[:, :2], w[:, :2]), TOL, "isometry_unitary", f"{label}: action on |0>(x)psi differs from U")
            _cz_target_checks(F, ops, label, allow_partial)
            n = count2q(ops)
            F.need(n <= 3, "isometry_count_bound", f"{label}: {n} CZ gates > 3")
            if ncn is not None and not allow_partial:
                F.need(n <= 2, "isometry_count", f"{label}: {n} CZ gates, documented at most 2 (class {info['vc']})")
    return F.result()


# ------------------------------------------------------------------------------------------------
# S2: sqrt-iSWAP synthesis


def run_sqrt_iswap(desc):
    u, info = s2().build(desc)
    F = Fails(f"S2{desc} = {info['name']}")
    a, b = Q2
    feas = info["sq_feas"]
    for inv in (False, True):
        target = cirq.SQRT_ISWAP_INV if inv else cirq.SQRT_ISWAP
        for clean in (False, True):
            for req in (None, 0, 1, 2, 3):
                label = f"two_qubit_matrix_to_sqrt_iswap_operations(required_sqrt_iswap_count={req}, use_sqrt_iswap_inv={inv}, clean_operations={clean})"
                ok, ops = guarded(F, "sqrt_iswap", cirq.two_qubit_matrix_to_sqrt_iswap_operations, a, b, u, required_sqrt_iswap_count=req,
                                  use_sqrt_iswap_inv=inv, clean_operations=clean, allowed=(ValueError,))
                if not ok:
                    if isinstance(ops, ValueError):
                        # documented: impossible with exactly `req` gates
                        if req is None:
                            F.add("sqrt_iswap_valueerror", f"{label} raised ValueError without a required count: {ops}")
                        elif feas[req] is True:
                            F.add("sqrt_iswap_valueerror", f"{label} raised ValueError but class {info['vc']} can be done with exactly {req}: {ops}")
                        else:
                            F.count("documented_rejections")
                    continue
                ops = flat_ops(ops)
                F.close("sqrt_iswap", L.phase_err(u, ops_unitary(ops, Q2)), TOL, "sqrt_iswap_unitary", f"{label} does not rebuild U up to global phase")
                types_ok = all((nq(o) == 1 and (isinstance(o.gate, cirq.PhasedXZGate) if clean else isinstance(o.gate, (cirq.XPowGate, cirq.YPowGate, cirq.ZPowGate))))
                               or (nq(o) == 2 and o.gate == target) for o in ops)
                F.need(types_ok, "sqrt_iswap_gate_types", f"{label}: unexpected operations {[str(o) for o in ops if not (nq(o) == 1)]} / 1q types {sorted({type(o.gate).__name__ for o in ops if nq(o) == 1})}")
                n = count2q(ops)
                F.need(n <= 3, "sqrt_iswap_count_bound", f"{label}: {n} > 3 two-qubit gates")
                if req is not None:
                    F.need(n == req, "sqrt_iswap_count", f"{label}: {n} sqrt-iSWAP gates, exactly {req} required")
                    if feas[req] is False:
                        F.add("sqrt_iswap_impossible", f"{label} returned a circuit although the class {info['vc']} cannot be done with {req} (and it rebuilt U?)")
                elif info["sq_min"] is not None:
                    F.need(n == info["sq_min"], "sqrt_iswap_min_count", f"{label}: {n} gates, the class {info['vc']} needs {info['sq_min']} (fewest possible is documented)")
    return F.result()


# ------------------------------------------------------------------------------------------------
# stages


def stages(tier, seed):
    _init(seed)
    reset = lambda: _init(seed)
    main = L.s2_descs(tier, "main")
    small = L.s2_descs(tier, "small")
    st = [
        CaseStage("s1_single_qubit", L.s1_descs(tier), run_s1, reset=reset),
        CaseStage("s2_kak", main, run_kak, reset=reset),
        CaseStage("s2_cz_family", main, run_cz, reset=reset),
        CaseStage("s2_sqrt_iswap", main, run_sqrt_iswap, reset=reset),
    ]
    return st
