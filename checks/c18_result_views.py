"""C18 -- all views of measurement results tell the same story.

Bounded-exhaustive enumeration (E1) of
  * digit strings x mixed-radix bases for the big-endian int/bit/digit conversions (cirq.value.digits,
    ClassicalDataDictionaryStore.get_int/get_digits),
  * ALL record tensors (reps x instances x qubits) over {0,1} (and {0,1,2}) up to a cell bound, for every
    dtype / constructor, 1..3 keys with asymmetric shapes, wide rows (63..70 qubits => integers beyond 64 bits):
    every view of the result (records, measurements, data, repetitions, histogram, multi_measurement_histogram,
    dataframe_from_measurements, str, repr->eval, ==, +, JSON, _pack_digits/_unpack_digits) is compared with a
    plain-Python nested-list reference whose integers are Python ints,
  * all pairs of small results for == and + (concatenation order, documented rejections),
  * every convenience entry point of cirq.Sampler on deterministic fake samplers whose results encode
    (circuit id, resolver index, repetition index), ZerosSampler, the simulators used as samplers,
    cirq_google.ProcessorSampler against a fake processor and cirq_google.ValidatingSampler.
"""
from __future__ import annotations

import collections
import itertools
import json

import duet
import numpy as np
import pandas as pd
import sympy
import cirq
import cirq_google

from cirq.study import result as result_mod

from mc import core
from mc.core import CaseStage, Res, bad, good

PROPERTY = "C18"
LEVEL = "exploration"
RULE = ("digits: every digit string of length<=5 over every base tuple with entries in {2,3,4} (plus scalar-base, "
        "digit_count, out-of-range and wrong-length forms); results: EVERY record tensor over {0,1} with shape "
        "(reps 0..3[T:0..4], instances 1..2, qubits 1..3) and cells<=12 (T: <=16 plus the full 3x2x3 shape), every qudit tensor over "
        "{0,1,2} with cells<=8, every 2- and 3-key result with asymmetric key shapes up to a cell bound, wide rows "
        "(63/64/65/70 qubits, 39/40 qutrits; one-hot/one-cold at every position, alternating patterns, all ordered "
        "row tuples) x dtype (bool/int8/uint8/int64) x constructor (records=/measurements=/EngineResult/from_result): "
        "all views (incl. cirq.vis.get_state_histogram over key orders that differ from sorted order) vs a nested-list reference, "
        "each result also rebuilt from non-C-contiguous arrays (Fortran, swapaxes, strided, negative-stride views); all ordered pairs of small results for ==/+; every Sampler entry point "
        "x fake sampler kind x circuit x sweepable x repetitions, run_batch over all program/params/repetitions tuples "
        "incl. length mismatches; simulators on deterministic circuits incl. repeated terminal keys with differing instances "
        "(run(n) == n x run(1) == reference). non-trivial = tensor has two different digits and >=1 repetition (results), "
        "digit string of length>=2 (digits), >=2 underlying runs or >=2 repetitions (samplers); distinct = distinct "
        "case descriptor")
TECHNIQUE = ("bounded-exhaustive enumeration of all record tensors / digit strings / sampler call shapes against a "
             "plain-Python nested-list reference with exact Python integers")
LEVEL_TEXT = ("Every record tensor within the cell bound, for every dtype, constructor and key layout, is pushed through every "
              "public view of cirq.Result / ResultDict / EngineResult and compared with an independent nested-list reference "
              "(exact Python ints, so >64-bit rows are checked exactly). Digit conversions are checked on all digit strings of "
              "length <=5 over all mixed-radix bases in {2,3,4}. Every Sampler convenience entry point is executed on "
              "deterministic fake samplers whose results encode which underlying run produced them. Bounded by tensor "
              "size, digit-string length and batch length 3.")
LEVEL_NOTE = ("trusted: numpy array construction/tolist, pandas element access, json text parsing, duet event loop, "
              "cirq.to_resolvers order for the fake samplers (sweep order itself is C10's business)")
ASSUMPTIONS = [
    "numpy array construction / tolist and pandas element access are correct",
    "cirq.to_resolvers enumerates a sweepable in its documented order (decided by C10); the fakes use it to define the underlying runs",
    "X / measurement semantics of the simulators on computational-basis circuits (decided by C01/C02)",
]

DTYPES = [np.bool_, np.int8, np.uint8, np.int64]
DTNAMES = ["bool", "int8", "uint8", "int64"]
CTORS = ["records", "measurements", "engine", "engine_from_result"]
EVAL_NS = {"cirq": cirq, "cirq_google": cirq_google, "np": np, "numpy": np, "sympy": sympy, "pd": pd, "pandas": pd}

_pack_digits = result_mod._pack_digits
_unpack_digits = result_mod._unpack_digits


# ---------------------------------------------------------------------------------------------
# plain-Python reference


def ref_int(digits, bases):
    """big-endian mixed-radix integer (Python int)."""
    v = 0
    for d, b in zip(digits, bases):
        v = v * b + d
    return v


def ref_be(digits, base=2):
    v = 0
    for d in digits:
        v = v * base + d
    return v


def nested(a):
    """numpy array (reps, inst, qubits) or (reps, qubits) -> nested lists of Python ints."""
    return _to_int(np.asarray(a).tolist())


def _to_int(x):
    if isinstance(x, list):
        return [_to_int(y) for y in x]
    return int(x)


def ref_packbits_hex(flat_bits):
    """Independent np.packbits: big-endian bit order inside bytes, zero padded."""
    out = []
    for i in range(0, len(flat_bits), 8):
        chunk = list(flat_bits[i:i + 8]) + [0] * (8 - len(flat_bits[i:i + 8]))
        out.append(ref_be(chunk))
    return bytes(out).hex()


def fold_tuple(bits):
    return tuple(int(b) for b in bits)


def fold_parity(bits):
    return sum(int(b) for b in bits) % 2


def fold_multi_tuple(sample):
    return tuple(tuple(int(b) for b in bits) for bits in sample)


def decode(code, cells, base):
    out = []
    for _ in range(cells):
        out.append(code % base)
        code //= base
    return out[::-1]


def tensor_from_flat(flat, reps, inst, q):
    it = iter(flat)
    return [[[next(it) for _ in range(q)] for _ in range(inst)] for _ in range(reps)]


def key_arg(key):
    """Alternative (non-string) spelling of a key for histogram(key=...)."""
    if key == "q(2)":
        return cirq.LineQubit(2)
    if key == "q(0),q(1)":
        return [cirq.LineQubit(0), cirq.LineQubit(1)]
    return key


# ---------------------------------------------------------------------------------------------
# the shared oracle: every view of one result


LAYOUTS = ["C", "F", "swap01", "swap12", "strided", "negative"]


def relayout(a, layout):
    """Same logical (reps, inst, qubits) digits, different memory layout (never changes a.shape / a.dtype)."""
    if layout == "C":
        return a
    if layout == "F":
        out = np.asfortranarray(a)
    elif layout == "swap01":  # what the simulators return for repeated terminal keys: (inst, reps, q) buffer, swapaxes view
        out = np.ascontiguousarray(a.swapaxes(0, 1)).swapaxes(0, 1)
    elif layout == "swap12":  # assembled from per-qubit columns
        out = np.ascontiguousarray(a.swapaxes(1, 2)).swapaxes(1, 2)
    elif layout == "strided":  # a window into a larger buffer
        big = np.ones((2 * a.shape[0] + 1, a.shape[1] + 1, 2 * a.shape[2] + 1), dtype=a.dtype)
        out = big[1::2, 1:, 1::2]
        out[...] = a
    elif layout == "negative":  # reversed views of a reversed copy
        out = np.ascontiguousarray(a[::-1, :, ::-1])[::-1, :, ::-1]
    else:
        raise core.HarnessError(layout)
    if out.shape != a.shape or out.dtype != a.dtype or not np.array_equal(out, a):
        raise core.HarnessError(f"relayout {layout} changed the array")
    return out


def build_result(keys, arrs, ctor, params):
    if ctor == "records":
        return cirq.ResultDict(params=params, records={k: a for k, a in zip(keys, arrs)})
    if ctor == "measurements":
        return cirq.ResultDict(params=params, measurements={k: a[:, 0, :] for k, a in zip(keys, arrs)})
    if ctor == "engine":
        return cirq_google.EngineResult(job_id="job-7", params=params, records={k: a for k, a in zip(keys, arrs)})
    if ctor == "engine_from_result":
        if all(a.shape[1] == 1 for a in arrs):
            inner = cirq.ResultDict(params=params, measurements={k: a[:, 0, :] for k, a in zip(keys, arrs)})
        else:
            inner = cirq.ResultDict(params=params, records={k: a for k, a in zip(keys, arrs)})
        return cirq_google.EngineResult.from_result(inner, job_id="job-7")
    raise core.HarnessError(ctor)


def check_records(r, keys, tensors, shapes, reps, what, exact_keys=True):
    recs = r.records
    if exact_keys and set(recs.keys()) != set(keys):
        return f"{what}: records keys {list(recs.keys())} != {list(keys)}"
    for k, t, (inst, q) in zip(keys, tensors, shapes):
        a = np.asarray(recs[k])
        if a.shape != (reps, inst, q):
            return f"{what}: records[{k!r}].shape={a.shape}, expected {(reps, inst, q)}"
        if nested(a) != t:
            return f"{what}: records[{k!r}]={nested(a)} expected {t}"
    return None


def check_frame(df, keys, tensors, shapes, reps, what):
    if sorted(df.columns) != sorted(keys):
        return f"{what}: columns {list(df.columns)} != keys {list(keys)}"
    if len(df) != reps:
        return f"{what}: {len(df)} rows for {reps} repetitions"
    if list(df.index) != list(range(reps)):
        return f"{what}: index {list(df.index)} != repetition numbers"
    for k, t in zip(keys, tensors):
        col = df[k]
        for rr in range(reps):
            v = col.iloc[rr]
            want = ref_be(t[rr][0])
            if int(v) != want or not (v == want):
                return f"{what}: data[{k!r}][{rr}]={v!r} but bits {t[rr][0]} are the big-endian integer {want}"
    return None


def check_state_histogram(r, keys, tensors, shapes, reps, what):
    """cirq.vis.get_state_histogram: index = all measured bits of a repetition, keys in the result's own key order
    (the order of result.measurements), qubits in measured order, read as one big-endian integer."""
    order = list(r.measurements.keys())
    if sorted(order) != sorted(keys):
        return f"{what}: measurements keys {order}"
    pos = {k: i for i, k in enumerate(keys)}
    total = sum(q for _, q in shapes)
    if total > 14:
        return None
    want = [0] * (2 ** total)
    for rr in range(reps):
        bits = []
        for k in order:
            bits.extend(tensors[pos[k]][rr][0])
        want[ref_be(bits)] += 1
    got = cirq.get_state_histogram(r)
    got_l = [float(x) for x in np.asarray(got).tolist()]
    if len(got_l) != len(want) or any(g != w for g, w in zip(got_l, want)):
        nz = {i: g for i, g in enumerate(got_l) if g}
        wz = {i: w for i, w in enumerate(want) if w}
        return (f"{what}: get_state_histogram counts {nz} (state index -> count), expected {wz} "
                f"(keys concatenated in the result's key order {order}, big-endian)")
    return None


def parse_str(s):
    """'key=0101, 11' lines -> list of (key, [digit-string per qubit])."""
    out = []
    for line in s.split("\n"):
        if "=" not in line:
            return None
        k, rhs = line.rsplit("=", 1)
        cols = [c.strip() for c in rhs.split(",")]
        cols = [[int(ch) for ch in (c.split(" ") if " " in c else list(c))] for c in cols]
        out.append((k, cols))
    return out


def check_str(r, keys, tensors, shapes, reps, what):
    if reps == 0:
        str(r)
        return None
    got = parse_str(str(r))
    if got is None:
        return f"{what}: str() not of the form key=columns: {str(r)!r}"
    by_key = collections.defaultdict(list)
    for k, cols in got:
        by_key[k].append(cols)
    if sorted(by_key) != sorted(keys):
        return f"{what}: str() keys {sorted(by_key)} != {sorted(keys)}: {str(r)!r}"
    for k, t, (inst, q) in zip(keys, tensors, shapes):
        want = [[[t[rr][i][b] for rr in range(reps)] for b in range(q)] for i in range(inst)]
        if by_key[k] != want:
            return f"{what}: str() lines for {k!r} read {by_key[k]} (per instance, per qubit, over repetitions), expected {want}; str={str(r)!r}"
    return None


def check_layout(keys, tensors, shapes, reps, dt_i, ctor, layout, base=2, params=None):
    """The views that touch the raw buffers (records, flattened views, ==, repr, JSON, bit packing) for a result
    whose arrays have a non-C memory layout."""
    dt = DTYPES[dt_i]
    carrs = [np.array(t, dtype=dt).reshape((reps, inst, q)) for t, (inst, q) in zip(tensors, shapes)]
    arrs = [relayout(a, layout) for a in carrs]
    flattenable = all(inst == 1 for inst, _ in shapes)
    if params is None:
        params = cirq.ParamResolver({})
    desc = (f"{ctor}(dtype={DTNAMES[dt_i]}, memory layout {layout!r}, " + ", ".join(f"{k!r}:{t}" for k, t in zip(keys, tensors))
            + f", shapes={shapes}, reps={reps})")
    r = build_result(keys, arrs, ctor, params)
    m = check_records(r, keys, tensors, shapes, reps, desc)
    if m:
        return m
    if not (r == build_result(keys, carrs, ctor, params)):
        return f"{desc}: not == the same result built from C-ordered arrays"
    if flattenable:
        for k, t in zip(keys, tensors):
            mm = nested(r.measurements[k])
            if mm != [row[0] for row in t]:
                return f"{desc}: measurements[{k!r}]={mm}"
        if base == 2:
            m = check_frame(r.data, keys, tensors, shapes, reps, desc + " .data")
            if m:
                return m
            for k, t in zip(keys, tensors):
                h = r.histogram(key=k)
                want = collections.Counter(ref_be(row[0]) for row in t)
                if h != want:
                    return f"{desc}: histogram(key={k!r})={dict(h)} expected {dict(want)}"
            m = check_state_histogram(r, keys, tensors, shapes, reps, desc)
            if m:
                return m
    m = check_str(r, keys, tensors, shapes, reps, desc)
    if m:
        return m
    r3 = eval(repr(r), dict(EVAL_NS))
    m = check_records(r3, keys, tensors, shapes, reps, desc + " eval(repr)")
    if m:
        return m
    r4 = cirq.read_json(json_text=cirq.to_json(r))
    m = check_records(r4, keys, tensors, shapes, reps, desc + " JSON round trip")
    if m:
        return m
    if not (r4 == r):
        return f"{desc}: JSON round trip gives a different result"
    for a, t in zip(arrs, tensors):
        views = [a]
        if a.shape[1] == 1:
            views.append(a[:, 0, :])
            views.append(a[:, 0, :].T)
        for v in views:
            for mode in (("auto", "never", "force") if base == 2 else ("auto", "never")):
                packed, binary = _pack_digits(v, pack_bits=mode)
                u = _unpack_digits(packed, binary, v.dtype.name, v.shape)
                if u.shape != v.shape or nested(u) != nested(v):
                    return (f"{desc}: _unpack_digits(_pack_digits(x, {mode!r})) = {nested(u)}, x = {nested(v)} "
                            f"(x.shape={v.shape}, x.strides={v.strides})")
    return None


def check_views(keys, tensors, shapes, reps, dt_i, ctor, base=2, params=None, fold_bases=None, heavy=True, layouts=()):
    """Compare every view of one result with the nested-list reference.  Returns None or a message.
    `layouts`: additional non-C memory layouts of the same digits to push through the buffer-touching views."""
    for layout in layouts:
        m = check_layout(keys, tensors, shapes, reps, dt_i, ctor, layout, base=base, params=params)
        if m:
            return m
    dt = DTYPES[dt_i]
    arrs = [np.array(t, dtype=dt).reshape((reps, inst, q)) for t, (inst, q) in zip(tensors, shapes)]
    flattenable = all(inst == 1 for inst, _ in shapes)
    if params is None:
        params = cirq.ParamResolver({})
    desc = f"{ctor}(dtype={DTNAMES[dt_i]}, " + ", ".join(f"{k!r}:{t}" for k, t in zip(keys, tensors)) + f", shapes={shapes}, reps={reps})"
    r = build_result(keys, arrs, ctor, params)

    # --- records / repetitions -------------------------------------------------------------
    m = check_records(r, keys, tensors, shapes, reps, desc)
    if m:
        return m
    if r.repetitions != reps:
        return f"{desc}: repetitions={r.repetitions}"
    if r.params != params:
        return f"{desc}: params={r.params!r}"

    # --- measurements ------------------------------------------------------------------------
    try:
        meas = r.measurements
    except ValueError:
        if flattenable:
            return f"{desc}: .measurements raised although every key is measured once per repetition"
        meas = None
        # the documented rejection must not depend on the access history (a half-built cache must not leak out)
        try:
            again = r.measurements
        except ValueError:
            pass
        else:
            return (f"{desc}: the first .measurements access raised ValueError (repeated key) but the second access returned "
                    f"{ {k: nested(v) for k, v in again.items()} } -- CACHE-AFTER-RAISE")
    else:
        if not flattenable:
            return f"{desc}: .measurements returned {meas!r} although a key is repeated (documented: raises)"
        if set(meas.keys()) != set(keys):
            return f"{desc}: measurements keys {list(meas.keys())}"
        for k, t, (inst, q) in zip(keys, tensors, shapes):
            a = np.asarray(meas[k])
            if a.shape != (reps, q):
                return f"{desc}: measurements[{k!r}].shape={a.shape}, expected {(reps, q)}"
            if nested(a) != [row[0] for row in t]:
                return f"{desc}: measurements[{k!r}]={nested(a)} expected {[row[0] for row in t]}"

    # --- data --------------------------------------------------------------------------------
    try:
        df = r.data
    except ValueError:
        if flattenable:
            return f"{desc}: .data raised although every key is measured once per repetition"
    else:
        if not flattenable:
            return f"{desc}: .data returned a frame although a key is repeated"
        if base == 2:
            m = check_frame(df, keys, tensors, shapes, reps, desc + " .data")
            if m:
                return m
            if r.data is not df and not r.data.equals(df):
                return f"{desc}: second .data access differs"
        elif sorted(df.columns) != sorted(keys) or len(df) != reps:
            return f"{desc}: data frame shape/columns wrong: {df!r}"
    if flattenable and base == 2:
        df2 = cirq.Result.dataframe_from_measurements({k: a[:, 0, :] for k, a in zip(keys, arrs)})
        m = check_frame(df2, keys, tensors, shapes, reps, desc + " dataframe_from_measurements")
        if m:
            return m
        m = check_state_histogram(r, keys, tensors, shapes, reps, desc)
        if m:
            return m

    # --- histogram ---------------------------------------------------------------------------
    for k, t, (inst, q) in zip(keys, tensors, shapes):
        rows = [row[0] for row in t]
        variants = []
        if base == 2:
            variants.append(("default", {}, collections.Counter(ref_be(x) for x in rows)))
            variants.append(("fold_base=2", {"fold_base": 2}, collections.Counter(ref_be(x) for x in rows)))
            variants.append(("fold_base=[2..]", {"fold_base": [2] * q}, collections.Counter(ref_be(x) for x in rows)))
            variants.append(("parity", {"fold_func": fold_parity}, collections.Counter(sum(x) % 2 for x in rows)))
        for fb in (fold_bases or []):
            if isinstance(fb, int):
                variants.append((f"fold_base={fb}", {"fold_base": fb}, collections.Counter(ref_be(x, fb) for x in rows)))
            else:
                fbq = list(fb[:q])
                variants.append((f"fold_base={fbq}", {"fold_base": fbq}, collections.Counter(ref_int(x, fbq) for x in rows)))
                variants.append((f"fold_base=iter({fbq})", {"fold_base": tuple(fbq)}, collections.Counter(ref_int(x, fbq) for x in rows)))
        variants.append(("tuple", {"fold_func": fold_tuple}, collections.Counter(tuple(x) for x in rows)))
        for kk in ([k, key_arg(k)] if key_arg(k) is not k else [k]):
            for name, kw, want in variants:
                try:
                    h = r.histogram(key=kk, **kw)
                except ValueError:
                    if flattenable:
                        return f"{desc}: histogram(key={kk!r}, {name}) raised ValueError"
                    continue
                if inst != 1:
                    return f"{desc}: histogram(key={kk!r}, {name}) returned {dict(h)} for a key with {inst} instances per repetition (must raise)"
                if h != want:
                    wide = name.startswith("fold_base") and any(isinstance(x, int) and x > 2 ** 63 - 1 for x in want)
                    return (f"{desc}: histogram(key={kk!r}, {name})={dict(h)} expected {dict(want)}"
                            + (" -- NUMPY-DIGITS-WRAP (value beyond int64: big_endian_digits_to_int on numpy rows)" if wide else ""))
                if sum(h.values()) != reps:
                    return f"{desc}: histogram(key={kk!r}, {name}) counts {sum(h.values())} != {reps} repetitions"
    if heavy and flattenable:
        k0, q0 = keys[0], shapes[0][1]
        try:
            r.histogram(key=k0, fold_func=fold_tuple, fold_base=2)
            return f"{desc}: histogram accepted fold_func together with fold_base (documented ValueError)"
        except ValueError:
            pass
        try:
            h = r.histogram(key=k0, fold_base=[base] * (q0 + 1))
            return f"{desc}: histogram(fold_base of length {q0 + 1}) for {q0} qubits returned {dict(h)} (documented ValueError)"
        except ValueError:
            pass

    # --- multi_measurement_histogram: every key subset, every order ---------------------------
    idx = range(len(keys))
    for n in range(len(keys) + 1):
        for sub in itertools.permutations(idx, n):
            sub_keys = [keys[i] for i in sub]
            want_t = collections.Counter(tuple(tuple(tensors[i][rr][0]) for i in sub) for rr in range(reps))
            want_i = collections.Counter(tuple(ref_be(tensors[i][rr][0]) for i in sub) for rr in range(reps))
            any_rep = any(shapes[i][0] != 1 for i in sub)
            forms = [("tuples", {"fold_func": fold_multi_tuple}, want_t)]
            if base == 2:
                forms.append(("default", {}, want_i))
            for name, kw, want in forms:
                try:
                    h = r.multi_measurement_histogram(keys=[key_arg(k) for k in sub_keys] if name == "tuples" else sub_keys, **kw)
                except ValueError:
                    if flattenable:
                        return f"{desc}: multi_measurement_histogram(keys={sub_keys}, {name}) raised ValueError"
                    continue
                if any_rep:
                    return f"{desc}: multi_measurement_histogram(keys={sub_keys}) returned {dict(h)} although a key is repeated"
                if h != want:
                    return f"{desc}: multi_measurement_histogram(keys={sub_keys}, {name})={dict(h)} expected {dict(want)}"

    # --- str ---------------------------------------------------------------------------------
    m = check_str(r, keys, tensors, shapes, reps, desc)
    if m:
        return m

    # --- fresh object, other access order (caches: _measurements/_records/_data) --------------
    r2 = build_result(keys, arrs, ctor, params)
    m = check_str(r2, keys, tensors, shapes, reps, desc + " [fresh object, str first]")
    if m:
        return m
    if flattenable and base == 2:
        h = r2.histogram(key=keys[-1])
        want = collections.Counter(ref_be(row[0]) for row in tensors[-1])
        if h != want:
            return f"{desc} [fresh object]: histogram(key={keys[-1]!r})={dict(h)} expected {dict(want)}"
        m = check_frame(r2.data, keys, tensors, shapes, reps, desc + " [fresh object] .data")
        if m:
            return m
    if r2.repetitions != reps:
        return f"{desc} [fresh object]: repetitions={r2.repetitions}"
    m = check_records(r2, keys, tensors, shapes, reps, desc + " [fresh object, records after flattened views]")
    if m:
        return m
    if not (r == r2) or (r != r2):
        return f"{desc}: two results built from the same arrays are not =="

    # --- repr -> eval ------------------------------------------------------------------------
    try:
        r3 = eval(repr(r), dict(EVAL_NS))
    except Exception as e:  # noqa
        return f"{desc}: eval(repr) failed: {type(e).__name__}: {e}; repr={repr(r)}"
    if type(r3) is not type(r) or not (r3 == r):
        return f"{desc}: eval(repr(result)) != result{' -- ZERO-REPETITIONS-REPR' if reps == 0 else ''}; repr={repr(r)}"
    m = check_records(r3, keys, tensors, shapes, reps, desc + " eval(repr)")
    if m:
        return m

    # --- JSON --------------------------------------------------------------------------------
    text = cirq.to_json(r)
    r4 = cirq.read_json(json_text=text)
    if type(r4) is not type(r) or not (r4 == r):
        return f"{desc}: JSON round trip gives a different result: {r4!r}"
    m = check_records(r4, keys, tensors, shapes, reps, desc + " JSON round trip")
    if m:
        return m
    if r4.params != params:
        return f"{desc}: JSON round trip params {r4.params!r}"
    if ctor.startswith("engine") and r4.job_id != "job-7":
        return f"{desc}: JSON round trip job_id {r4.job_id!r}"

    # --- _pack_digits / _unpack_digits ---------------------------------------------------------
    for a, t in zip(arrs, tensors):
        flat = [d for inst_rows in t for row in inst_rows for d in row]
        views = [a]
        if a.shape[1] == 1:
            views.append(a.reshape(a.shape[0], a.shape[2]))
        for v in views:
            for mode in (("auto", "never", "force") if base == 2 else ("auto", "never")):
                packed, binary = _pack_digits(v, pack_bits=mode)
                if mode == "force" and not binary:
                    return f"{desc}: _pack_digits(force) reported binary=False"
                u = _unpack_digits(packed, binary, v.dtype.name, v.shape)
                if u.shape != v.shape or nested(u) != nested(v):
                    return f"{desc}: _unpack_digits(_pack_digits(x, {mode!r})) = {nested(u)} shape {u.shape}, x = {nested(v)} shape {v.shape}"
            if base == 2:
                u = _unpack_digits(ref_packbits_hex(flat), True, v.dtype.name, v.shape)
                if u.shape != v.shape or nested(u) != nested(v):
                    return f"{desc}: _unpack_digits of an independently bit-packed document gives {nested(u)} shape {u.shape}, expected {nested(v)}"
    if heavy:
        try:
            _pack_digits(arrs[0], pack_bits="sometimes")
            return f"{desc}: _pack_digits accepted pack_bits='sometimes' (documented ValueError)"
        except ValueError:
            pass
    # legacy 'measurements' JSON documents (2-D arrays, bit-packed)
    if heavy and flattenable and base == 2 and ctor == "records":
        doc = {"cirq_type": "ResultDict", "params": {"cirq_type": "ParamResolver", "param_dict": []},
               "measurements": {k: {"packed_digits": ref_packbits_hex([d for row in t for d in row[0]]), "binary": True,
                                    "dtype": DTNAMES[dt_i], "shape": [reps, q]}
                                for k, t, (inst, q) in zip(keys, tensors, shapes)}}
        r5 = cirq.read_json(json_text=json.dumps(doc))
        m = check_records(r5, keys, tensors, shapes, reps, desc + " legacy measurements JSON document")
        if m:
            return m
    return None


# ---------------------------------------------------------------------------------------------
# stage: digits


def base_tuples(maxlen):
    out = []
    for n in range(maxlen + 1):
        out.extend(itertools.product((2, 3, 4), repeat=n))
    return out


def expect_value_error(fn, what):
    try:
        got = fn()
    except ValueError:
        return None
    return f"{what} returned {got!r} instead of raising the documented ValueError"


def run_digits(case):
    bases = tuple(case)
    n = len(bases)
    total = 1
    for b in bases:
        total *= b
    scalar = bases[0] if n and all(b == bases[0] for b in bases) else None
    cnt = 0
    qids = [cirq.LineQid(i, dimension=b) for i, b in enumerate(bases)]
    mkey = cirq.MeasurementKey("k")
    for digits in itertools.product(*[range(b) for b in bases]):
        cnt += 1
        digits = list(digits)
        v = ref_int(digits, bases)
        for form in (list(bases), tuple(bases), iter(bases)):
            got = cirq.big_endian_digits_to_int(digits, base=form)
            if got != v or not isinstance(got, int):
                return bad(f"big_endian_digits_to_int({digits}, base={list(bases)}) = {got!r}, expected {v}", kind="digits_to_int")
        got = cirq.big_endian_digits_to_int(iter(digits), base=list(bases))
        if got != v:
            return bad(f"big_endian_digits_to_int(iter({digits}), base={list(bases)}) = {got!r}, expected {v}", kind="digits_to_int")
        for kw in ({"base": list(bases)}, {"base": iter(bases)}, {"base": tuple(bases), "digit_count": n}):
            got = cirq.big_endian_int_to_digits(v, **kw)
            if list(got) != digits:
                return bad(f"big_endian_int_to_digits({v}, base={list(bases)}, digit_count={kw.get('digit_count')}) = {got!r}, expected {digits}", kind="int_to_digits")
        for dc in (n - 1, n + 1):
            if dc < 0:
                continue
            m = expect_value_error(lambda: cirq.big_endian_int_to_digits(v, base=list(bases), digit_count=dc),
                                   f"big_endian_int_to_digits({v}, base={list(bases)}, digit_count={dc})")
            if m:
                return bad(m, kind="int_to_digits_count")
        # digit rows as numpy arrays (this is what Result.histogram feeds in): value must not wrap at the array's item size
        for npdt in (np.int8, np.uint8, np.int64):
            got = cirq.big_endian_digits_to_int(np.array(digits, dtype=npdt), base=list(bases))
            if int(got) != v or not (got == v):
                return bad(f"big_endian_digits_to_int(np.array({digits}, dtype={npdt.__name__}), base={list(bases)}) = {got!r}, expected {v} -- NUMPY-DIGITS-WRAP", kind="digits_to_int_numpy")
        # too large values
        for extra in (total, total + v, 2 * total + v):
            m = expect_value_error(lambda: cirq.big_endian_int_to_digits(extra, base=list(bases)),
                                   f"big_endian_int_to_digits({extra}, base={list(bases)}) [value >= {total}]")
            if m:
                return bad(m, kind="int_to_digits_range")
        # out of range digits / wrong lengths
        for i in range(n):
            for dbad in (bases[i], -1):
                d2 = list(digits)
                d2[i] = dbad
                m = expect_value_error(lambda: cirq.big_endian_digits_to_int(d2, base=list(bases)),
                                       f"big_endian_digits_to_int({d2}, base={list(bases)})")
                if m:
                    return bad(m, kind="digits_to_int_range")
        m = expect_value_error(lambda: cirq.big_endian_digits_to_int(digits + [0], base=list(bases)),
                               f"big_endian_digits_to_int({digits + [0]}, base={list(bases)})")
        if m:
            return bad(m, kind="digits_to_int_len")
        if n:
            m = expect_value_error(lambda: cirq.big_endian_digits_to_int(digits[:-1], base=list(bases)),
                                   f"big_endian_digits_to_int({digits[:-1]}, base={list(bases)})")
            if m:
                return bad(m, kind="digits_to_int_len")
        if scalar is not None:
            got = cirq.big_endian_digits_to_int(digits, base=scalar)
            if got != v:
                return bad(f"big_endian_digits_to_int({digits}, base={scalar}) = {got!r}, expected {v}", kind="digits_to_int")
            got = cirq.big_endian_int_to_digits(v, digit_count=n, base=scalar)
            if list(got) != digits:
                return bad(f"big_endian_int_to_digits({v}, digit_count={n}, base={scalar}) = {got!r}, expected {digits}", kind="int_to_digits")
            for pad in (1, 3):
                got = cirq.big_endian_int_to_digits(v, digit_count=n + pad, base=scalar)
                if list(got) != [0] * pad + digits:
                    return bad(f"big_endian_int_to_digits({v}, digit_count={n + pad}, base={scalar}) = {got!r}, expected {[0] * pad + digits}", kind="int_to_digits")
            m = expect_value_error(lambda: cirq.big_endian_int_to_digits(v, base=scalar),
                                   f"big_endian_int_to_digits({v}, base={scalar}) without digit_count")
            if m:
                return bad(m, kind="int_to_digits_nocount")
            for extra in (total + v, 3 * total + v):
                m = expect_value_error(lambda: cirq.big_endian_int_to_digits(extra, digit_count=n, base=scalar),
                                       f"big_endian_int_to_digits({extra}, digit_count={n}, base={scalar}) [value >= {total}]")
                if m:
                    return bad(m, kind="int_to_digits_range")
        if n == 0:
            for b in (2, 3):
                got = cirq.big_endian_int_to_digits(0, digit_count=0, base=b)
                if list(got) != []:
                    return bad(f"big_endian_int_to_digits(0, digit_count=0, base={b}) = {got!r}", kind="int_to_digits")
                m = expect_value_error(lambda: cirq.big_endian_int_to_digits(1, digit_count=0, base=b),
                                       f"big_endian_int_to_digits(1, digit_count=0, base={b})")
                if m:
                    return bad(m, kind="int_to_digits_range")
        if scalar == 2 or n == 0:
            for form in (digits, tuple(digits), [bool(d) for d in digits], np.array(digits, dtype=np.uint8), np.array(digits, dtype=bool), iter(digits)):
                got = cirq.big_endian_bits_to_int(form)
                if got != v or not isinstance(got, int):
                    return bad(f"big_endian_bits_to_int({digits}) [{type(form).__name__}] = {got!r}, expected {v}", kind="bits_to_int")
            for val, why in ((v, "exact"), (v + total, "high bits dropped"), (v + 5 * total, "high bits dropped"), (v - total, "2s complement"), (v - 4 * total, "2s complement")):
                got = cirq.big_endian_int_to_bits(val, bit_count=n)
                if list(got) != digits:
                    return bad(f"big_endian_int_to_bits({val}, bit_count={n}) = {got!r}, expected {digits} ({why})", kind="int_to_bits")
            got = cirq.big_endian_int_to_bits(v, bit_count=n + 2)
            if list(got) != [0, 0] + digits:
                return bad(f"big_endian_int_to_bits({v}, bit_count={n + 2}) = {got!r}", kind="int_to_bits")
        # classical data store: the same digits recorded as a measurement of qids with these dimensions
        # (digits are in MEASUREMENT order whatever the sort order of the measured qids: sorted, reversed and rotated labels)
        qid_orders = [("sorted", qids)]
        if n >= 2:
            qid_orders.append(("reversed", [cirq.LineQid(n - 1 - i, dimension=b) for i, b in enumerate(bases)]))
            qid_orders.append(("rotated", [cirq.LineQid((i + 1) % n, dimension=b) for i, b in enumerate(bases)]))
        for oname, qids_o in qid_orders if n else ():
            store = cirq.ClassicalDataDictionaryStore()
            other = [(d + 1) % b for d, b in zip(digits, bases)]
            store.record_measurement(mkey, other, qids_o)
            store.record_measurement(mkey, digits, qids_o)
            if tuple(store.get_digits(mkey)) != tuple(digits) or tuple(store.get_digits(mkey, 0)) != tuple(other) or tuple(store.get_digits(mkey, 1)) != tuple(digits):
                return bad(f"ClassicalDataDictionaryStore.get_digits after recording {other} then {digits} (qid labels {oname}): {store.get_digits(mkey, 0)}, {store.get_digits(mkey)}", kind="store")
            try:
                got_ints = (store.get_int(mkey), store.get_int(mkey, 0), store.get_int(mkey, -1))
            except ValueError as e:
                return bad(f"ClassicalDataDictionaryStore.get_int for digits {digits} dims {list(bases)} measured on {qids_o} ({oname} labels) raised ValueError: {e}", kind="store")
            if got_ints != (v, ref_int(other, bases), v):
                return bad(f"ClassicalDataDictionaryStore.get_int for digits {digits} dims {list(bases)} measured on {qids_o} ({oname} labels) = {got_ints[0]}, expected {v}; first record {other} -> {got_ints[1]}", kind="store")
            c2 = store.copy()
            if c2.get_int(mkey) != v or c2 != store:
                return bad(f"ClassicalDataDictionaryStore.copy() differs for digits {digits} ({oname} labels)", kind="store")
    return good(nontrivial=n >= 2, digit_strings=cnt)


# ---------------------------------------------------------------------------------------------
# stage: all tensors, one key


def single_shapes(tier, base):
    out = []
    max_reps = 3 if (tier == "quick" or base == 3) else 4
    bound = (12 if tier == "quick" else 16) if base == 2 else 8
    for reps in range(max_reps + 1):
        for inst in (1, 2):
            for q in (1, 2, 3):
                cells = reps * inst * q
                if cells <= bound or (tier == "thorough" and base == 2 and (reps, inst, q) == (3, 2, 3)):
                    out.append((reps, inst, q))
    out.sort(key=lambda s: (s[0] * s[1] * s[2], s))
    return out


def single_cases(tier, base):
    """One case per tensor.  The last field says whether dtype x constructor are all applied (0) or rotate with the
    tensor code (1: every dtype/constructor still meets a quarter / half of the tensors of that shape)."""
    cases = []
    if base == 2:
        full = 9 if tier == "quick" else 12
    else:
        full = 6 if tier == "quick" else 8
    for reps, inst, q in single_shapes(tier, base):
        cells = reps * inst * q
        rot = 1 if cells > full else 0
        for code in range(base ** cells):
            cases.append((reps, inst, q, base, code, rot))
    return cases


def run_single(case):
    reps, inst, q, base, code, rot = case
    cells = reps * inst * q
    flat = decode(code, cells, base)
    t = tensor_from_flat(flat, reps, inst, q)
    key = "q(2)" if code % 2 else "k"
    n = 0
    ndt = 4 if base == 2 else 3
    for dt_i in range(len(DTYPES)):
        if base != 2 and dt_i == 0:
            continue
        if rot and (dt_i - (4 - ndt)) != code % ndt:
            continue
        for ctor in CTORS:
            if ctor == "measurements" and inst != 1:
                continue
            if rot and ctor.startswith("engine") and (ctor == "engine") != ((code // ndt) % 2 == 0):
                continue
            fold_bases = [3, [3, 4, 3]] if base == 3 else None
            if cells <= 1:
                layouts = ()
            elif rot:
                layouts = (LAYOUTS[1 + (code // ndt + dt_i + CTORS.index(ctor)) % 5],)
            else:
                layouts = ("F", "swap01", LAYOUTS[3 + (code + dt_i) % 3])
            m = check_views((key,), [t], [(inst, q)], reps, dt_i, ctor, base=base, fold_bases=fold_bases, layouts=layouts)
            n += 1
            if m:
                return bad(m, kind="views", ctor=ctor, dtype=DTNAMES[dt_i])
    return good(nontrivial=reps >= 1 and len(set(flat)) >= 2, results_checked=n)


# ---------------------------------------------------------------------------------------------
# stage: 2 and 3 keys, asymmetric shapes

MULTI_KEYS = ("m", "a", "q(0),q(1)")
KEY_SHAPES = [(1, 1), (1, 2), (2, 1), (1, 3), (2, 2)]


def multi_cases(tier):
    b2 = 9 if tier == "quick" else 12
    b3 = 8 if tier == "quick" else 11
    cases = []
    for reps in range(0, 4):
        for s1, s2 in itertools.product(range(len(KEY_SHAPES)), repeat=2):
            if s1 == s2:
                continue
            per = KEY_SHAPES[s1][0] * KEY_SHAPES[s1][1] + KEY_SHAPES[s2][0] * KEY_SHAPES[s2][1]
            if reps * per <= b2:
                for code in range(2 ** (reps * per)):
                    cases.append((reps, (s1, s2), code))
        for ss in itertools.product(range(3), repeat=3):
            if len(set(ss)) < 2:
                continue
            per = sum(KEY_SHAPES[s][0] * KEY_SHAPES[s][1] for s in ss)
            if reps * per <= b3:
                for code in range(2 ** (reps * per)):
                    cases.append((reps, ss, code))
    cases.sort(key=lambda c: (c[0] * sum(KEY_SHAPES[s][0] * KEY_SHAPES[s][1] for s in c[1]), len(c[1])))
    return cases


def run_multi(case):
    reps, ss, code = case
    shapes = [KEY_SHAPES[s] for s in ss]
    cells = [reps * i * q for i, q in shapes]
    flat = decode(code, sum(cells), 2)
    tensors = []
    pos = 0
    for (i, q), c in zip(shapes, cells):
        tensors.append(tensor_from_flat(flat[pos:pos + c], reps, i, q))
        pos += c
    keys = MULTI_KEYS[:len(ss)]
    flattenable = all(i == 1 for i, _ in shapes)
    # dtype / constructor rotate with the code (every combination is met by many tensors of each shape)
    dt_i = code % 4
    ctors = ["records"]
    if flattenable:
        ctors.append("measurements")
    ctors.append(CTORS[2 + (code // 4) % 2])
    params = cirq.ParamResolver({"t": 0.5}) if (code // 8) % 2 else None
    n = 0
    for ctor in ctors:
        layouts = (LAYOUTS[1 + (code // 16 + n) % 5],) if reps else ()
        m = check_views(keys, tensors, shapes, reps, dt_i, ctor, params=params, heavy=False, layouts=layouts)
        n += 1
        if m:
            return bad(m, kind="views_multi", ctor=ctor, dtype=DTNAMES[dt_i])
    return good(nontrivial=reps >= 1 and len(set(flat)) >= 2, results_checked=n)


# ---------------------------------------------------------------------------------------------
# stage: wide rows


def wide_patterns(n):
    pats = []
    pos = [0, 1, n // 2, n - 2, n - 1]
    for p in pos:
        pats.append(("hot", p))
    for p in pos:
        pats.append(("cold", p))
    pats.append(("alt", 0))
    pats.append(("alt", 1))
    return pats


def wide_row(n, pat, hi=1):
    kind, p = pat
    if kind == "hot":
        return [hi if i == p else 0 for i in range(n)]
    if kind == "cold":
        return [0 if i == p else hi for i in range(n)]
    if kind == "alt":
        return [hi if (i + p) % 2 == 0 else (1 if hi == 2 else 0) for i in range(n)]
    raise core.HarnessError(kind)


def wide_cases(tier):
    """(width, base, instances, row patterns, extra narrow key, rot): rot=1 -> one dtype / constructor chosen by the
    pattern position instead of all of them (used for the every-position one-hot / one-cold sweeps)."""
    cases = []
    quick = tier == "quick"
    for n in (63, 64, 65, 70):
        # every position of one-hot / one-cold, one repetition
        for p in range(n):
            cases.append((n, 2, 1, (("hot", p),), 0, 1 if quick else 0))
            cases.append((n, 2, 1, (("cold", p),), 0, 1 if quick else 0))
        pats = wide_patterns(n)
        small = [pats[0], pats[4], pats[6], pats[8], pats[10], pats[11]]
        cases.append((n, 2, 1, (), 0, 0))
        cases.append((n, 2, 2, (), 0, 0))
        for r in ((1, 2) if quick else (1, 2, 3)):
            plist = (small if quick and r == 2 else pats) if r <= 2 else small
            for rows in itertools.product(plist, repeat=r):
                cases.append((n, 2, 1, rows, 0, 0))
                if r % 2 == 0:
                    cases.append((n, 2, 2, rows, 0, 0))  # two instances: rows are split rep-major over the instances
        # a second, narrow key next to the wide one (mixed object/int64 columns)
        for rows in itertools.product(small if quick else pats, repeat=2):
            cases.append((n, 2, 1, rows, 1, 0))
    for n in (39, 40):  # 3**39 < 2**63 <= 3**40: vectorised vs big-int histogram path with fold_base=3
        pats = wide_patterns(n)
        for p in range(n):
            cases.append((n, 3, 1, (("hot", p),), 0, 1 if quick else 0))
        for rows in itertools.product([pats[0], pats[4], pats[6], pats[8], pats[10], pats[11]] if quick else pats, repeat=2):
            cases.append((n, 3, 1, rows, 0, 0))
    return cases


def run_wide(case):
    n, base, inst, rows, extra, rot = case
    hi = base - 1
    flat_rows = [wide_row(n, tuple(p), hi) for p in rows]
    reps = len(flat_rows) // inst
    t = [[flat_rows[r * inst + i] for i in range(inst)] for r in range(reps)]
    keys, tensors, shapes = ["w"], [t], [(inst, n)]
    if extra:
        keys.append("a")
        tensors.append([[[r % 2, 1]] for r in range(reps)])
        shapes.append((1, 2))
    cnt = 0
    sel = rows[0][1] if rot else 0
    ndt = 4 if base == 2 else 3
    wctors = ("records", "measurements", "engine")
    for dt_i in range(len(DTYPES)):
        if base != 2 and dt_i == 0:
            continue
        if rot and (dt_i - (4 - ndt)) != sel % ndt:
            continue
        for ci, ctor in enumerate(wctors):
            if ctor == "measurements" and inst != 1:
                continue
            if rot and ci != (sel // ndt) % 3:
                continue
            m = check_views(tuple(keys), tensors, shapes, reps, dt_i, ctor, base=base,
                            fold_bases=[3] if base == 3 else None, heavy=False,
                            layouts=(LAYOUTS[1 + (cnt + len(rows) + (rows[0][1] if rows else 0)) % 5],) if reps else ())
            cnt += 1
            if m:
                return bad(m[:3500], kind="views_wide", ctor=ctor, dtype=DTNAMES[dt_i], width=n)
    return good(nontrivial=reps >= 1, results_checked=cnt)


# ---------------------------------------------------------------------------------------------
# stage: pairs of results: ==, +


def pair_cases(tier):
    bound = 8 if tier == "quick" else 11
    cases = []
    for inst, q in ((1, 1), (1, 2), (2, 1), (2, 2), (1, 3)):
        for r1 in range(0, 4):
            for r2 in range(0, 4):
                c1, c2 = r1 * inst * q, r2 * inst * q
                if c1 + c2 <= bound:
                    for code1 in range(2 ** c1):
                        cases.append((inst, q, r1, r2, code1))
    cases.sort(key=lambda c: (c[0] * c[1] * (c[2] + c[3]),))
    return cases


def run_pairs(case):
    inst, q, r1, r2, code1 = case
    c1, c2 = r1 * inst * q, r2 * inst * q
    t1 = tensor_from_flat(decode(code1, c1, 2), r1, inst, q)
    dt1 = DTYPES[code1 % 4]
    a1 = np.array(t1, dtype=dt1).reshape((r1, inst, q))
    n = 0
    for code2 in range(2 ** c2):
        t2 = tensor_from_flat(decode(code2, c2, 2), r2, inst, q)
        dt2 = DTYPES[(code1 + code2) % 4]
        a2 = np.array(t2, dtype=dt2).reshape((r2, inst, q))
        desc = f"A=records{{'k': {t1}}} dtype {dt1.__name__}, B=records{{'k': {t2}}} dtype {dt2.__name__}, shape per repetition {(inst, q)}"
        for form in range(3):
            if form == 0:
                A = cirq.ResultDict(records={"k": a1})
                B = cirq.ResultDict(records={"k": a2})
            elif form == 1:
                if inst != 1:
                    continue
                A = cirq.ResultDict(measurements={"k": a1.reshape(r1, q)})
                B = cirq.ResultDict(records={"k": a2})
            else:
                if inst != 1:
                    continue
                A = cirq.ResultDict(records={"k": a1})
                B = cirq.ResultDict(measurements={"k": a2.reshape(r2, q)})
            n += 1
            same = (r1 == r2 and t1 == t2)
            if (A == B) != same or (A != B) == same:
                return bad(f"{desc} [form {form}]: A == B is {A == B}, expected {same}", kind="eq")
            S = A + B
            want = t1 + t2
            m = check_records(S, ("k",), [want], [(inst, q)], r1 + r2, desc + f" [form {form}] A + B")
            if m:
                return bad(m, kind="add")
            if S.repetitions != r1 + r2:
                return bad(f"{desc}: (A + B).repetitions = {S.repetitions}", kind="add")
            if inst == 1:
                mm = nested(S.measurements["k"])
                if mm != [row[0] for row in want]:
                    return bad(f"{desc}: (A + B).measurements = {mm}, expected {[row[0] for row in want]}", kind="add")
                h = S.histogram(key="k")
                wh = collections.Counter(ref_be(row[0]) for row in want)
                if h != wh:
                    return bad(f"{desc}: (A + B).histogram = {dict(h)}, expected {dict(wh)}", kind="add")
            # operands unchanged
            m = check_records(A, ("k",), [t1], [(inst, q)], r1, desc + " A after A + B") or \
                check_records(B, ("k",), [t2], [(inst, q)], r2, desc + " B after A + B")
            if m:
                return bad(m, kind="add_mutates")
    return good(nontrivial=r1 >= 1 and r2 >= 1, pairs=n)


def run_pair_struct(case):
    """Structural cases of == and +: key order, mismatched keys / shapes / params, data frames of sums."""
    kind, r1, r2, code = case
    bits = decode(code, 6, 2)
    pA = cirq.ParamResolver({"t": 1})
    pB = cirq.ParamResolver({"t": 2})

    def ten(reps, inst, q, off):
        return [[[bits[(rr * 3 + i * 2 + b + off) % 6] ^ ((rr + off) % 2) for b in range(q)] for i in range(inst)] for rr in range(reps)]

    def res(spec, reps, params=None, off=0):
        return cirq.ResultDict(params=params, records={k: np.array(ten(reps, i, q, off + j), dtype=np.uint8).reshape((reps, i, q))
                                                       for j, (k, i, q) in enumerate(spec)})

    specA = [("b", 1, 2), ("a", 2, 1)]
    if kind == "key_order":
        A = res(specA, r1)
        B = res(list(reversed(specA)), r2, off=1)
        # reversed spec shifts offsets: rebuild reference per key
        S = A + B
        for j, (k, i, q) in enumerate(specA):
            jb = [kk for kk, _, _ in reversed(specA)].index(k)
            want = ten(r1, i, q, j) + ten(r2, i, q, 1 + jb)
            m = check_records(S, (k,), [want], [(i, q)], r1 + r2, f"A{specA} reps {r1} + B(keys reversed) reps {r2}, key {k!r}", exact_keys=False)
            if m:
                return bad(m, kind="add_key_order")
        if set(S.records.keys()) != {"a", "b"}:
            return bad(f"A + B keys {list(S.records.keys())}", kind="add_key_order")
        # same content, different dict order
        A3 = cirq.ResultDict(records=dict(reversed(list(A.records.items()))))
        if not (A == A3):
            return bad("results with the same records in a different dict order are not ==", kind="eq")
        return good(nontrivial=r1 + r2 >= 1)
    if kind == "params":
        A = res(specA, r1, pA)
        B = res(specA, r2, pB)
        if A == B:
            return bad("results with different params compare ==", kind="eq")
        m = expect_value_error(lambda: A + B, f"A(params t=1) + B(params t=2)")
        if m:
            return bad(m, kind="add_params")
        C = res(specA, r2, pA, off=2)
        S = A + C
        if S.params != pA:
            return bad(f"(A + C).params = {S.params!r}", kind="add_params")
        for j, (k, i, q) in enumerate(specA):
            want = ten(r1, i, q, j) + ten(r2, i, q, 2 + j)
            m = check_records(S, (k,), [want], [(i, q)], r1 + r2, f"A + C (same params), key {k!r}", exact_keys=False)
            if m:
                return bad(m, kind="add")
        return good(nontrivial=True)
    if kind == "keys":
        A = res(specA, r1)
        for specB in ([("b", 1, 2)], [("b", 1, 2), ("a", 2, 1), ("c", 1, 1)], [("b", 1, 2), ("z", 2, 1)]):
            B = res(specB, r2)
            if A == B:
                return bad(f"results with keys {specA} and {specB} compare ==", kind="eq")
            m = expect_value_error(lambda: A + B, f"A{specA} + B{specB} (different keys)") or \
                expect_value_error(lambda: B + A, f"B{specB} + A{specA} (different keys)")
            if m:
                return bad(m, kind="add_keys")
        return good(nontrivial=True)
    if kind == "shapes":
        A = res(specA, r1)
        for specB in ([("b", 2, 1), ("a", 2, 1)], [("b", 1, 2), ("a", 1, 2)], [("b", 1, 3), ("a", 2, 1)], [("b", 1, 2), ("a", 1, 1)]):
            B = res(specB, r2)
            if r1 and r2 and A == B:
                return bad(f"results with shapes {specA} and {specB} compare ==", kind="eq")
            m = expect_value_error(lambda: A + B, f"A{specA} reps {r1} + B{specB} reps {r2} (different shapes)")
            if m:
                return bad(m, kind="add_shapes")
        # same digits, reps and instances exchanged: not equal
        if r1 >= 1:
            X = cirq.ResultDict(records={"k": np.array(bits[:4], dtype=np.uint8).reshape((2, 1, 2))})
            Y = cirq.ResultDict(records={"k": np.array(bits[:4], dtype=np.uint8).reshape((1, 2, 2))})
            Z = cirq.ResultDict(records={"k": np.array(bits[:4], dtype=np.uint8).reshape((2, 2, 1))})
            if X == Y or X == Z or Y == Z:
                return bad(f"results with the same flat digits {bits[:4]} but shapes (2,1,2)/(1,2,2)/(2,2,1) compare ==", kind="eq")
        return good(nontrivial=True)
    raise core.HarnessError(kind)


def pair_struct_cases():
    out = []
    for kind in ("key_order", "params", "keys", "shapes"):
        for r1 in range(0, 3):
            for r2 in range(0, 3):
                for code in (0b000111, 0b010110, 0b101101, 0b111111):
                    out.append((kind, r1, r2, code))
    return out


# ---------------------------------------------------------------------------------------------
# samplers

QS = cirq.LineQubit.range(12)
T_SYM, S_SYM = sympy.Symbol("t"), sympy.Symbol("s")
IDW = 9

# (circuit, spec) : spec = list of (key, instances, qubits)
FAKE_CIRCUITS = [
    (cirq.Circuit(cirq.measure(*QS[:IDW], key="id")), [("id", 1, IDW)]),
    (cirq.Circuit(cirq.X(QS[9]) ** T_SYM, cirq.measure(*QS[:IDW], key="id"), cirq.measure(QS[9], QS[10], key="w")), [("id", 1, IDW), ("w", 1, 2)]),
    (cirq.Circuit(cirq.measure(*QS[:IDW], key="id"), cirq.measure(QS[9], key="rep"), cirq.X(QS[9]), cirq.measure(QS[9], key="rep")),
     [("id", 1, IDW), ("rep", 2, 1)]),
]


def cid_of(program):
    for i, (c, _) in enumerate(FAKE_CIRCUITS):
        if program is c:
            return i
    for i, (c, _) in enumerate(FAKE_CIRCUITS):
        if program == c:
            return i
    raise core.HarnessError(f"fake sampler got an unknown program: {program!r}")


def pcode(pdict):
    """4-bit code of a parameter assignment (distinct for all assignments used inside one sweepable)."""
    return (int(round(4 * float(pdict.get("t", 0)))) + 3 * int(pdict.get("s", 0))) % 16


def enc(cid, pdict, reps):
    """Reference records of the underlying run (circuit cid, parameter assignment pdict, reps repetitions):
    key 'id' spells [circuit id: 2 bits][parameter code: 4 bits][repetition number: 3 bits]."""
    j = pcode(pdict)
    out = {}
    for key, inst, q in FAKE_CIRCUITS[cid][1]:
        if key == "id":
            out[key] = [[[(cid >> 1) & 1, cid & 1, (j >> 3) & 1, (j >> 2) & 1, (j >> 1) & 1, j & 1, (r >> 2) & 1, (r >> 1) & 1, r & 1]] for r in range(reps)]
        elif key == "w":
            out[key] = [[[(r + j) & 1, ((r >> 1) & 1) ^ 1]] for r in range(reps)]
        else:
            out[key] = [[[(r + i + j) & 1] for i in range(inst)] for r in range(reps)]
    return out


def fake_run(log, program, params, repetitions, result_cls=None):
    cid = cid_of(program)
    resolvers = list(cirq.to_resolvers(params))
    out = []
    for pr in resolvers:
        pdict = {str(k): v for k, v in pr.param_dict.items()}
        recs = {k: np.array(t, dtype=np.uint8).reshape((repetitions, i, q))
                for (k, i, q), t in zip(FAKE_CIRCUITS[cid][1], enc(cid, pdict, repetitions).values())}
        if result_cls is None:
            out.append(cirq.ResultDict(params=pr, records=recs))
        else:
            out.append(result_cls(params=pr, records=recs, job_id="fake-job"))
    log.append((cid, len(resolvers), repetitions))
    return out


class SyncFake(cirq.Sampler):
    """Implements only run_sweep."""

    def __init__(self):
        self.log = []

    def run_sweep(self, program, params, repetitions=1):
        return fake_run(self.log, program, params, repetitions)


class AsyncFake(cirq.Sampler):
    """Implements only run_sweep_async."""

    def __init__(self):
        self.log = []

    async def run_sweep_async(self, program, params, repetitions=1):
        await duet.sleep(0.0)
        return fake_run(self.log, program, params, repetitions)


class FakeJob:
    def __init__(self, results):
        self._results = results

    async def results_async(self):
        return self._results

    def results(self):
        return self._results


class FakeProcessor:
    """Stands in for cirq_google AbstractProcessor: a sequence of programs is answered program-major, sweep-minor."""

    def __init__(self):
        self.log = []
        self.calls = []

    async def run_sweep_async(self, program, params=None, repetitions=1, run_name="", snapshot_id="", device_config_name="", **kw):
        await duet.sleep(0.0)
        progs = list(program) if isinstance(program, (list, tuple)) else [program]
        self.calls.append((len(progs), repetitions))
        out = []
        for p in progs:
            out.extend(fake_run(self.log, p, params, repetitions, result_cls=cirq_google.EngineResult))
        return FakeJob(out)


def sweepables():
    """(sweepable, explicit list of param dicts in sweep order)"""
    return [
        (None, [{}]),
        ({"t": 0.5}, [{"t": 0.5}]),
        (cirq.ParamResolver({"t": 1}), [{"t": 1}]),
        (cirq.Points("t", [0.25, 0.75, 0.5]), [{"t": 0.25}, {"t": 0.75}, {"t": 0.5}]),
        ([{"t": 1, "s": 2}, {"t": 3, "s": 0}], [{"t": 1, "s": 2}, {"t": 3, "s": 0}]),
        (cirq.Zip(cirq.Points("t", [1, 2]), cirq.Points("s", [5, 4])), [{"t": 1, "s": 5}, {"t": 2, "s": 4}]),
        ([cirq.Points("t", [2, 1]), cirq.Points("t", [3])], [{"t": 2}, {"t": 1}, {"t": 3}]),
        ([cirq.Points("t", [1]), cirq.Points("s", [2])], [{"t": 1}, {"s": 2}]),  # inconsistent keys: sample() must reject
    ]


_SW = None


def _init_samplers():
    global _SW
    _SW = sweepables()


def check_result_against(res, cid, j, reps, pdict, what):
    if not isinstance(res, cirq.Result):
        return f"{what}: not a cirq.Result: {res!r}"
    want = enc(cid, pdict, reps)
    spec = FAKE_CIRCUITS[cid][1]
    m = check_records(res, [k for k, _, _ in spec], [want[k] for k, _, _ in spec], [(i, q) for _, i, q in spec], reps, what)
    if m:
        return m + f" -- i.e. not the underlying run (circuit {cid}, resolver #{j} = {pdict}, repetitions {reps})"
    if res.params != cirq.ParamResolver(pdict):
        return f"{what}: params {res.params!r}, expected {pdict}"
    return None


def make_fake(kind):
    return SyncFake() if kind == 0 else AsyncFake()


def run_sampler_entry(case):
    kind, entry, cid, sw_i, reps = case
    fake = make_fake(kind)
    prog = FAKE_CIRCUITS[cid][0]
    sweepable, plist = _SW[sw_i]
    what = f"{['SyncFake', 'AsyncFake'][kind]}.{entry}(circuit#{cid}, params={sweepable!r}, repetitions={reps})"
    if entry in ("run", "run_async"):
        if len(plist) != 1:
            return Res(skipped=True, nontrivial=False)
        if entry == "run":
            res = fake.run(prog, sweepable, reps)
        else:
            res = duet.run(fake.run_async, prog, sweepable, reps)
        m = check_result_against(res, cid, 0, reps, plist[0], what)
        if m:
            return bad(m, kind=entry)
        if fake.log != [(cid, 1, reps)]:
            return bad(f"{what}: underlying runs {fake.log}, expected one run {(cid, 1, reps)}", kind=entry)
        return good(nontrivial=reps >= 2)
    if entry == "run_default_reps":
        if len(plist) != 1:
            return Res(skipped=True, nontrivial=False)
        res = fake.run(prog) if sweepable is None else fake.run(prog, sweepable)
        m = check_result_against(res, cid, 0, 1, plist[0], what)
        if m:
            return bad(m, kind=entry)
        return good(nontrivial=False)
    if entry in ("run_sweep", "run_sweep_async"):
        if entry == "run_sweep":
            out = fake.run_sweep(prog, sweepable, reps)
        else:
            out = duet.run(fake.run_sweep_async, prog, sweepable, reps)
        if len(out) != len(plist):
            return bad(f"{what}: {len(out)} results for {len(plist)} resolvers", kind=entry)
        for j, pd_ in enumerate(plist):
            m = check_result_against(out[j], cid, j, reps, pd_, what + f"[{j}]")
            if m:
                return bad(m, kind=entry)
        if fake.log != [(cid, len(plist), reps)]:
            return bad(f"{what}: underlying runs {fake.log}", kind=entry)
        return good(nontrivial=len(plist) >= 2 or reps >= 2)
    if entry == "sample":
        spec = FAKE_CIRCUITS[cid][1]
        repeated = any(i != 1 for _, i, _ in spec)
        inconsistent = len({tuple(sorted(p)) for p in plist}) > 1
        try:
            if sweepable is None and reps == 1:
                df = fake.sample(prog)
            elif sweepable is None:
                df = fake.sample(prog, repetitions=reps)
            else:
                df = fake.sample(prog, repetitions=reps, params=sweepable)
        except ValueError:
            if repeated or inconsistent:
                return Res(skipped=True, nontrivial=False)
            raise
        if inconsistent:
            return bad(f"{what}: inconsistent sweep parameters accepted (documented ValueError)", kind="sample")
        if repeated:
            return bad(f"{what}: returned a frame although key 'rep' is measured twice per repetition", kind="sample")
        pkeys = sorted(plist[0].keys())
        mkeys = [k for k, _, _ in spec]
        cols = list(df.columns)
        if cols[:len(pkeys)] != pkeys or sorted(cols[len(pkeys):]) != sorted(mkeys):
            return bad(f"{what}: columns {cols}, expected params {pkeys} then keys {mkeys}", kind="sample")
        want_rows = []
        want_index = []
        for j, pd_ in enumerate(plist):
            e = enc(cid, pd_, reps)
            for r in range(reps):
                row = {k: pd_[k] for k in pkeys}
                for k in mkeys:
                    row[k] = ref_be(e[k][r][0])
                want_rows.append(row)
                want_index.append(r)
        if len(df) != len(want_rows):
            return bad(f"{what}: {len(df)} rows, expected {len(want_rows)} (= {len(plist)} resolvers x {reps} repetitions)", kind="sample")
        if list(df.index) != want_index:
            return bad(f"{what}: index {list(df.index)}, expected repetition numbers {want_index}", kind="sample")
        for n, row in enumerate(want_rows):
            for c in cols:
                v = df[c].iloc[n]
                if not (v == row[c]):
                    return bad(f"{what}: row {n} column {c!r} = {v!r}, expected {row[c]!r} (rows = sweep order x repetitions; full expected rows {want_rows})", kind="sample")
        return good(nontrivial=len(plist) * reps >= 2)
    raise core.HarnessError(entry)


def sampler_entry_cases():
    cases = []
    for kind in (0, 1):
        for cid in range(len(FAKE_CIRCUITS)):
            for sw_i in range(8):
                for reps in (0, 1, 2, 3, 5):
                    for entry in ("run", "run_async", "run_sweep", "run_sweep_async", "sample"):
                        cases.append((kind, entry, cid, sw_i, reps))
                cases.append((kind, "run_default_reps", cid, sw_i, 1))
    return cases


BATCH_SW = (0, 3, 5)  # None, Points(t; 3 values), Zip(t,s; 2 values)


def batch_cases(tier):
    cases = []
    for kind in (0, 1, 2, 3, 4, 5):  # SyncFake, AsyncFake, ProcessorSampler(jobs_per_batch=1,2,3), ValidatingSampler
        for use_async in (0, 1):
            for n in (0, 1, 2, 3):
                cid_alpha = (0, 1, 2) if n <= 2 else (0, 1)
                for progs in itertools.product(cid_alpha, repeat=n):
                    popts = [None]
                    sw_alpha = BATCH_SW if (n <= 2 or tier == "thorough") else BATCH_SW[1:]
                    popts += [tuple(p) for p in itertools.product(sw_alpha, repeat=n)] if n else [()]
                    if n:
                        popts.append(tuple(BATCH_SW[i % 3] for i in range(n - 1)))
                    popts.append(tuple(BATCH_SW[i % 3] for i in range(n + 1)))
                    ropts = [-1, 2]  # -1: argument omitted
                    ropts += [tuple(r) for r in itertools.product((1, 3), repeat=n)] if n else [()]
                    if n:
                        ropts.append(tuple((1, 3, 2, 1)[i] for i in range(n - 1)))
                    ropts.append(tuple((1, 3, 2, 1)[i] for i in range(n + 1)))
                    for po in popts:
                        for ro in ropts:
                            cases.append((kind, use_async, progs, po, ro))
    return cases


def run_batch(case):
    kind, use_async, progs, po, ro = case
    n = len(progs)
    programs = [FAKE_CIRCUITS[c][0] for c in progs]
    params_list = None if po is None else [_SW[i][0] for i in po]
    validator_log = []
    proc = None
    if kind in (0, 1):
        inner = make_fake(kind)
        sampler = inner
        name = ["SyncFake", "AsyncFake"][kind]
    elif kind in (2, 3, 4):
        proc = FakeProcessor()
        inner = proc
        jpb = kind - 1
        sampler = cirq_google.ProcessorSampler(processor=proc, jobs_per_batch=jpb)
        name = f"ProcessorSampler(jobs_per_batch={jpb})"
    else:
        inner = SyncFake()

        def validator(circuits, sweeps, repetitions):
            validator_log.append((len(circuits), len(sweeps), repetitions if isinstance(repetitions, int) else tuple(repetitions)))

        sampler = cirq_google.ValidatingSampler(validator=validator, sampler=inner)
        name = "ValidatingSampler(SyncFake)"
    what = f"{name}.{'run_batch_async' if use_async else 'run_batch'}(programs=circuits#{list(progs)}, params_list={params_list!r}, repetitions={'<omitted>' if ro == -1 else ro})"
    args = [programs]
    kwargs = {}
    if po is not None:
        kwargs["params_list"] = params_list
    if ro != -1:
        kwargs["repetitions"] = ro if isinstance(ro, int) else list(ro)
    mismatch = (po is not None and len(po) != n) or (not isinstance(ro, int) and len(ro) != n)
    try:
        if use_async:
            out = duet.run(sampler.run_batch_async, *args, **kwargs)
        else:
            out = sampler.run_batch(*args, **kwargs)
    except ValueError:
        if mismatch:
            return Res(skipped=True, nontrivial=False)
        raise
    if mismatch:
        return bad(f"{what}: length mismatch accepted (documented ValueError); returned {len(out)} result lists", kind="run_batch_mismatch")
    reps_list = [1] * n if ro == -1 else ([ro] * n if isinstance(ro, int) else list(ro))
    plists = [[{}]] * n if po is None else [_SW[i][1] for i in po]
    if len(out) != n:
        return bad(f"{what}: {len(out)} result lists for {n} programs", kind="run_batch")
    for i in range(n):
        if len(out[i]) != len(plists[i]):
            return bad(f"{what}: result list {i} has {len(out[i])} results for {len(plists[i])} resolvers", kind="run_batch")
        for j, pd_ in enumerate(plists[i]):
            m = check_result_against(out[i][j], progs[i], j, reps_list[i], pd_, what + f"[{i}][{j}]")
            if m:
                return bad(m, kind="run_batch")
            if kind in (2, 3, 4) and not isinstance(out[i][j], cirq_google.EngineResult):
                return bad(f"{what}[{i}][{j}] is not the processor's EngineResult", kind="run_batch")
    want_runs = sorted((progs[i], len(plists[i]), reps_list[i]) for i in range(n))
    if sorted(inner.log) != want_runs:
        return bad(f"{what}: underlying runs {sorted(inner.log)}, expected exactly {want_runs}", kind="run_batch_runs")
    if proc is not None:
        if any(sz > max(1, kind - 1) for sz, _ in proc.calls):
            return bad(f"{what}: a processor call carried {max(sz for sz, _ in proc.calls)} programs", kind="run_batch_runs")
    if kind == 5 and n >= 0:
        if validator_log != [(n, n, tuple(reps_list))]:
            return bad(f"{what}: validator calls {validator_log}, expected one call with the normalized lists {(n, n, tuple(reps_list))}", kind="validating")
    return good(nontrivial=n >= 2)


def run_validating(case):
    """ValidatingSampler: run_sweep / run / sample delegate after validating; a raising validator blocks the run."""
    entry, cid, sw_i, reps, fail = case
    inner = SyncFake()
    vlog = []

    def validator(circuits, sweeps, repetitions):
        vlog.append((len(circuits), len(sweeps), repetitions))
        if fail:
            raise ValueError("rejected by validator")

    s = cirq_google.ValidatingSampler(validator=validator, sampler=inner)
    prog = FAKE_CIRCUITS[cid][0]
    sweepable, plist = _SW[sw_i]
    what = f"ValidatingSampler.{entry}(circuit#{cid}, {sweepable!r}, repetitions={reps}, validator {'raises' if fail else 'passes'})"
    try:
        if entry == "run_sweep":
            out = s.run_sweep(prog, sweepable, reps)
        elif entry == "run":
            if len(plist) != 1:
                return Res(skipped=True, nontrivial=False)
            out = [s.run(prog, sweepable, reps)]
        else:
            out = duet.run(s.run_sweep_async, prog, sweepable, reps)
    except ValueError:
        if fail:
            if inner.log:
                return bad(f"{what}: wrapped sampler ran {inner.log} although validation failed", kind="validating")
            return good(nontrivial=False)
        raise
    if fail:
        return bad(f"{what}: returned results although the validator raised", kind="validating")
    if len(out) != len(plist):
        return bad(f"{what}: {len(out)} results for {len(plist)} resolvers", kind="validating")
    for j, pd_ in enumerate(plist):
        m = check_result_against(out[j], cid, j, reps, pd_, what + f"[{j}]")
        if m:
            return bad(m, kind="validating")
    if vlog != [(1, 1, reps)] or inner.log != [(cid, len(plist), reps)]:
        return bad(f"{what}: validator calls {vlog}, underlying runs {inner.log}", kind="validating")
    return good(nontrivial=len(plist) >= 2)


def validating_cases():
    return [(e, cid, sw_i, reps, fail) for e in ("run_sweep", "run", "run_sweep_async") for cid in range(3) for sw_i in range(7)
            for reps in (1, 3) for fail in (0, 1)]


# --- ZerosSampler and simulators as samplers ---------------------------------------------------

Q3 = cirq.LineQid(5, dimension=3)


def sim_circuits():
    q0, q1, q2 = QS[:3]
    x3 = cirq.XPowGate(dimension=3)
    # (circuit, spec [(key, inst, q)], value function(param dict) -> {key: [inst][q] digits}, has_qutrit, symbols)
    return [
        (cirq.Circuit(cirq.X(q0), cirq.measure(q0, q1, key="m")), [("m", 1, 2)], lambda p: {"m": [[1, 0]]}, False),
        (cirq.Circuit(cirq.X(q1) ** T_SYM, cirq.measure(q1, q0, key="b"), cirq.measure(q0, q2, q1, key="a")), [("b", 1, 2), ("a", 1, 3)],
         lambda p: {"b": [[int(p["t"]), 0]], "a": [[0, 0, int(p["t"])]]}, False),
        (cirq.Circuit(cirq.measure(q0, q1, key="r"), cirq.X(q0), cirq.measure(q0, q1, key="r"), cirq.X(q1) ** T_SYM, cirq.measure(q1, key="z")),
         [("r", 2, 2), ("z", 1, 1)], lambda p: {"r": [[0, 0], [1, 0]], "z": [[int(p["t"])]]}, False),
        (cirq.Circuit(x3(Q3), x3(Q3), cirq.X(q0), cirq.measure(q0, Q3, key="q3"), cirq.measure(Q3, key="d")), [("q3", 1, 2), ("d", 1, 1)],
         lambda p: {"q3": [[1, 2]], "d": [[2]]}, True),
        (cirq.Circuit(cirq.X(q2), cirq.measure(q0, q1, q2, key="x"), cirq.measure(q2, key="y"), cirq.X(q2), cirq.X(q0) ** T_SYM, cirq.measure(q2, q0, key="y")),
         [("x", 1, 3), ("y", 2, 1)], None, False),  # inconsistent widths for repeated key: documented rejection
        # all measurements terminal (the simulators' sample-everything-at-once path), keys repeated with different
        # values per instance, asymmetric in every axis
        (cirq.Circuit(cirq.X(q0), cirq.X(QS[3]),
                      cirq.Moment(cirq.measure(q0, q1, key="m"), cirq.measure(q2, QS[3], key="m")),
                      cirq.Moment(cirq.measure(QS[3], q0, key="m"), cirq.measure(q1, key="single"))),
         [("m", 3, 2), ("single", 1, 1)], lambda p: {"m": [[1, 0], [0, 1], [1, 1]], "single": [[0]]}, False),
        (cirq.Circuit(cirq.X(q1) ** T_SYM, cirq.X(q2),
                      cirq.Moment(cirq.measure(q0, key="r"), cirq.measure(q2, q1, key="y")),
                      cirq.Moment(cirq.measure(q1, key="r")), cirq.Moment(cirq.measure(q2, key="r")),
                      cirq.Moment(cirq.measure(q0, q1, key="y"))),
         [("r", 3, 1), ("y", 2, 2)], lambda p: {"r": [[0], [int(p["t"])], [1]], "y": [[1, int(p["t"])], [0, int(p["t"])]]}, False),
    ]


SIM_SWEEPS = [
    ({"t": 1}, [{"t": 1}]),
    (cirq.Points("t", [1, 0, 1]), [{"t": 1}, {"t": 0}, {"t": 1}]),
    ([{"t": 0}, {"t": 1}], [{"t": 0}, {"t": 1}]),
]
SIM_NAMES = ["Simulator", "DensityMatrixSimulator", "CliffordSimulator", "ZerosSampler", "Simulator(split_untangled_states=False)"]


def make_sim(i):
    if i == 0:
        return cirq.Simulator(seed=1)
    if i == 1:
        return cirq.DensityMatrixSimulator(seed=1)
    if i == 2:
        return cirq.CliffordSimulator(seed=1)
    if i == 3:
        return cirq.ZerosSampler()
    return cirq.Simulator(seed=1, split_untangled_states=False)


_SIMC = None


def _init_sims():
    global _SIMC
    _SIMC = sim_circuits()
    _init_samplers()


def run_sim(case):
    sim_i, entry, ci, sw_i, reps = case
    circ, spec, valfn, qutrit = _SIMC[ci]
    if sim_i == 2 and qutrit:
        return Res(skipped=True, nontrivial=False)
    sampler = make_sim(sim_i)
    sweepable, plist = SIM_SWEEPS[sw_i]
    what = f"{SIM_NAMES[sim_i]}.{entry}(circuit#{ci}, params={sweepable!r}, repetitions={reps})\n{circ}"
    zeros = sim_i == 3

    def want_for(p):
        v = valfn(p)
        if zeros:
            v = {k: [[0] * q for _ in range(i)] for k, i, q in spec}
        return v

    def check_one(res, p, label):
        if not isinstance(res, cirq.Result):
            return f"{label}: not a Result: {res!r}"
        if res.params != cirq.ParamResolver(p):
            return f"{label}: params {res.params!r} expected {p}"
        if res.repetitions != reps:
            return f"{label}: repetitions {res.repetitions}, expected {reps}"
        if set(res.records.keys()) != {k for k, _, _ in spec}:
            return f"{label}: keys {sorted(res.records.keys())}, expected {[k for k, _, _ in spec]}"
        if reps == 0 and not zeros:
            for k in res.records:
                if np.asarray(res.records[k]).shape[0] != 0:
                    return f"{label}: records[{k!r}].shape={np.asarray(res.records[k]).shape} for repetitions=0"
            return None
        w = want_for(p)
        return check_records(res, [k for k, _, _ in spec], [[w[k] for _ in range(reps)] for k, _, _ in spec], [(i, q) for _, i, q in spec], reps, label)

    if valfn is None:
        try:
            out = sampler.run_sweep(circ, sweepable, reps)
        except ValueError:
            return Res(skipped=True, nontrivial=False)
        # accepted: then every repetition must still have the right keys / repetitions
        for res in out:
            if res.repetitions != reps or set(res.records.keys()) != {"x", "y"}:
                return bad(f"{what}: accepted a repeated key with different widths but returned {res!r}", kind="sim")
        return good(nontrivial=False)

    if entry == "run":
        p = plist[0]
        res = sampler.run(circ, p, reps)
        m = check_one(res, p, what)
        if m:
            return bad(m, kind="sim_run", sim=SIM_NAMES[sim_i])
        res = duet.run(sampler.run_async, circ, cirq.ParamResolver(p), reps)
        m = check_one(res, p, what + " [run_async]")
        if m:
            return bad(m, kind="sim_run", sim=SIM_NAMES[sim_i])
        if reps >= 1:
            back = cirq.read_json(json_text=cirq.to_json(res))
            m = check_one(back, p, what + " [JSON round trip of the sampler's result]")
            if m:
                return bad(m, kind="sim_run_json", sim=SIM_NAMES[sim_i])
        if reps >= 2:
            # one run of n repetitions tells the same story as n runs of one repetition, concatenated
            total = None
            for _ in range(reps):
                one = sampler.run(circ, p, 1)
                total = one if total is None else total + one
            for k in res.records:
                if nested(res.records[k]) != nested(total.records[k]):
                    return bad(f"{what}: records[{k!r}]={nested(res.records[k])} but {reps} runs with repetitions=1 give {nested(total.records[k])}",
                               kind="sim_run_vs_single", sim=SIM_NAMES[sim_i])
        return good(nontrivial=reps >= 2)
    if entry == "run_sweep":
        for label, out in (("", sampler.run_sweep(circ, sweepable, reps)), (" [run_sweep_async]", duet.run(sampler.run_sweep_async, circ, sweepable, reps))):
            if len(out) != len(plist):
                return bad(f"{what}{label}: {len(out)} results for {len(plist)} resolvers", kind="sim_sweep")
            for j, p in enumerate(plist):
                m = check_one(out[j], p, what + label + f"[{j}]")
                if m:
                    return bad(m, kind="sim_sweep", sim=SIM_NAMES[sim_i])
        if hasattr(sampler, "run_sweep_iter"):
            out = list(sampler.run_sweep_iter(circ, sweepable, reps))
            if len(out) != len(plist):
                return bad(f"{what} [run_sweep_iter]: {len(out)} results", kind="sim_sweep")
            for j, p in enumerate(plist):
                m = check_one(out[j], p, what + f" [run_sweep_iter][{j}]")
                if m:
                    return bad(m, kind="sim_sweep", sim=SIM_NAMES[sim_i])
        return good(nontrivial=len(plist) >= 2)
    if entry == "sample":
        repeated = any(i != 1 for _, i, _ in spec)
        if reps == 0 and not zeros:
            return Res(skipped=True, nontrivial=False)  # repetitions=0 records have placeholder widths; no flattened demand
        try:
            df = sampler.sample(circ, repetitions=reps, params=sweepable)
        except ValueError:
            if repeated:
                return Res(skipped=True, nontrivial=False)
            raise
        if repeated:
            return bad(f"{what}: returned a frame although a key is repeated", kind="sim_sample")
        mkeys = [k for k, _, _ in spec]
        if qutrit:
            if len(df) != len(plist) * reps or sorted(df.columns) != sorted(["t"] + mkeys):
                return bad(f"{what}: frame shape {df.shape} columns {list(df.columns)}", kind="sim_sample")
            return good(nontrivial=False)
        rows = []
        for p in plist:
            w = want_for(p)
            for r in range(reps):
                rows.append(dict(t=p["t"], **{k: ref_be(w[k][0]) for k in mkeys}))
        if list(df.columns)[:1] != ["t"] or sorted(df.columns[1:]) != sorted(mkeys) or len(df) != len(rows):
            return bad(f"{what}: columns {list(df.columns)} rows {len(df)}; expected ['t'] + {mkeys}, {len(rows)} rows", kind="sim_sample")
        if list(df.index) != [r for _ in plist for r in range(reps)]:
            return bad(f"{what}: index {list(df.index)}", kind="sim_sample")
        for n, row in enumerate(rows):
            for c, v in row.items():
                if not (df[c].iloc[n] == v):
                    return bad(f"{what}: row {n} column {c!r} = {df[c].iloc[n]!r}, expected {v!r}; expected rows {rows}", kind="sim_sample", sim=SIM_NAMES[sim_i])
        return good(nontrivial=len(rows) >= 2)
    if entry == "run_batch":
        # program i of the batch = circuit (ci + i) % 3 (the three qubit circuits), sweeps rotate, repetitions reps+i
        cis = [(ci + i) % 3 for i in range(3)]
        sws = [(sw_i + i) % 3 for i in range(3)]
        rl = [reps + i for i in range(3)]
        out = sampler.run_batch([_SIMC[c][0] for c in cis], params_list=[SIM_SWEEPS[s][0] for s in sws], repetitions=rl)
        if len(out) != 3:
            return bad(f"{what}: {len(out)} result lists", kind="sim_batch")
        for i in range(3):
            c_, spec_, valfn_, _ = _SIMC[cis[i]]
            pl = SIM_SWEEPS[sws[i]][1]
            if len(out[i]) != len(pl):
                return bad(f"{what}: result list {i} has {len(out[i])} results for {len(pl)} resolvers", kind="sim_batch")
            for j, p in enumerate(pl):
                res = out[i][j]
                label = f"{SIM_NAMES[sim_i]}.run_batch(circuits#{cis}, sweeps#{sws}, repetitions={rl})[{i}][{j}]"
                if res.params != cirq.ParamResolver(p) or res.repetitions != rl[i]:
                    return bad(f"{label}: params {res.params!r} repetitions {res.repetitions}; expected {p}, {rl[i]}", kind="sim_batch")
                if rl[i] == 0 and not zeros:
                    continue
                w = valfn_(p)
                if zeros:
                    w = {k: [[0] * q for _ in range(ii)] for k, ii, q in spec_}
                m = check_records(res, [k for k, _, _ in spec_], [[w[k] for _ in range(rl[i])] for k, _, _ in spec_], [(ii, q) for _, ii, q in spec_], rl[i], label)
                if m:
                    return bad(m, kind="sim_batch", sim=SIM_NAMES[sim_i])
        return good(nontrivial=True)
    raise core.HarnessError(entry)


def sim_cases():
    cases = []
    for sim_i in range(5):
        for ci in range(7):
            for sw_i in range(3):
                for reps in (0, 1, 2, 3, 5):
                    for entry in ("run", "run_sweep", "sample"):
                        cases.append((sim_i, entry, ci, sw_i, reps))
                    if ci < 3:
                        cases.append((sim_i, "run_batch", ci, sw_i, reps))
    return cases


def run_sim_misc(case):
    """Documented rejections and expectation values from scripted samples."""
    kind, a, b = case
    q0, q1 = QS[:2]
    if kind == "no_measurements":
        sim = make_sim(a)
        m = expect_value_error(lambda: sim.run(cirq.Circuit(cirq.X(q0)), repetitions=b), f"{SIM_NAMES[a]}.run(circuit without measurements, repetitions={b})")
        if m and a != 3:
            return bad(m, kind="sim_reject")
        return good(nontrivial=False)
    if kind == "expectation":
        # scripted sampler: bit of qubit q in repetition r of resolver j is a fixed function; <Z-string> = mean of parities
        nsamp, obs_i = a, b

        def bit(qi, r, j):
            return ((r * (qi + 1) + j) // (qi + 1)) % 2 if qi else (r + j) % 2

        class Scripted(cirq.Sampler):
            def run_sweep(self, program, params, repetitions=1):
                out = []
                for j, pr in enumerate(cirq.to_resolvers(params)):
                    jj = int(pr.value_of("t")) if "t" in pr.param_dict else 0
                    recs = {}
                    for op in program.all_operations():
                        if cirq.is_measurement(op):
                            k = cirq.measurement_key_name(op)
                            recs[k] = np.array([[[bit(q.x, r, jj) for q in op.qubits]] for r in range(repetitions)], dtype=np.uint8).reshape((repetitions, 1, len(op.qubits)))
                    out.append(cirq.ResultDict(params=pr, records=recs))
                return out

        observables = [[cirq.Z(q0)], [cirq.Z(q0) * cirq.Z(q1)], [cirq.Z(q1), cirq.Z(q0) * cirq.Z(q1)], [cirq.X(q0), cirq.Z(q1)], [cirq.Z(q0) + 2 * cirq.Z(q1)]][obs_i]
        sets = [[(0,)], [(0, 1)], [(1,), (0, 1)], [(0,), (1,)], None][obs_i]
        circ = cirq.Circuit(cirq.X(q0) ** T_SYM, cirq.I(q1))
        plist = [{"t": 0}, {"t": 1}]
        got = Scripted().sample_expectation_values(circ, observables, num_samples=nsamp, params=cirq.Points("t", [0, 1]))

        def mean(qis, j):
            return sum((-1) ** sum(bit(qi, r, j) for qi in qis) for r in range(nsamp)) / nsamp

        for j, p in enumerate(plist):
            if sets is None:
                want = [mean((0,), j) + 2 * mean((1,), j)]
            else:
                want = [mean(s, j) for s in sets]
            if len(got) != 2 or len(got[j]) != len(want) or any(abs(x - y) > 1e-9 for x, y in zip(got[j], want)):
                return bad(f"sample_expectation_values(observables #{obs_i}, num_samples={nsamp}) = {got}, expected [{j}] = {want} from the scripted samples", kind="expectation")
        m = expect_value_error(lambda: Scripted().sample_expectation_values(circ, observables, num_samples=0), "sample_expectation_values(num_samples=0)")
        if m:
            return bad(m, kind="expectation")
        return good(nontrivial=True)
    raise core.HarnessError(kind)


def sim_misc_cases():
    out = [("no_measurements", s, r) for s in range(5) for r in (0, 1, 2)]
    out += [("expectation", n, o) for n in (1, 2, 3, 4, 7) for o in range(5)]
    return out


# ---------------------------------------------------------------------------------------------


# --- state histogram over key orders -------------------------------------------------------------

SH_KEYS = (("z", 2), ("a", 1), ("m", 3))


def state_hist_cases():
    cases = []
    perms = list(itertools.permutations(range(3)))
    for pi in range(len(perms)):
        for nk in (2, 3):
            for reps in (1, 2, 3):
                for pat in range(6):
                    cases.append(("named", pi, nk, reps, pat, 1 if (pat == 0 and reps == 2) else 0))
    for nq in (11, 12):
        for reps in (1, 3):
            for pat in range(4):
                cases.append(("qubits", nq, 0, reps, pat, 1 if (pat == 0 and reps == 1 and nq == 11) else 0))
    return cases


def run_state_hist(case):
    kind, a, nk, reps, pat, plot = case
    if kind == "named":
        order = list(itertools.permutations(range(3)))[a][:nk]
        ks = [SH_KEYS[i] for i in order]
    else:
        ks = [(f"q({i})", 1) for i in range(a)]  # default per-qubit keys: 'q(10)' sorts before 'q(2)'
    keys = tuple(k for k, _ in ks)
    shapes = [(1, w) for _, w in ks]
    tensors = []
    for ki, (k, w) in enumerate(ks):
        # asymmetric data: bit b of key number ki in repetition rr
        tensors.append([[[((rr + 1) * (ki + 2) * (b + 3) + pat * (ki + b + 1) + (ki * ki + b) // 2) % 2 for b in range(w)]] for rr in range(reps)])
    n = 0
    for dt_i in range(4):
        for ctor in ("records", "measurements", "engine"):
            arrs = [np.array(t, dtype=DTYPES[dt_i]).reshape((reps, 1, q)) for t, (_, q) in zip(tensors, shapes)]
            r = build_result(keys, arrs, ctor, cirq.ParamResolver({}))
            desc = f"{ctor}(dtype={DTNAMES[dt_i]}, " + ", ".join(f"{k!r}:{t}" for k, t in zip(keys, tensors)) + f", reps={reps})"
            m = check_state_histogram(r, keys, tensors, shapes, reps, desc)
            n += 1
            if m:
                return bad(m, kind="state_histogram")
            # agrees with the other flattened views of the same result
            order = list(r.measurements.keys())
            mm = r.multi_measurement_histogram(keys=order)
            widths = [np.asarray(r.measurements[k]).shape[1] for k in order]
            got = cirq.get_state_histogram(r)
            for ints, cnt in mm.items():
                idx = 0
                for v, w in zip(ints, widths):
                    idx = (idx << w) | int(v)
                if got[idx] != cnt:
                    return bad(f"{desc}: get_state_histogram[{idx}]={got[idx]} but multi_measurement_histogram(keys={order}) counts {ints} x {cnt}", kind="state_histogram")
    if plot:
        try:
            import matplotlib
            matplotlib.use("Agg")
            import matplotlib.pyplot as plt
        except Exception:  # headless plotting unavailable: the data view above is what the property is about
            return good(nontrivial=len(keys) >= 2, results_checked=n)
        arrs = [np.array(t, dtype=np.uint8).reshape((reps, 1, q)) for t, (_, q) in zip(tensors, shapes)]
        r = build_result(keys, arrs, "records", cirq.ParamResolver({}))
        fig, ax = plt.subplots(1, 1)
        try:
            ax2 = cirq.plot_state_histogram(r, ax)
            heights = [float(pch.get_height()) for pch in ax2.patches]
        finally:
            plt.close(fig)
        want = [float(x) for x in cirq.get_state_histogram(r)]
        m = check_state_histogram(r, keys, tensors, shapes, reps, "plot_state_histogram input")
        if m:
            return bad(m, kind="state_histogram")
        if heights != want:
            nz = {i: h for i, h in enumerate(heights) if h}
            return bad(f"plot_state_histogram(result with keys {keys}) bar heights {nz} differ from the state histogram", kind="state_histogram_plot")
    return good(nontrivial=len(keys) >= 2, results_checked=n)


def describe_single(case):
    reps, inst, q, base, code = case[:5]
    return {"shape": [reps, inst, q], "digits": tensor_from_flat(decode(code, reps * inst * q, base), reps, inst, q)}


def stages(tier, seed):
    _init_sims()
    maxlen = 5
    st = [
        CaseStage("digit_conversions", [tuple(b) for b in base_tuples(maxlen)], run_digits),
        CaseStage("result_views_one_key_bits", single_cases(tier, 2), run_single, describe=describe_single),
        CaseStage("result_views_one_key_qutrits", single_cases(tier, 3), run_single, describe=describe_single),
        CaseStage("result_views_two_three_keys", multi_cases(tier), run_multi),
        CaseStage("result_views_wide_rows", wide_cases(tier), run_wide),
        CaseStage("state_histogram_key_orders", state_hist_cases(), run_state_hist),
        CaseStage("result_pairs_eq_add", pair_cases(tier), run_pairs),
        CaseStage("result_pairs_structural", pair_struct_cases(), run_pair_struct),
        CaseStage("sampler_entry_points", sampler_entry_cases(), run_sampler_entry, reset=_init_samplers),
        CaseStage("sampler_run_batch", batch_cases(tier), run_batch, reset=_init_samplers),
        CaseStage("validating_sampler", validating_cases(), run_validating, reset=_init_samplers),
        CaseStage("simulators_and_zeros_sampler", sim_cases(), run_sim, reset=_init_sims),
        CaseStage("sampler_misc", sim_misc_cases(), run_sim_misc, reset=_init_sims),
    ]
    return st
