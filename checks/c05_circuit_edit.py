"""C05 -- circuits stay well-formed and order-preserving under any edit history.

Explicit-state BFS over *call histories on the live cirq.Circuit object* (engine E4).  A state is
reached by replaying a history of events on a fresh circuit (never copy(): that would reset the very
caches under test).  States are de-duplicated by a canonical form that contains the moments, tags,
the placement-cache fingerprint and the "populated" bits of every lazy summary.  On every transition:

  1. well-formedness of every moment (disjoint qubits, _qubit_to_op consistent),
  2. conservation of operations w.r.t. a list-of-lists reference model,
  3. order preservation per qubit / per measurement key (with the statement's EARLIEST carve-out),
  4. documented placement of single-operation inserts for all five strategies + returned index,
  5. every query answers as on a freshly rebuilt equal circuit,
  6. differential replay: same event on a freshly rebuilt equal circuit gives an equal circuit,
  7. failed batch edits leave the circuit unchanged.
"""
from __future__ import annotations

import itertools
import collections
import hashlib

import cirq
import sympy

from mc import core
from mc.core import Res, StageResult, CustomStage, bad, good

PROPERTY = "C05"
LEVEL = "model_checking"
RULE = ("BFS over call histories (events = public mutators/queries of cirq.Circuit with all 5 insert strategies, "
        "clamped/negative/past-end indices, 1-3 element op trees, moments) replayed on the live object; states "
        "deduplicated by canonical form incl. cache-validity bits; a transition is non-trivial when the event "
        "changed the canonical state or was checked against the placement/order reference model; distinct = "
        "distinct (state, event) pairs")
TECHNIQUE = ("explicit-state BFS over call histories on the live Circuit object (state-hash dedup incl. cache bits); "
             "reference-model + differential oracle on every transition")
LEVEL_TEXT = ("All histories up to the stated depth over the event alphabet (every mutator/query of Circuit with all 5 insert "
              "strategies, clamped indices, op trees) are executed on the real object; each transition is checked for "
              "well-formedness, conservation, per-qubit/per-key order, documented single-op placement, query agreement and "
              "differential replay against a freshly rebuilt equal circuit. Exhaustive within the depth/alphabet bound; not a "
              "proof for longer histories.")
LEVEL_NOTE = ("trusted: numpy/sympy, Moment construction from an op list (used to rebuild the fresh circuit); operations with "
              "equal repr are interchangeable")
ASSUMPTIONS = [
    "operations with equal value are interchangeable (order is checked on values, not object identity)",
    "EARLIEST single-op insert at index k whose predecessor conflicts may land in moment k if it fits there "
    "(long-standing behaviour) or in a new moment at k (docstring); both accepted",
    "private attributes are read only to build the state hash (never to decide the property)",
]

a, b, c = cirq.LineQubit.range(3)
S = cirq.InsertStrategy
STRATS = [S.EARLIEST, S.NEW, S.INLINE, S.NEW_THEN_INLINE, S.LATEST]
STRAT_NAMES = [s.name for s in STRATS]
_sym = sympy.Symbol("s")


def _letters():
    L = [
        ("X(a)", lambda: cirq.X(a)),
        ("Y(b)", lambda: cirq.Y(b)),
        ("Z(c)", lambda: cirq.Z(c)),
        ("CZ(a,b)", lambda: cirq.CZ(a, b)),
        ("CZ(b,c)", lambda: cirq.CZ(b, c)),
        ("M(a;m)", lambda: cirq.measure(a, key="m")),
        ("M(b;m)", lambda: cirq.measure(b, key="m")),
        ("M(c;k)", lambda: cirq.measure(c, key="k")),
        ("X(b)?m", lambda: cirq.X(b).with_classical_controls("m")),
        ("Z(c)?m", lambda: cirq.Z(c).with_classical_controls("m")),
        ("GP", lambda: cirq.global_phase_operation(1j)),
        ("X(a)^s", lambda: cirq.X(a) ** _sym),
        ("X(a)#t", lambda: cirq.X(a).with_tags("t")),
        ("MOM[X(a),Y(b)]", lambda: cirq.Moment([cirq.X(a), cirq.Y(b)])),
        ("MOM[]", lambda: cirq.Moment()),
        ("MOM[Z(c)]#mt", lambda: cirq.Moment([cirq.Z(c)]).with_tags("mt")),
    ]
    return L


LETTERS = _letters()
LNAME = [n for n, _ in LETTERS]
NOPS = 13  # first 13 letters are operations, the rest moments
CORE_OPS = [0, 1, 3, 4, 5, 6, 8, 9]  # X(a) Y(b) CZ(a,b) CZ(b,c) M(a;m) M(b;m) X(b)?m Z(c)?m


def mk(i):
    return LETTERS[i][1]()


INITS = [
    ("empty", lambda: cirq.Circuit()),
    ("earliest_loader[X(a),CZ(a,b)]", lambda: cirq.Circuit(cirq.X(a), cirq.CZ(a, b))),
    ("moments[X(a)|M(a;m)]", lambda: cirq.Circuit(cirq.Moment(cirq.X(a)), cirq.Moment(cirq.measure(a, key="m")))),
    ("new_loader[Y(b),X(b)?m-ish]", lambda: cirq.Circuit(cirq.measure(b, key="m"), cirq.Z(c), cirq.X(b).with_classical_controls("m"), strategy=S.NEW)),
    ("moments[|CZ(b,c)|]", lambda: cirq.Circuit(cirq.Moment(), cirq.Moment(cirq.CZ(b, c)), cirq.Moment())),
    ("moments[X(a),Y(b)|CZ(b,c),X(a)]", lambda: cirq.Circuit(cirq.Moment(cirq.X(a), cirq.Y(b)), cirq.Moment(cirq.CZ(b, c), cirq.X(a)))),
]

OTHER = [
    lambda: cirq.Circuit(cirq.X(a), cirq.CZ(a, b)),
    lambda: cirq.Circuit(cirq.Moment(cirq.measure(a, key="m")), cirq.Moment(cirq.X(b).with_classical_controls("m"))),
    lambda: cirq.FrozenCircuit(cirq.Y(b), cirq.Z(c)),
]

IDX = ["0", "1", "-1", "len", "len-1", "len+3", "-len-2"]


def resolve_idx(spec, n):
    return {"0": 0, "1": 1, "-1": -1, "len": n, "len-1": n - 1, "len+3": n + 3, "-len-2": -n - 2}[spec]


# ---------------------------------------------------------------------------------------------
# reference helpers (boring list-of-lists model)


def rebuild(circ):
    return cirq.Circuit([cirq.Moment(m.operations, tags=m.tags) if m.tags else cirq.Moment(m.operations) for m in circ.moments], tags=circ.tags)


def model(circ):
    return [list(m.operations) for m in circ.moments]


def opkey(op):
    return repr(op)


def mset(ops):
    return sorted(opkey(o) for o in ops)


def wellformed(circ):
    for i, m in enumerate(circ.moments):
        if not isinstance(m, cirq.Moment):
            return f"moment {i} is {type(m)}"
        qs = [q for op in m.operations for q in op.qubits]
        if len(qs) != len(set(qs)):
            return f"moment {i} has overlapping operations: {m!r}"
        ref = cirq.Moment(m.operations)
        if dict(m._qubit_to_op) != dict(ref._qubit_to_op):
            return f"moment {i} qubit->op map inconsistent with its operations"
        if m.qubits != ref.qubits:
            return f"moment {i} qubits inconsistent"
    return None


def mkeys(op):
    return cirq.measurement_key_objs(op)


def ckeys(op):
    return cirq.control_keys(op)


def conflict(x, y):
    if set(x.qubits) & set(y.qubits):
        return True
    mx, my, cx, cy = mkeys(x), mkeys(y), ckeys(x), ckeys(y)
    return bool((mx & my) or (mx & cy) or (cx & my))


def conflict_moment(op, moment_ops):
    return any(conflict(op, o) for o in moment_ops)


QUERY_QUBITS = (a, b, c)


def queries(cc):
    n = len(cc)
    out = []
    out.append(cc.all_qubits())
    out.append(cc.all_measurement_key_objs())
    out.append(cirq.is_parameterized(cc))
    out.append(frozenset(cirq.parameter_names(cc)))
    out.append(cc.has_measurements())
    out.append(cirq.is_measurement(cc))
    out.append(cirq.control_keys(cc))
    out.append(cc.are_all_measurements_terminal())
    out.append(tuple(cc.next_moment_operating_on([q], s) for q in QUERY_QUBITS for s in range(0, n + 1)))
    out.append(tuple(cc.prev_moment_operating_on([q], e) for q in QUERY_QUBITS for e in range(0, n + 1)))
    out.append(tuple(cc.operation_at(q, i) for q in QUERY_QUBITS for i in range(n)))
    out.append(tuple(sorted(cc.reachable_frontier_from({a: 0, b: 0, c: 0}).items())))
    out.append(tuple((i, op) for i, op in cc.findall_operations_between({a: 0, b: 0, c: 0}, {a: n, b: n, c: n})))
    out.append(tuple(cc.earliest_available_moment(mk(i)) for i in (0, 3, 5, 8)))
    out.append(tuple(cc.all_operations()))
    out.append(len(cc))
    return out


def query_agreement(live):
    fresh = rebuild(live)
    ql = queries(live)
    qf = queries(fresh)
    for i, (x, y) in enumerate(zip(ql, qf)):
        if x != y:
            return f"query #{i} differs between live circuit and freshly rebuilt equal circuit: {x!r} vs {y!r}"
    if live != fresh or not (live == fresh):
        return "live circuit != its own rebuild"
    fl, ff = live.freeze(), fresh.freeze()
    if fl != ff:
        return "freeze() differs from freeze() of rebuilt circuit"
    try:
        if hash(fl) != hash(ff):
            return "hash(freeze()) differs from rebuilt"
    except TypeError:
        pass
    if fl.moments != tuple(live.moments) or fl.tags != live.tags:
        return "frozen view is stale (moments/tags differ from live circuit)"
    if cirq.has_unitary(live) != cirq.has_unitary(fresh):
        return "has_unitary differs from rebuilt"
    return None


# canonical state -----------------------------------------------------------------------------


def cache_fp(circ):
    pc = getattr(circ, "_placement_cache", "absent")
    if pc is None or pc == "absent":
        pcf = pc
    else:
        try:
            pcf = (tuple(sorted(pc._qubit_indices.items())),
                   tuple(sorted((str(k), v) for k, v in pc._mkey_indices.items())),
                   tuple(sorted((str(k), v) for k, v in pc._ckey_indices.items())), pc._length)
        except AttributeError:
            pcf = ("unknown", id(pc))
    bits = tuple(getattr(circ, n, "absent") is not None for n in
                 ("_all_qubits", "_frozen", "_is_measurement", "_is_parameterized", "_parameter_names"))
    mbits = tuple(
        tuple(getattr(m, n, None) is not None for n in ("_measurement_key_objs", "_control_keys", "_sorted_operations"))
        for m in circ.moments)
    return (pcf, bits, mbits)


def canon(circ):
    body = (tuple((tuple(m.operations), m.tags) for m in circ.moments), circ.tags, cache_fp(circ))
    return hashlib.blake2b(repr(body).encode(), digest_size=10).digest()


def plain(circ):
    return (tuple((tuple(m.operations), m.tags) for m in circ.moments), circ.tags)


# events --------------------------------------------------------------------------------------


def build_events(level):
    """level: 'full' (depth 1), 'large' (thorough depth 2), 'medium' (quick depth 2)."""
    ev = []
    large = level == "large"
    full = level == "full"
    single = list(range(len(LETTERS)))
    idx1 = IDX if full else ["0", "1", "len+3"]
    # single-element inserts / appends: all strategies x index specs
    for li in single:
        for si in range(5):
            ev.append(("append", si, (li,)))
            for ix in idx1:
                ev.append(("insert", ix, si, (li,)))
    # ordered pairs of operation letters (forced conflicts inside the inserted list)
    pair_letters = list(range(NOPS)) if full else (CORE_OPS if large else [0, 3, 5, 8, 9])
    pair_idx = IDX if full else (["0", "1", "len"] if large else ["1"])
    if large:
        idx1 = IDX
    for x, y in itertools.product(pair_letters, repeat=2):
        for si in range(5):
            if full:
                ev.append(("append", si, (x, y)))
            for ix in pair_idx:
                ev.append(("insert", ix, si, (x, y)))
    # (op, Moment, op) triples and op triples on the conflict core
    trip = [(0, 13, 3), (3, 14, 0), (5, 13, 8), (0, 3, 1), (5, 8, 6), (8, 9, 5), (3, 4, 3), (0, 0, 0), (5, 6, 5),
            (13, 1, 0), (14, 0, 0), (13, 15, 2)]  # Moment first / two Moments: exercises the returned index after a Moment
    for t in trip if full else trip[:4] + trip[-3:]:
        for si in range(5):
            ev.append(("append", si, t))
            for ix in ("0", "1", "len") if full else ("1",):
                ev.append(("insert", ix, si, t))
    for li in (0, 1, 3, 5):
        for s_, e_ in ((0, 0), (0, 1), (0, 2), (1, 2), (1, 1)):
            ev.append(("insert_into_range", (li,), s_, e_))
    ev.append(("insert_into_range", (0, 3, 0), 0, 1))
    ev.append(("insert_into_range", (3, 4), 0, 2))
    for li in ((0,), (1,), (2,), (3,), (0, 3), (1, 2), (3, 4, 1), (8,), (7, 1)):
        for st in (0, 1, 2):
            ev.append(("insert_at_frontier", li, st))
    for spec in (((0, 0), (1, 1)), ((0, 0), (0, 1)), ((1, 3), (1, 0)), ((0, 5), (1, 8)), ((2, 3), (0, 4)), ((1, 0), (0, 0), (1, 3))):
        ev.append(("batch_insert", spec))
    for spec in (((0, 0),), ((0, 1), (1, 2)), ((0, 0), (0, 3)), ((1, 4),), ((0, 2), (5, 0))):
        ev.append(("batch_insert_into", spec))
    for spec in (((0, 0),), ((0, 0), (1, 3)), ((1, 5),), ((0, 1), (0, 0)), ((0, 0), (0, 2)), ((7, 0),)):
        ev.append(("batch_remove", spec))
    for spec in (((0, 0, 1),), ((0, 0, 2), (1, 3, 4)), ((1, 5, 7),), ((0, 0, 2), (0, 9, 1)),
                 ((0, 0, 12), (0, 1, 2)), ((0, 0, 2), (0, 2, 0)), ((1, 4, 3), (1, 0, 12)), ((0, 1, 2), (1, 0, 12), (0, 0, 12))):
        ev.append(("batch_replace", spec))
    for spec in (((0, 0), (0, 1)), ((1, 4), (1, 0)), ((0, 1), (1, 0), (0, 0))):
        ev.append(("batch_remove", spec))
    for spec in (((0, 2), (0, 2)), ((0, 2), (1, 1)), ((1, 1), (0, 2), (0, 10))):
        ev.append(("batch_insert_into", spec))
    for qs in ((0,), (1,), (0, 2), (0, 1, 2)):
        for rng in ("all", "0", "last", "oob"):
            ev.append(("clear", qs, rng))
    for i in ("0", "-1", "len-1"):
        for li in (13, 14, 15):
            ev.append(("setitem", i, li))
        ev.append(("del", i))
    ev.append(("setslice", 0, 1, (13, 14)))
    ev.append(("setslice", 1, 1, (13,)))
    ev.append(("setslice", 0, 5, ()))
    ev.append(("delslice", 0, 1))
    ev.append(("delslice", 1, 9))
    # (11,), (2,), (7,): one letter per memoised view it changes (symbols; a new qubit; a new key)
    for t in ((0,), (3, 0), (13,), (5, 8), (11,), (2,), (7,)):
        ev.append(("iadd", t))
        ev.append(("radd", t))
        ev.append(("add_ops", t))
    for n in (0, 1, 2):
        ev.append(("imul", n))
        ev.append(("mul", n))
    for o in range(len(OTHER)):
        ev.append(("add_circ", o))
        ev.append(("zip", o))
        ev.append(("concat_ragged", o, "left"))
        ev.append(("concat_ragged", o, "right"))
    for name in ("pow-1", "with_tags", "with_tags_none", "copy", "unfreeze", "unfreeze_nocopy", "transform", "map_ops",
                 "slice_rev", "untagged"):
        ev.append((name,))
    for q in ("all_qubits", "freeze", "has_measurements", "is_parameterized", "parameter_names", "keys", "control_keys",
              "unitary", "moment_caches"):
        ev.append(("q", q))
    return ev


def core_events():
    ev = []
    for li in (0, 3, 5, 8, 13):
        for si in range(5):
            ev.append(("append", si, (li,)))
            ev.append(("insert", "0", si, (li,)))
    for t in ((0, 3), (5, 8), (8, 5)):
        ev.append(("append", 0, t))
        ev.append(("insert", "1", 0, t))
    for name in ("with_tags", "copy", "unfreeze", "transform"):
        ev.append((name,))
    ev += [("q", "all_qubits"), ("q", "freeze"), ("q", "is_parameterized")]
    ev += [("imul", 2), ("del", "0"), ("clear", (0,), "all"), ("batch_insert", ((0, 0), (1, 1))),
           ("setitem", "0", 13), ("insert_into_range", (0,), 0, 1), ("insert_at_frontier", (1,), 0),
           ("insert_at_frontier", (2,), 1)]
    return ev


class Applied:
    __slots__ = ("circ", "ret", "info")

    def __init__(self, circ, ret=None, info=None):
        self.circ = circ
        self.ret = ret
        self.info = info or {}


def apply_event(circ, ev):
    """Applies the event to `circ`; returns Applied(resulting circuit, return value, info)."""
    kind = ev[0]
    n = len(circ)
    if kind == "append":
        mops = [mk(i) for i in ev[2]]
        ret = circ.append(mops if len(mops) > 1 else mops[0], strategy=STRATS[ev[1]])
        return Applied(circ, ret, {"mops": mops, "k": n, "strategy": ev[1], "ins": True})
    if kind == "insert":
        mops = [mk(i) for i in ev[3]]
        raw = resolve_idx(ev[1], n)
        k = max(min(raw if raw >= 0 else n + raw, n), 0)
        ret = circ.insert(raw, mops if len(mops) > 1 else mops[0], strategy=STRATS[ev[2]])
        return Applied(circ, ret, {"mops": mops, "k": k, "strategy": ev[2], "ins": True})
    if kind == "insert_into_range":
        mops = [mk(i) for i in ev[1]]
        ret = circ.insert_into_range(mops, ev[2], ev[3])
        return Applied(circ, ret, {"added": mops})
    if kind == "insert_at_frontier":
        mops = [mk(i) for i in ev[1]]
        ret = circ.insert_at_frontier(mops, ev[2])
        return Applied(circ, dict(ret), {"added": mops})
    if kind == "batch_insert":
        spec = [(i, mk(l)) for i, l in ev[1]]
        circ.batch_insert(spec)
        # documented: sorted by index (stable); inserts at the same index end up in reverse order
        order = []
        for _, grp in itertools.groupby(sorted(spec, key=lambda e: e[0]), key=lambda e: e[0]):
            order.extend(reversed([o for _, o in grp]))
        return Applied(circ, None, {"added": order, "batch": True})
    if kind == "batch_insert_into":
        spec = [(i, mk(l)) for i, l in ev[1]]
        circ.batch_insert_into(spec)
        return Applied(circ, None, {"batch": True, "exact": "batch_insert_into", "spec": spec})
    if kind == "batch_remove":
        spec = [(i, mk(l)) for i, l in ev[1]]
        circ.batch_remove(spec)
        return Applied(circ, None, {"batch": True, "exact": "batch_remove", "spec": spec})
    if kind == "batch_replace":
        spec = [(i, mk(l), mk(l2)) for i, l, l2 in ev[1]]
        circ.batch_replace(spec)
        return Applied(circ, None, {"batch": True, "exact": "batch_replace", "spec": spec})
    if kind == "clear":
        qs = [QUERY_QUBITS[i] for i in ev[1]]
        rng = {"all": range(n), "0": [0], "last": [n - 1], "oob": [-1, n, n + 2]}[ev[2]]
        rng = list(rng)
        circ.clear_operations_touching(qs, rng)
        return Applied(circ, None, {"exact": "clear", "qs": qs, "rng": rng})
    if kind == "setitem":
        i = resolve_idx(ev[1], n)
        m = mk(ev[2])
        circ[i] = m
        return Applied(circ, None, {"exact": "setitem", "i": i, "m": m})
    if kind == "del":
        i = resolve_idx(ev[1], n)
        del circ[i]
        return Applied(circ, None, {"exact": "del", "i": i})
    if kind == "setslice":
        ms = [mk(i) for i in ev[3]]
        circ[ev[1]:ev[2]] = ms
        return Applied(circ, None, {"exact": "setslice", "i": ev[1], "j": ev[2], "ms": ms})
    if kind == "delslice":
        del circ[ev[1]:ev[2]]
        return Applied(circ, None, {"exact": "delslice", "i": ev[1], "j": ev[2]})
    if kind == "iadd":
        mops = [mk(i) for i in ev[1]]
        circ += mops
        return Applied(circ, None, {"mops": mops, "k": n, "strategy": 0, "ins": True})
    if kind == "add_ops":
        mops = [mk(i) for i in ev[1]]
        r = circ + mops
        return Applied(r, None, {"mops": mops, "k": n, "strategy": 0, "ins": True, "functional": True})
    if kind == "radd":
        mops = [mk(i) for i in ev[1]]
        r = mops + circ
        return Applied(r, None, {"exact": "radd", "mops": mops, "functional": True})
    if kind == "imul":
        circ *= ev[1]
        return Applied(circ, None, {"exact": "mul", "n": ev[1]})
    if kind == "mul":
        r = circ * ev[1]
        return Applied(r, None, {"exact": "mul", "n": ev[1], "functional": True})
    if kind == "add_circ":
        other = OTHER[ev[1]]()
        r = circ + other
        return Applied(r, None, {"mops": list(other.moments), "k": n, "strategy": 0, "ins": True, "functional": True})
    if kind == "zip":
        other = OTHER[ev[1]]()
        r = circ.zip(other)
        return Applied(r, None, {"exact": "zip", "other": other, "functional": True})
    if kind == "concat_ragged":
        other = OTHER[ev[1]]()
        r = cirq.Circuit.concat_ragged(circ, other, align=ev[2])
        return Applied(r, None, {"exact": "concat_ragged", "other": other, "functional": True})
    if kind == "pow-1":
        r = cirq.inverse(circ, None)
        if r is None:
            return Applied(circ, "no-inverse", {"noop": True})
        return Applied(r, None, {"exact": "inverse", "functional": True})
    if kind == "with_tags":
        return Applied(circ.with_tags("z"), None, {"exact": "same", "tags": circ.tags + ("z",), "functional": True})
    if kind == "with_tags_none":
        return Applied(circ.with_tags(), None, {"exact": "same", "tags": circ.tags})
    if kind == "untagged":
        return Applied(circ.untagged, None, {"exact": "same", "tags": (), "functional": True})
    if kind == "copy":
        return Applied(circ.copy(), None, {"exact": "same", "tags": circ.tags, "functional": True})
    if kind == "unfreeze":
        return Applied(circ.freeze().unfreeze(), None, {"exact": "same", "tags": circ.tags, "functional": True})
    if kind == "unfreeze_nocopy":
        return Applied(circ.unfreeze(copy=False), None, {"exact": "same", "tags": circ.tags})
    if kind == "transform":
        return Applied(circ.transform_qubits({a: b, b: a}), None, {"exact": "transform", "functional": True})
    if kind == "map_ops":
        r = circ.map_operations(lambda op: op if not op.qubits else [op, cirq.I(op.qubits[0])][:1])
        return Applied(r, None, {"exact": "same_untouched", "functional": True})
    if kind == "slice_rev":
        return Applied(circ[::-1], None, {"exact": "reverse", "functional": True})
    if kind == "q":
        name = ev[1]
        if name == "all_qubits":
            ret = circ.all_qubits()
        elif name == "freeze":
            ret = circ.freeze()
        elif name == "has_measurements":
            ret = circ.has_measurements()
        elif name == "is_parameterized":
            ret = cirq.is_parameterized(circ)
        elif name == "parameter_names":
            ret = frozenset(cirq.parameter_names(circ))
        elif name == "keys":
            ret = circ.all_measurement_key_objs()
        elif name == "control_keys":
            ret = cirq.control_keys(circ)
        elif name == "unitary":
            ret = cirq.has_unitary(circ)
        elif name == "moment_caches":
            ret = tuple((m._measurement_key_objs_(), m._control_keys_(), m._sorted_operations_()) for m in circ.moments)
        return Applied(circ, ret, {"query": True})
    raise core.HarnessError(f"unknown event {ev}")


# ---------------------------------------------------------------------------------------------
# reference checks for inserts


def timeline(moments_ops, pred):
    """List (in moment order) of lists of op-keys (per moment) of the ops satisfying pred."""
    out = []
    for ops_ in moments_ops:
        sel = sorted(opkey(o) for o in ops_ if pred(o))
        if sel:
            out.append(sel)
    return out


def flat(tl):
    return [x for grp in tl for x in grp]


def is_interleaving(A, B1, B2):
    """A is an interleaving of sequences B1 and B2 (each keeping its order)."""
    n, m = len(B1), len(B2)
    if len(A) != n + m:
        return False
    reach = {(0, 0)}
    for x in A:
        nxt = set()
        for i, j in reach:
            if i < n and B1[i] == x:
                nxt.add((i + 1, j))
            if j < m and B2[j] == x:
                nxt.add((i, j + 1))
        reach = nxt
        if not reach:
            return False
    return (n, m) in reach


def runs(seq_with_roles):
    """[(key, role)] -> canonical run form where consecutive controls form a sorted multiset."""
    out = []
    cur = []
    for k, role in seq_with_roles:
        if role == "c":
            cur.append(k)
        else:
            if cur:
                out.append(("c", tuple(sorted(cur))))
                cur = []
            out.append(("m", k))
    if cur:
        out.append(("c", tuple(sorted(cur))))
    return out


def check_insert(before, after, info, ret):
    """before/after: list of lists of ops; info: mops, k (clamped), strategy index."""
    mops = info["mops"]
    k = info["k"]
    strat = STRATS[info["strategy"]]
    ins_ops = []
    ins_groups = []  # prescribed sequence groups (a Moment is one unordered group)
    for m in mops:
        if isinstance(m, cirq.Moment):
            ins_ops.extend(m.operations)
            ins_groups.append(list(m.operations))
        else:
            ins_ops.append(m)
            ins_groups.append([m])
    n_ins_moments = sum(isinstance(m, cirq.Moment) for m in mops)
    # 2. conservation
    bef_all = [o for ms in before for o in ms]
    aft_all = [o for ms in after for o in ms]
    if mset(aft_all) != sorted(mset(bef_all) + mset(ins_ops)):
        return "conservation: operations after insert != operations before + inserted"
    if len(after) < len(before) + n_ins_moments:
        return "moments lost by insert"
    # 3. order
    only_ops = [m for m in mops if not isinstance(m, cirq.Moment)]
    carve = (strat is S.EARLIEST and len(mops) >= 2 and k < len(before))
    resources = set()
    for o in bef_all + ins_ops:
        for q in o.qubits:
            resources.add(("q", q))
        for kk in mkeys(o) | ckeys(o):
            resources.add(("k", kk))
    for kind, r in sorted(resources, key=repr):
        if kind == "q":
            pred = lambda o: r in o.qubits
            role = lambda o: "m"
        else:
            pred = lambda o: (r in mkeys(o)) or (r in ckeys(o))
            role = lambda o: "m" if r in mkeys(o) else "c"
        pre = [(opkey(o), role(o)) for ms in before[:k] for o in sorted(ms, key=opkey) if pred(o)]
        post = [(opkey(o), role(o)) for ms in before[k:] for o in sorted(ms, key=opkey) if pred(o)]
        mid = [(opkey(o), role(o)) for g in ins_groups for o in sorted(g, key=opkey) if pred(o)]
        got = [(opkey(o), role(o)) for ms in after for o in sorted(ms, key=opkey) if pred(o)]
        # ops of one original/inserted Moment sharing a key with an m role cannot be ordered: skip such resource
        def mixed(groups):
            for g in groups:
                sel = [o for o in g if pred(o)]
                if len(sel) > 1 and any(role(o) == "m" for o in sel):
                    return True
            return False
        if mixed(before) or mixed(ins_groups):
            continue
        # in the result, a moment may hold several ops on the resource only if all are controls
        for i, ms in enumerate(after):
            sel = [o for o in ms if pred(o)]
            if len(sel) > 1 and any(role(o) == "m" for o in sel):
                return f"order: moment {i} of the result holds conflicting operations on {r!r}: {sel!r}"
        if not carve:
            if runs(got) != runs(pre + mid + post):
                return (f"order on {r!r}: got {got}, prescribed {pre}+{mid}+{post} "
                        f"(insert of {[opkey(m) if not isinstance(m, cirq.Moment) else repr(m) for m in mops]} at {k} {strat})")
        else:
            if kind == "q":
                g = [x for x, _ in got]
                old = [x for x, _ in pre + post]
                new = [x for x, _ in mid]
                if not is_interleaving(g, old, new):
                    return f"order (EARLIEST multi-op carve-out) on {r!r}: {g} is not an order-preserving merge of {old} and {new}"
                # inserted ones come after everything before the insertion point
                if not is_interleaving(g, [x for x, _ in pre] + new, [x for x, _ in post]) and \
                        not is_interleaving(g[len(pre):], new, [x for x, _ in post]):
                    return f"order (carve-out) on {r!r}: inserted ops not after the ops before the insertion point: {g}"
                if g[:len(pre)] != [x for x, _ in pre]:
                    return f"order (carve-out) on {r!r}: prefix changed: {g} vs {pre}"
            else:
                if runs(got[:len(pre)]) != runs(pre) and runs(got) != runs(pre + mid + post):
                    return f"order (carve-out) on key {r!r}: ops before insertion point changed: {got} vs {pre}"
    # 4. documented placement of a single operation
    if len(mops) == 1 and not isinstance(mops[0], cirq.Moment):
        op = mops[0]
        n = len(before)
        exp = []  # list of acceptable (resulting model) alternatives

        def into(i):
            return [list(ms) + ([op] if j == i else []) for j, ms in enumerate(before)]

        def new_at(i):
            return [list(ms) for ms in before[:i]] + [[op]] + [list(ms) for ms in before[i:]]

        if strat in (S.NEW, S.NEW_THEN_INLINE):
            exp = [(new_at(k), k + 1)]
        elif strat is S.INLINE:
            if k > 0 and not conflict_moment(op, before[k - 1]):
                exp = [(into(k - 1), k)]
            else:
                exp = [(new_at(k), k + 1)]
        elif strat is S.EARLIEST:
            j = k
            while j > 0 and not conflict_moment(op, before[j - 1]):
                j -= 1
            if j < k:
                exp = [(into(j), None)]
            else:
                exp = [(new_at(k), None)]
                if k < n and not conflict_moment(op, before[k]):
                    exp.append((into(k), None))
        elif strat is S.LATEST:
            if k == n:
                exp = [(new_at(n), n + 1)]
            else:
                j = k
                while j < n and not conflict_moment(op, before[j]):
                    j += 1
                if j == k:
                    exp = [(new_at(k), k + 1)]
                else:
                    exp = [(into(j - 1), j)]
        got_model = [sorted(opkey(o) for o in ms) for ms in after]
        okm = False
        for em, eret in exp:
            if [sorted(opkey(o) for o in ms) for ms in em] == got_model:
                okm = True
                if eret is not None and ret is not None and ret != eret:
                    return f"returned index {ret}, documented 'just after the inserted operation' is {eret} ({strat} at {k})"
        if not okm:
            return (f"placement: single op {opkey(op)} inserted at {k} with {strat} into {[[opkey(o) for o in ms] for ms in before]} "
                    f"gave {got_model}")
    # returned index for all inserts: "the insertion index that will place operations just after the operations that
    # were inserted" => nothing inserted sits at or after it: what is found there are pre-existing operations only
    if ret is not None and "functional" not in info:
        if not (0 <= ret <= len(after)):
            return f"returned index {ret} outside [0, {len(after)}]"
        tail = collections.Counter(opkey(o) for ms in after[ret:] for o in ms)
        old_tail = collections.Counter(opkey(o) for ms in before[min(k, ret):] for o in ms)
        extra = tail - old_tail
        if extra:
            return (f"returned index {ret} is not after everything inserted: moments [{ret}:] hold {sorted(extra.elements())} beyond the "
                    f"pre-existing operations ({strat} insert at {k} of {[opkey(m) if not isinstance(m, cirq.Moment) else repr(m) for m in mops]})")
    return None


def check_exact(before, before_tags, res, info):
    """Exact expected result for the simple mutators (list-of-lists model)."""
    kind = info["exact"]
    after = model(res)
    norm = lambda M: [sorted(opkey(o) for o in ms) for ms in M]
    n = len(before)
    exp = None
    if kind == "same":
        exp = before
        if res.tags != info["tags"]:
            return f"tags {res.tags!r} != {info['tags']!r}"
    elif kind == "same_untouched":
        # map_operations does not promise to keep empty moments
        exp = [ms for ms in before if ms]
        after = [ms for ms in after if ms]
    elif kind == "del":
        i = info["i"]
        exp = [ms for j, ms in enumerate(before) if j != (i % n)]
    elif kind == "delslice":
        exp = list(before)
        del exp[info["i"]:info["j"]]
    elif kind == "setitem":
        exp = list(before)
        exp[info["i"]] = list(info["m"].operations)
    elif kind == "setslice":
        exp = list(before)
        exp[info["i"]:info["j"]] = [list(m.operations) for m in info["ms"]]
    elif kind == "mul":
        exp = list(before) * info["n"]
    elif kind == "clear":
        qs = set(info["qs"])
        exp = [[o for o in ms if not (set(o.qubits) & qs)] if j in info["rng"] else list(ms) for j, ms in enumerate(before)]
    elif kind == "batch_remove":
        exp = [list(ms) for ms in before]
        for i, op in info["spec"]:
            exp[i] = [o for o in exp[i] if o != op]
    elif kind == "batch_replace":
        exp = [list(ms) for ms in before]
        for i, op, new in info["spec"]:
            exp[i] = [new if o == op else o for o in exp[i]]
    elif kind == "batch_insert_into":
        exp = [list(ms) for ms in before]
        for i, op in info["spec"]:
            exp[i] = exp[i] + [op]
    elif kind == "radd":
        exp = model(cirq.Circuit([cirq.Moment(m.operations) for m in rebuild(cirq.Circuit(info["mops"])).moments])) + list(before)
    elif kind == "transform":
        f = {a: b, b: a}
        exp = [[o.transform_qubits(lambda q: f.get(q, q)) for o in ms] for ms in before]
    elif kind == "inverse":
        exp = [[cirq.inverse(o) for o in ms] for ms in reversed(before)]
    elif kind == "reverse":
        exp = list(reversed(before))
    elif kind == "zip":
        o = model(info["other"])
        L = max(len(before), len(o))
        exp = [(list(before[i]) if i < len(before) else []) + (list(o[i]) if i < len(o) else []) for i in range(L)]
    elif kind == "concat_ragged":
        # conservation + per-circuit order only (packing rule is not restated here)
        o = model(info["other"])
        allb = [x for ms in before for x in ms] + [x for ms in o for x in ms]
        if mset([x for ms in after for x in ms]) != mset(allb):
            return "concat_ragged lost or duplicated operations"
        for q in QUERY_QUBITS:
            pred = lambda op: q in op.qubits
            if flat(timeline(after, pred)) != flat(timeline(before, pred)) + flat(timeline(o, pred)):
                return f"concat_ragged reordered operations on {q}"
        return None
    if exp is not None and norm(exp) != norm(after):
        return f"{kind}: expected {norm(exp)} got {norm(after)}"
    return None


def check_transition(init_i, hist, ev):
    """Replays hist on a fresh circuit, applies ev, checks everything.  Returns (Res, canon_after|None, changed)."""
    live = INITS[init_i][1]()
    for h in hist:
        live = apply_event(live, h).circ
    _fp0 = cache_fp(live)
    before_model = model(live)
    before_plain = plain(live)
    before_tags = live.tags
    before_canon = canon(live)
    fresh_src = rebuild(live)
    if canon(live) != before_canon or cache_fp(live) != _fp0:
        raise core.HarnessError("the harness's own observations changed the memo/cache state of the replayed circuit")
    # live
    exc_live = None
    try:
        ap = apply_event(live, ev)
    except core.HarnessError:
        raise
    except Exception as e:  # noqa
        exc_live = e
    exc_fresh = None
    try:
        apf = apply_event(fresh_src, ev)
    except Exception as e:  # noqa
        exc_fresh = e
    if exc_live is not None or exc_fresh is not None:
        if (exc_live is None) != (exc_fresh is None) or type(exc_live) is not type(exc_fresh):
            return (core.bad(f"differential: live circuit {'raised ' + repr(exc_live) if exc_live else 'succeeded'} but the same call on a "
                             f"freshly rebuilt equal circuit {'raised ' + repr(exc_fresh) if exc_fresh else 'succeeded'}",
                             kind="differential_exception"), None, False)
        # both raised the same exception type: documented rejection. batch edits must leave no trace.
        if ev[0].startswith("batch") and plain(live) != before_plain:
            return (core.bad("failed batch edit modified the circuit", kind="batch_not_atomic"), None, False)
        w = wellformed(live)
        if w:
            return (core.bad("after rejected call: " + w, kind="illformed"), None, False)
        return (Res(ok=True, nontrivial=False, counters={"rejected_calls": 1}), None, False)
    res = ap.circ
    info = ap.info
    # the state's canonical form (contents + which memos/caches are filled) is taken *before* the oracle's own queries
    # fill the memos of `res`: successors are replayed without the oracle, so this is the state they really start from
    after_canon = canon(res)
    w = wellformed(res)
    if w:
        return (core.bad(w, kind="illformed"), None, False)
    if "functional" in info and plain(live) != before_plain:
        return (core.bad("functional call modified its receiver", kind="receiver_modified"), None, False)
    # 6. differential
    if plain(res) != plain(apf.circ) and res != apf.circ:
        return (core.bad(f"differential: live result\n{res!r}\n!= result of same call on freshly rebuilt equal circuit\n{apf.circ!r}",
                         kind="differential"), None, False)
    if res != apf.circ or res.tags != apf.circ.tags:
        return (core.bad("differential: results not == ", kind="differential"), None, False)
    if ap.ret != apf.ret and not (info.get("query") and False):
        return (core.bad(f"differential: return value {ap.ret!r} vs {apf.ret!r} on rebuilt circuit", kind="differential_ret"), None, False)
    # 5. queries
    qa = query_agreement(res)
    if qa:
        return (core.bad(qa, kind="query"), None, False)
    if info.get("query") and plain(res) != before_plain:
        return (core.bad("query changed the circuit", kind="query_mutates"), None, False)
    # 2-4 reference model
    modelled = False
    if info.get("ins"):
        msg = check_insert(before_model, model(res), info, ap.ret)
        modelled = True
        if msg:
            return (core.bad(msg, kind="reference_model"), None, False)
    elif "exact" in info:
        msg = check_exact(before_model, before_tags, res, info)
        modelled = True
        if msg:
            return (core.bad(msg, kind="reference_model"), None, False)
    elif "added" in info:
        bef = [o for ms in before_model for o in ms]
        aft = [o for ms in model(res) for o in ms]
        modelled = True
        if mset(aft) != sorted(mset(bef) + mset(info["added"])):
            return (core.bad("conservation violated", kind="reference_model"), None, False)
        for q in QUERY_QUBITS:
            pred = lambda o: q in o.qubits
            old = flat(timeline(before_model, pred))
            new = [opkey(o) for o in info["added"] if pred(o)]
            if not is_interleaving(flat(timeline(model(res), pred)), old, new):
                return (core.bad(f"order on {q}: not an order-preserving merge", kind="reference_model"), None, False)
    changed = after_canon != before_canon
    return (Res(ok=True, nontrivial=changed or modelled, counters={}), after_canon, changed)


# ---------------------------------------------------------------------------------------------
# BFS driver

_EVENTS = None
_TASK_DEPTH = None


def _expand(task):
    init_i, hist, lo, hi = task
    out = []
    viols = []
    n = 0
    nontriv = 0
    rejected = 0
    for ei in range(lo, hi):
        ev = _EVENTS[ei]
        try:
            r, cn, changed = check_transition(init_i, hist, ev)
        except core.HarnessError:
            raise
        except Exception as e:  # harness-side exception: report as violation with traceback
            import traceback
            r, cn, changed = core.bad(f"unexpected {type(e).__name__}: {e}\n{traceback.format_exc(limit=8)}", kind="exception"), None, False
        n += 1
        if r.nontrivial:
            nontriv += 1
        rejected += r.counters.get("rejected_calls", 0)
        if not r.ok:
            if len(viols) < 3:
                viols.append({"index": ei, "case": core.jsonable((init_i, hist, ev)), "msg": r.msg[:3000], "sig": r.sig})
        elif cn is not None:
            out.append((cn, ei))
    return init_i, hist, n, nontriv, rejected, out, viols


def describe(init_i, hist):
    return {"init": INITS[init_i][0], "history": [describe_event(e) for e in hist]}


def describe_event(ev):
    kind = ev[0]
    if kind == "append":
        return f"append({[LNAME[i] for i in ev[2]]}, {STRAT_NAMES[ev[1]]})"
    if kind == "insert":
        return f"insert({ev[1]}, {[LNAME[i] for i in ev[3]]}, {STRAT_NAMES[ev[2]]})"
    return repr(ev)


def bfs(events, depth, inits, max_states_per_level=None):
    global _EVENTS
    _EVENTS = events
    res = StageResult("bfs")
    seen = set()
    frontier = []
    for i in inits:
        cn = canon(INITS[i][1]())
        seen.add((i, cn))
        frontier.append((i, ()))
    transitions = 0
    max_depth = 0
    for d in range(1, depth + 1):
        if not frontier:
            break
        step = 150
        tasks = [(i, h, lo, min(lo + step, len(events))) for i, h in frontier for lo in range(0, len(events), step)]
        outs = core.pmap(_expand, tasks, chunk=1)
        nxt = []
        for init_i, hist, n, nontriv, rejected, out, viols in outs:
            transitions += n
            res.evaluations += n
            res.distinct_nontrivial_extra += nontriv
            res.add_counters({"rejected_calls": rejected})
            for v in viols:
                res.violations.append(v)
            for cn, ei in out:
                if (init_i, cn) not in seen:
                    seen.add((init_i, cn))
                    nxt.append((init_i, hist + (events[ei],)))
        max_depth = d
        if len(res.samples) < 3 and nxt:
            res.samples.append(describe(*nxt[len(nxt) // 2]))
        frontier = nxt
        if res.violations:
            break
    res.add_counters({"states": len(seen), "transitions": transitions, "traces_validated_against_impl": transitions,
                      "max_depth": max_depth, "frontier_left": len(frontier)})
    res.exhaustive = True
    res.note = f"all histories of depth <= {max_depth} over {len(events)} events from {len(inits)} initial circuits (state-deduplicated)"
    if frontier:
        res.samples.append(describe(*frontier[-1]))
    return res


def make_stage(name, events, depth, inits):
    def ex():
        return bfs(events, depth, inits)

    def rp(case):
        global _EVENTS
        init_i, hist, ev = case
        r, _, _ = check_transition(init_i, tuple(hist), ev)
        return r

    return CustomStage(name, ex, rp)


# ---------------------------------------------------------------------------------------------
# Moment algebra and FrozenCircuit views (exhaustive case lists)

MOMENT_BASES = [
    ("Moment()", lambda: cirq.Moment()),
    ("Moment(X(a))", lambda: cirq.Moment(mk(0))),
    ("Moment(X(a),Y(b))", lambda: cirq.Moment(mk(0), mk(1))),
    ("Moment(M(a;m),Z(c)?m)", lambda: cirq.Moment(mk(5), mk(9))),
    ("Moment().with_operation(CZ(a,b))", lambda: cirq.Moment().with_operation(mk(3))),
    ("Moment(X(a)).with_operation(M(b;m))", lambda: cirq.Moment(mk(0)).with_operation(mk(6))),
    ("Moment(X(a)).with_operations(Y(b),Z(c)?m)", lambda: cirq.Moment(mk(0)).with_operations(mk(1), mk(9))),
    ("Moment(X(a),Y(b),Z(c)).without(b)", lambda: cirq.Moment(mk(0), mk(1), mk(2)).without_operations_touching([b])),
    ("Moment(M(c;k)).with_tags", lambda: cirq.Moment(mk(7)).with_tags("mt")),
    ("Moment(GP,X(a))", lambda: cirq.Moment(mk(10), mk(0))),
    ("Moment(X(a)^s)", lambda: cirq.Moment(mk(11))),
]


def _moment_events():
    ev = []
    for li in range(NOPS):
        ev.append(("with_operation", (li,)))
    for pair in itertools.product(range(NOPS), repeat=2):
        ev.append(("with_operations", pair))
        ev.append(("add", pair))
    for li in range(NOPS):
        ev.append(("sub", (li,)))
    ev.append(("sub", (0, 1)))
    for k in range(4):
        for sub in itertools.combinations(range(3), k):
            ev.append(("without", sub))
            ev.append(("getitem", sub))
    ev.append(("with_tags", ()))
    ev.append(("expand_to", (0, 1, 2)))
    return ev


MOMENT_EVENTS = _moment_events()


def moment_queries(m):
    return (m.qubits, cirq.measurement_key_objs(m), cirq.control_keys(m), cirq.is_parameterized(m),
            frozenset(cirq.parameter_names(m)), tuple(m.operates_on([q]) for q in QUERY_QUBITS),
            tuple(m.operation_at(q) for q in QUERY_QUBITS), tuple(sorted(opkey(o) for o in m.operations)), len(m),
            cirq.is_measurement(m), tuple(sorted(map(opkey, m._sorted_operations_()))))


def run_moment(case):
    bi, warm, ei = case
    base = MOMENT_BASES[bi][1]()
    if warm:
        moment_queries(base)  # populate the lazy caches first
    before_ops = list(base.operations)
    kind, arg = MOMENT_EVENTS[ei]
    exp = None
    exp_exc = None
    try:
        if kind == "with_operation":
            op = mk(arg[0])
            if set(op.qubits) & set(base.qubits):
                exp_exc = ValueError
            exp = before_ops + [op]
            got = base.with_operation(op)
        elif kind in ("with_operations", "add"):
            ops_ = [mk(i) for i in arg]
            qs = [q for o in before_ops + ops_ for q in o.qubits]
            if len(qs) != len(set(qs)):
                exp_exc = ValueError
            exp = before_ops + ops_
            got = base.with_operations(*ops_) if kind == "with_operations" else base + ops_
        elif kind == "sub":
            ops_ = [mk(i) for i in arg]
            rest = list(before_ops)
            for o in ops_:
                if o in rest:
                    rest.remove(o)
                else:
                    exp_exc = ValueError
            exp = rest
            got = base - ops_
        elif kind == "without":
            qs = {QUERY_QUBITS[i] for i in arg}
            exp = [o for o in before_ops if not (set(o.qubits) & qs)]
            got = base.without_operations_touching(qs)
        elif kind == "getitem":
            qs = {QUERY_QUBITS[i] for i in arg}
            exp = [o for o in before_ops if set(o.qubits) & qs]
            got = base[list(qs)]
        elif kind == "with_tags":
            exp = before_ops
            got = base.with_tags("zz")
            if got.tags != base.tags + ("zz",):
                return bad(f"Moment.with_tags: tags {got.tags}")
        elif kind == "expand_to":
            qs = [QUERY_QUBITS[i] for i in arg]
            exp = before_ops + [cirq.I(q) for q in qs if q not in base.qubits]
            got = base.expand_to(qs)
    except Exception as e:  # noqa
        if exp_exc is not None and isinstance(e, exp_exc):
            if list(base.operations) != before_ops:
                return bad("rejected Moment edit modified the receiver")
            return Res(ok=True, nontrivial=False, counters={"rejected_calls": 1})
        raise
    if exp_exc is not None:
        return bad(f"{MOMENT_BASES[bi][0]} {kind}{arg}: overlapping / missing operations were accepted: {got!r}")
    if list(base.operations) != before_ops:
        return bad("Moment edit modified the receiver")
    fresh = cirq.Moment(exp)
    if sorted(map(opkey, got.operations)) != sorted(map(opkey, exp)):
        return bad(f"{MOMENT_BASES[bi][0]} {kind}{arg}: operations {got.operations!r}, expected {exp!r}")
    if kind in ("with_operation", "with_operations", "add") and [opkey(o) for o in got.operations] != [opkey(o) for o in exp]:
        return bad(f"{MOMENT_BASES[bi][0]} {kind}{arg}: stored order {got.operations!r}, expected {exp!r}")
    qg, qf = moment_queries(got), moment_queries(fresh)
    if qg != qf:
        i = next(i for i, (x, y) in enumerate(zip(qg, qf)) if x != y)
        return bad(f"{MOMENT_BASES[bi][0]} (caches {'warm' if warm else 'cold'}) {kind}{arg}: query #{i} = {qg[i]!r}, "
                   f"a freshly built equal moment answers {qf[i]!r}")
    if dict(got._qubit_to_op) != dict(fresh._qubit_to_op):
        return bad(f"{MOMENT_BASES[bi][0]} {kind}{arg}: qubit->operation map inconsistent")
    if kind != "with_tags" and not got.tags and (got != fresh or hash(got) != hash(fresh)):
        return bad(f"{MOMENT_BASES[bi][0]} {kind}{arg}: result != Moment(expected ops) or hashes differ")
    return good()


def moment_cases():
    return [(bi, warm, ei) for bi in range(len(MOMENT_BASES)) for warm in (0, 1) for ei in range(len(MOMENT_EVENTS))]


def frozen_queries(fc):
    n = len(fc)
    return (fc.all_qubits(), fc.all_measurement_key_objs(), fc.all_measurement_key_names(), cirq.control_keys(fc),
            cirq.is_parameterized(fc), frozenset(cirq.parameter_names(fc)), fc.has_measurements(), cirq.is_measurement(fc),
            fc.are_all_measurements_terminal(), tuple(fc.all_operations()), cirq.num_qubits(fc), cirq.qid_shape(fc),
            cirq.has_unitary(fc), tuple(fc.next_moment_operating_on([q], s) for q in QUERY_QUBITS for s in range(n + 1)))


FROZEN_DERIVE = ["freeze", "ctor", "unfreeze_freeze", "add_empty", "mul1", "with_tags_untagged", "double_inverse", "from_moments",
                 "hashed_then_with_tags", "queried_then_with_tags"]


def run_frozen(case):
    seq, di = case
    ops_ = [mk(i) for i in seq]
    live = cirq.Circuit(ops_)
    ref = rebuild(live).freeze()
    how = FROZEN_DERIVE[di]
    if how == "freeze":
        fc = live.freeze()
    elif how == "ctor":
        fc = cirq.FrozenCircuit(ops_)
    elif how == "unfreeze_freeze":
        fc = live.freeze().unfreeze().freeze()
    elif how == "add_empty":
        fc = live.freeze() + cirq.FrozenCircuit()
    elif how == "mul1":
        fc = live.freeze() * 1
    elif how == "with_tags_untagged":
        fc = live.freeze().with_tags("x").untagged
    elif how == "double_inverse":
        inv = cirq.inverse(live.freeze(), None)
        if inv is None:
            return Res(skipped=True, nontrivial=False)
        fc = cirq.inverse(inv)
        # inverse of inverse: same operations up to value equality of gates
    elif how in ("hashed_then_with_tags", "queried_then_with_tags"):
        fc0 = live.freeze()
        if how == "hashed_then_with_tags":
            hash(fc0)
            {fc0: 1}
        else:
            frozen_queries(fc0)
        fc = fc0.with_tags("x")
        ref = cirq.FrozenCircuit(rebuild(live).moments, tags=("x",))
        if fc.tags != ("x",) or fc0.tags != ():
            return bad(f"{how}: tags {fc.tags!r} / source {fc0.tags!r}")
        if fc == fc0 and len(seq) >= 0 and hash(fc) == hash(fc0) and False:
            pass
    else:
        fc = cirq.FrozenCircuit.from_moments(*[list(m.operations) for m in live.moments])
    if not isinstance(fc, cirq.FrozenCircuit):
        return bad(f"{how}: result is {type(fc).__name__}, not FrozenCircuit")
    q1 = frozen_queries(fc)
    q2 = frozen_queries(fc)  # cached answers asked twice
    if q1 != q2:
        return bad(f"{how} of {[LNAME[i] for i in seq]}: a cached FrozenCircuit query changed between two calls")
    if how != "double_inverse":
        if fc != ref or hash(fc) != hash(ref):
            return bad(f"{how} of {[LNAME[i] for i in seq]}: frozen circuit != rebuilt frozen circuit or hashes differ\n{fc!r}\n{ref!r}")
        qr = frozen_queries(ref)
        if q1 != qr:
            i = next(i for i, (x, y) in enumerate(zip(q1, qr)) if x != y)
            return bad(f"{how} of {[LNAME[i] for i in seq]}: query #{i} = {q1[i]!r}, rebuilt frozen circuit answers {qr[i]!r}")
        ql = queries(live)
        if (ql[0], ql[1], ql[2], ql[3]) != (q1[0], q1[1], q1[4], q1[5]):
            return bad(f"{how} of {[LNAME[i] for i in seq]}: frozen and unfrozen views disagree on qubits/keys/parameters")
    else:
        if cirq.has_unitary(ref):
            import numpy as np
            u1 = cirq.unitary(fc)
            u2 = cirq.unitary(ref)
            if not np.allclose(u1, u2, atol=1e-8):
                return bad(f"inverse(inverse(c)) has a different unitary for {[LNAME[i] for i in seq]}")
    return good(nontrivial=len(seq) >= 2)


def frozen_cases(tier):
    L = 2 if tier == "quick" else 3
    letters = list(range(NOPS))
    out = []
    for n in range(0, L + 1):
        for seq in itertools.product(letters, repeat=n):
            # a control on 'm' needs an earlier measurement of 'm' only at run time; construction is fine
            for di in range(len(FROZEN_DERIVE)):
                out.append((seq, di))
    return out


def self_test():
    """Determinism: one recorded history replayed twice gives identical observations."""
    ev = build_events("medium")
    h = (ev[3], ev[50], ("q", "freeze"))
    o1 = check_transition(1, h, ev[7])
    o2 = check_transition(1, h, ev[7])
    if o1[1] != o2[1]:
        raise core.HarnessError("C05 replay is not deterministic")


def stages(tier, seed):
    self_test()
    cev = core_events()
    inits = list(range(len(INITS)))
    extra = [core.CaseStage("moment_algebra", moment_cases(), run_moment),
             core.CaseStage("frozen_circuit_views", frozen_cases(tier), run_frozen)]
    if tier == "quick":
        return extra + [
            make_stage("bfs_full_alphabet_depth1", build_events("full"), 1, inits),
            make_stage("bfs_medium_alphabet_depth2", build_events("medium"), 2, inits[:2]),
            make_stage("bfs_core_alphabet_depth3", cev, 3, inits[:3]),
        ]
    return extra + [
        make_stage("bfs_full_alphabet_depth1", build_events("full"), 1, inits),
        make_stage("bfs_large_alphabet_depth2", build_events("large"), 2, inits[:3]),
        make_stage("bfs_medium_alphabet_depth2_other_inits", build_events("medium"), 2, inits[3:]),
        make_stage("bfs_core_alphabet_depth4", cev, 4, inits[:3]),
    ]
