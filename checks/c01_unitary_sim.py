"""C01 -- unitary simulation equals the ordered product of operation matrices.

Programs = all sequences (length <= L) of placed operations over a small wire set, in three moment
layouts.  For every program the reference is the plain-numpy product (mc.ref.embed) of
``cirq.unitary(op)`` in program order applied to the reference initial vector; the amplitudes are
permuted to the requested qubit order with an explicit permutation matrix.  Every simulation entry
point x option combination listed in DESIGN.md (C01) must reproduce that vector / matrix / density
matrix, INCLUDING the global phase, for every way of giving the initial state and every qubit order.
"""
from __future__ import annotations

import functools
import itertools
import traceback

import numpy as np
import sympy
import cirq

from mc import core
from mc.core import CaseStage, Res, bad, good
from mc.ref import embed as E

PROPERTY = "C01"
LEVEL = "exploration"
RULE = ("programs = every sequence (length<=L) of placed-op letters (1q/2q/3q in-place kernels on every axis, permuted-axis "
        "matrix gates, controlled gates, identity, global phase, sub-circuit op, qutrit letters) x 3 moment layouts "
        "(EARLIEST-packed / one op per moment / explicit moments separated by empty moments) x qubit order (default, "
        "sorted, reversed, rotated, with an extra idle qubit) x initial-state form (default, every basis index, digit list, "
        "product-state object, generic vector flat/tensor/complex64, density matrix) x entry point & options (Circuit.unitary "
        "c64/c128/extra qubits, Circuit.final_state_vector, cirq.final_state_vector, terminal-measurement variants, "
        "Simulator/DensityMatrixSimulator dtype x split_untangled_states via simulate / simulate_moment_steps / "
        "simulate_sweep with every parameterisation mask, cirq.final_density_matrix, ClassicalStateSimulator "
        "run/simulate/steps); a dedicated stage gives every entry point every ndarray initial-state form (flat, tensor, "
        "density matrix; dtype equal to and different from the simulator's; split on/off) and demands that the caller's "
        "array is bit-identical afterwards and that reusing the same array object gives the same result as a fresh copy; "
        "the full cross product is enumerated for L<=1 and fixed sub-products for longer programs; "
        "a case is non-trivial when two ops share a wire or a multi-wire op sits on non-default axes; distinct = distinct "
        "(alphabet, ops, layout, order, state form, configuration) descriptor")
TECHNIQUE = ("bounded-exhaustive enumeration of programs x layouts x qubit orders x initial-state forms x simulator "
             "configurations against an independent plain-numpy matrix-product reference (exact global phase)")
LEVEL_TEXT = ("Every program over the placed-op alphabet up to the length bound is run through every listed simulation entry "
              "point and option combination and its complete output (state vector, unitary, density matrix, every intermediate "
              "moment step, every sweep point, classical bits) is compared entrywise, including global phase, with the ordered "
              "product of the operations' matrices computed by an independent big-endian embedding. Exhaustive within the "
              "alphabet / length / wire-count bound; no sampling.")
LEVEL_NOTE = ("trusted: numpy; cirq.unitary of a single operation and cirq.resolve_parameters of a single operation (tied to "
              "closed forms by C03/C04/C10); Circuit construction keeps program order of conflicting ops (C05)")
ASSUMPTIONS = [
    "cirq.unitary(op) of a single operation is correct (C03/C04); it does not use the in-place _apply_unitary_ kernels "
    "for the eigen-gates of the alphabet",
    "cirq.resolve_parameters of a single operation is correct (C10) -- used only for sweep references",
    "cirq.Circuit(ops) keeps the program order of operations that share a qubit (C05)",
    "numpy linear algebra",
]

# ------------------------------------------------------------------------------------------------
# wires

A, B, C = cirq.LineQubit(0), cirq.LineQubit(2), cirq.LineQubit(4)
T = cirq.LineQid(3, dimension=3)  # sorts between B and C
Dq = cirq.LineQubit(6)
IDLE = cirq.LineQubit(1)  # never touched by a letter; sorts between A and B
AX = [cirq.LineQubit(10 + i) for i in range(6)]
SYM = sympy.Symbol("s")

DT = {"c128": np.complex128, "c64": np.complex64}


class Letter:
    __slots__ = ("name", "op", "core", "pform")

    def __init__(self, name, op, core=False):
        self.name = name
        self.op = op
        self.core = core
        self.pform = None


def _param_form(op):
    """op ** s (s a Symbol) when the operation supports it and the result resolves back to a unitary op."""
    try:
        p = cirq.pow(op, SYM, None)
        if p is None or not cirq.is_parameterized(p):
            return None
        for v in (1, 0.3):
            r = cirq.resolve_parameters(p, {"s": v})
            if cirq.is_parameterized(r) or not cirq.has_unitary(r):
                return None
            cirq.unitary(r)
        return p
    except Exception:
        return None


def _main_letters(seed):
    g = core.generic(seed)
    g2 = core.generic(seed, 2)
    g3 = core.generic(seed, 4)
    m1 = E.generic_unitary(2, seed)
    m2 = E.generic_unitary(4, seed + 1)
    m3 = E.generic_unitary(3, seed + 2)
    m6 = E.generic_unitary(6, seed + 3)
    m8 = E.generic_unitary(8, seed + 4)
    L = []

    def add(name, op, core_=False):
        L.append(Letter(name, op, core_))

    # single-qubit in-place kernels at axis 0 / middle / last
    for q, qn in ((A, "a"), (B, "b"), (C, "c")):
        add(f"X({qn})", cirq.X(q), core_=qn in "ab")
        add(f"X({qn})^0.5", cirq.X(q) ** 0.5)
        add(f"Y({qn})^g", cirq.Y(q) ** g, core_=qn == "b")
        add(f"Z({qn})^0.25", cirq.Z(q) ** 0.25, core_=qn == "a")
        add(f"H({qn})", cirq.H(q), core_=qn == "c")
        add(f"H({qn})^0.5", cirq.H(q) ** 0.5)
    add("Y(b)", cirq.Y(B))
    add("rx(g)(a)", cirq.rx(g).on(A))
    add("ry(g)(c)", cirq.ry(g2).on(C))
    add("rz(g)(b)", cirq.rz(g3).on(B))
    add("XPow(e=1,shift=g)(b)", cirq.XPowGate(exponent=1, global_shift=g).on(B))
    add("HPow(e=1,shift=g)(a)", cirq.HPowGate(exponent=1, global_shift=g2).on(A))
    add("M1(b)", cirq.MatrixGate(m1).on(B), core_=True)
    # two-qubit
    add("CNOT(a,b)", cirq.CNOT(A, B), core_=True)
    add("CNOT(b,a)", cirq.CNOT(B, A))
    add("CNOT(a,c)", cirq.CNOT(A, C))
    add("CNOT(c,a)", cirq.CNOT(C, A), core_=True)
    add("CNOT(b,c)^0.5", cirq.CNOT(B, C) ** 0.5)
    add("CZ(b,c)^g", cirq.CZ(B, C) ** g, core_=True)
    add("CZ(c,a)", cirq.CZ(C, A))
    add("SWAP(a,c)", cirq.SWAP(A, C), core_=True)
    add("SWAP(b,c)", cirq.SWAP(B, C))
    add("SWAP(a,b)^0.5", cirq.SWAP(A, B) ** 0.5, core_=True)
    add("SWAP(c,a)^3", cirq.SWAP(C, A) ** 3)
    add("SwapPow(e=1,shift=g)(a,b)", cirq.SwapPowGate(exponent=1, global_shift=g2).on(A, B))
    add("ISWAP(b,c)^0.5", cirq.ISWAP(B, C) ** 0.5, core_=True)
    add("ISWAP(b,a)", cirq.ISWAP(B, A))
    add("ZZ(a,c)^g", cirq.ZZ(A, C) ** g3)
    add("FSim(g,g')(c,b)", cirq.FSimGate(theta=g, phi=g2).on(C, B))
    add("M2(c,a)", cirq.MatrixGate(m2).on(C, A), core_=True)
    add("M2(a,b)", cirq.MatrixGate(m2).on(A, B))
    add("C0-Y^g(b,a)", cirq.ControlledGate(cirq.Y ** g, control_values=[0]).on(B, A), core_=True)
    add("I2(a,c)", cirq.IdentityGate(2).on(A, C))
    add("X(a)*Y(c)*1j", cirq.PauliString({A: cirq.X, C: cirq.Y}, coefficient=1j))
    # three-qubit
    add("CCX(a,b,c)", cirq.CCX(A, B, C))
    add("CCX(c,a,b)", cirq.CCX(C, A, B), core_=True)
    add("CCZ(b,c,a)^g", cirq.CCZ(B, C, A) ** g)
    add("CSWAP(a,b,c)", cirq.CSWAP(A, B, C), core_=True)
    add("CSWAP(b,c,a)", cirq.CSWAP(B, C, A))
    add("M3q(b,c,a)", cirq.MatrixGate(m8).on(B, C, A))
    add("Perm[1,2,0](a,b,c)", cirq.QubitPermutationGate([1, 2, 0]).on(A, B, C))
    add("SUB[H(a),CNOT(c,b)]", cirq.CircuitOperation(cirq.FrozenCircuit(cirq.H(A), cirq.CNOT(C, B))))
    # no qubits
    add("GP(e^ig)", cirq.global_phase_operation(np.exp(1j * g)), core_=True)
    # qutrit letters
    add("X3(t)", cirq.XPowGate(dimension=3).on(T))
    add("X3(t)^g", cirq.XPowGate(dimension=3, exponent=g).on(T))
    add("Z3(t)^g", cirq.ZPowGate(dimension=3, exponent=g2).on(T))
    add("M3(t)", cirq.MatrixGate(m3, qid_shape=(3,)).on(T))
    add("Ct=2-X(t,a)", cirq.ControlledGate(cirq.X, control_values=[2], control_qid_shape=(3,)).on(T, A))
    add("C-X3(b,t)", cirq.ControlledGate(cirq.XPowGate(dimension=3)).on(B, T))
    add("M23(c,t)", cirq.MatrixGate(m6, qid_shape=(2, 3)).on(C, T))
    return L


def _n4_letters(seed):
    g = core.generic(seed, 1)
    m1 = E.generic_unitary(2, seed + 5)
    m2 = E.generic_unitary(4, seed + 6)
    L = []

    def add(name, op):
        L.append(Letter(name, op, True))

    add("X(a)", cirq.X(A))
    add("X(d)", cirq.X(Dq))
    add("H(b)", cirq.H(B))
    add("H(d)", cirq.H(Dq))
    add("Y(c)^g", cirq.Y(C) ** g)
    add("Z(d)^0.25", cirq.Z(Dq) ** 0.25)
    add("M1(c)", cirq.MatrixGate(m1).on(C))
    add("CNOT(a,d)", cirq.CNOT(A, Dq))
    add("CNOT(d,b)", cirq.CNOT(Dq, B))
    add("CNOT(b,c)", cirq.CNOT(B, C))
    add("CZ(c,d)^g", cirq.CZ(C, Dq) ** g)
    add("SWAP(b,d)", cirq.SWAP(B, Dq))
    add("SWAP(a,c)^0.5", cirq.SWAP(A, C) ** 0.5)
    add("ISWAP(d,a)", cirq.ISWAP(Dq, A))
    add("M2(d,a)", cirq.MatrixGate(m2).on(Dq, A))
    add("M2(b,c)", cirq.MatrixGate(m2).on(B, C))
    add("C0-Y^g(c,a)", cirq.ControlledGate(cirq.Y ** g, control_values=[0]).on(C, A))
    add("CCX(d,a,c)", cirq.CCX(Dq, A, C))
    add("CCX(a,b,d)", cirq.CCX(A, B, Dq))
    add("CSWAP(b,d,a)", cirq.CSWAP(B, Dq, A))
    add("CCZ(a,c,d)^g", cirq.CCZ(A, C, Dq) ** g)
    add("GP(e^ig)", cirq.global_phase_operation(np.exp(1j * g)))
    add("CC0-X(d,b;c)", cirq.X(C).controlled_by(Dq, B, control_values=[1, 0]))
    return L


def _axis_letters(seed, n):
    g = core.generic(seed, 3)
    m1 = E.generic_unitary(2, seed + 7)
    m2 = E.generic_unitary(4, seed + 8)
    m8 = E.generic_unitary(8, seed + 9)
    qs = AX[:n]
    kinds1 = [("X", cirq.X), ("H", cirq.H), ("Y^g", cirq.Y ** g), ("M1", cirq.MatrixGate(m1))]
    kinds2 = [("CNOT", cirq.CNOT), ("CZ^g", cirq.CZ ** g), ("SWAP", cirq.SWAP), ("SWAP^0.5", cirq.SWAP ** 0.5),
              ("ISWAP", cirq.ISWAP), ("M2", cirq.MatrixGate(m2)), ("C0-Y^g", cirq.ControlledGate(cirq.Y ** g, control_values=[0]))]
    kinds3 = [("CCX", cirq.CCX), ("CSWAP", cirq.CSWAP), ("CCZ^g", cirq.CCZ ** g), ("M3q", cirq.MatrixGate(m8))]
    L = []
    for k, kinds in ((1, kinds1), (2, kinds2), (3, kinds3)):
        for name, gate in kinds:
            for place in itertools.permutations(range(n), k):
                L.append(Letter(f"{name}{list(place)}", gate.on(*[qs[i] for i in place]), True))
    return L


def _cl_letters(seed):
    L = []

    def add(name, op):
        L.append(Letter(name, op, True))

    add("X(a)", cirq.X(A))
    add("X(b)", cirq.X(B))
    add("X(c)", cirq.X(C))
    add("X(b)^2", cirq.X(B) ** 2)
    add("X(a)^-1", cirq.X(A) ** -1)
    add("CNOT(a,b)", cirq.CNOT(A, B))
    add("CNOT(c,a)", cirq.CNOT(C, A))
    add("CNOT(b,c)", cirq.CNOT(B, C))
    add("CCX(a,b,c)", cirq.CCX(A, B, C))
    add("CCX(c,a,b)", cirq.CCX(C, A, B))
    add("SWAP(a,c)", cirq.SWAP(A, C))
    add("SWAP(b,a)", cirq.SWAP(B, A))
    add("CSWAP(a,b,c)", cirq.CSWAP(A, B, C))
    add("CSWAP(c,b,a)", cirq.CSWAP(C, B, A))
    add("C0-X(b,c)", cirq.ControlledGate(cirq.X, control_values=[0]).on(B, C))
    add("Perm[1,2,0](a,b,c)", cirq.QubitPermutationGate([1, 2, 0]).on(A, B, C))
    add("Perm[1,2,0](c,a,b)", cirq.QubitPermutationGate([1, 2, 0]).on(C, A, B))
    return L


ALPH: dict = {}
WIRES = {"main": (A, B, C), "cl": (A, B, C), "n4": (A, B, C, Dq), "ax5": tuple(AX[:5]), "ax6": tuple(AX[:6])}
_SEED = 0


def _init(seed):
    global _SEED
    _SEED = seed
    ALPH.clear()
    ALPH["main"] = _main_letters(seed)
    ALPH["n4"] = _n4_letters(seed)
    ALPH["ax5"] = _axis_letters(seed, 5)
    ALPH["ax6"] = _axis_letters(seed, 6)
    ALPH["cl"] = _cl_letters(seed)
    for L in ALPH["main"]:
        L.pform = _param_form(L.op)
    _emb.cache_clear()
    _emb_res.cache_clear()
    _perm.cache_clear()
    _ref_u.cache_clear()
    _gen_state.cache_clear()


# ------------------------------------------------------------------------------------------------
# registers and qubit orders

ORDER_NAMES = ["default", "sorted-explicit", "reversed", "rotated", "with-extra-idle-qubit"]


def _touched(alph, seq):
    return sorted({q for li in seq for q in ALPH[alph][li].op.qubits})


def _wireset(alph, seq):
    W = set(WIRES[alph])
    W.update(_touched(alph, seq))
    return sorted(W)


def _order(alph, seq, oi, present_idle=False):
    """(qubit_order argument or None, register in requested order)."""
    if oi == 0:
        reg = _touched(alph, seq)
        if present_idle:
            reg = sorted(set(reg) | {IDLE})
        return None, tuple(reg)
    W = _wireset(alph, seq)
    if oi == 1:
        qs = W
    elif oi == 2:
        qs = W[::-1]
    elif oi == 3:
        qs = W[1:] + W[:1]
    elif oi == 4:
        qs = [W[1], IDLE] + W[2:] + [W[0]]
    else:
        raise core.HarnessError(f"order {oi}")
    return list(qs), tuple(qs)


# ------------------------------------------------------------------------------------------------
# reference (plain numpy; cirq is used only for cirq.unitary of ONE operation)


@functools.lru_cache(maxsize=20000)
def _emb(alph, li, canon):
    op = ALPH[alph][li].op
    shape = tuple(q.dimension for q in canon)
    return E.embed(cirq.unitary(op), [canon.index(q) for q in op.qubits], shape)


@functools.lru_cache(maxsize=20000)
def _emb_res(alph, li, pi, canon):
    """embedding of the parameterised form of letter li resolved at sweep point pi."""
    op = cirq.resolve_parameters(ALPH[alph][li].pform, {"s": _points()[pi]})
    shape = tuple(q.dimension for q in canon)
    return E.embed(cirq.unitary(op), [canon.index(q) for q in op.qubits], shape)


@functools.lru_cache(maxsize=4000)
def _perm(canon, qs):
    shape = tuple(q.dimension for q in canon)
    return E.permute_wires([qs.index(q) for q in canon], shape)


@functools.lru_cache(maxsize=4000)
def _ref_u(alph, seq, qs):
    """Unitary of the program in the REQUESTED order qs: P (prod of embedded matrices in sorted order) P^T."""
    canon = tuple(sorted(qs))
    D = int(np.prod([q.dimension for q in canon])) if canon else 1
    U = np.eye(D, dtype=np.complex128)
    for li in seq:
        U = _emb(alph, li, canon) @ U
    P = _perm(canon, qs)
    return P @ U @ P.T


def _ref_matrix_of_ops(alph, lis, qs, res_points=None):
    canon = tuple(sorted(qs))
    D = int(np.prod([q.dimension for q in canon])) if canon else 1
    U = np.eye(D, dtype=np.complex128)
    for j, li in enumerate(lis):
        if res_points is not None and res_points[j] is not None:
            U = _emb_res(alph, li, res_points[j], canon) @ U
        else:
            U = _emb(alph, li, canon) @ U
    P = _perm(canon, qs)
    return P @ U @ P.T


def _points():
    return (1, core.generic(_SEED, 5), core.generic(_SEED, 6))


@functools.lru_cache(maxsize=64)
def _gen_state(D, salt):
    return E.generic_state(D, _SEED * 31 + salt)


# ------------------------------------------------------------------------------------------------
# initial-state forms (always expressed in the REQUESTED qubit order)

PS_STATES = [cirq.KET_PLUS, cirq.KET_IMAG, cirq.KET_ONE, cirq.KET_MINUS, cirq.KET_MINUS_IMAG, cirq.KET_ZERO]
PS_VECS = [np.array([1, 1]) / np.sqrt(2), np.array([1, 1j]) / np.sqrt(2), np.array([0, 1]), np.array([1, -1]) / np.sqrt(2),
           np.array([1, -1j]) / np.sqrt(2), np.array([1, 0])]


def _digits(k, dims):
    out = []
    for d in reversed(dims):
        out.append(k % d)
        k //= d
    return list(reversed(out))


def _init_state(init, qs):
    """-> (kwargs value or None (omit), reference vector in requested order) or None when not applicable."""
    dims = [q.dimension for q in qs]
    D = int(np.prod(dims)) if dims else 1
    kind = init[0]
    if kind == "z":
        v = np.zeros(D, dtype=np.complex128)
        v[0] = 1
        return None, v
    if kind in ("b", "d"):
        k = init[1] % D
        v = np.zeros(D, dtype=np.complex128)
        v[k] = 1
        if kind == "b":
            return k, v
        if not dims or len(dims) == D:
            return None
        return _digits(k, dims), v
    if kind == "v":
        psi = _gen_state(D, 1)
        form = init[1]
        if form == "flat128":
            return psi.copy(), psi
        if form == "tensor128":
            if not dims:
                return None
            return psi.copy().reshape(dims), psi
        if form == "flat64":
            p64 = psi.astype(np.complex64)
            return p64, p64.astype(np.complex128)
        raise core.HarnessError(f"vector form {form}")
    if kind == "rho":
        psi = _gen_state(D, 1)
        return np.outer(psi, psi.conj()), psi
    if kind == "ps":
        if any(d != 2 for d in dims) or not dims:
            return None
        canon = sorted(qs)
        states = {q: PS_STATES[(canon.index(q) + init[1]) % len(PS_STATES)] for q in qs}
        obj = None
        for q in canon:
            obj = states[q](q) if obj is None else obj * states[q](q)
        v = np.ones(1, dtype=np.complex128)
        for q in qs:  # requested order
            v = np.kron(v, PS_VECS[(canon.index(q) + init[1]) % len(PS_STATES)])
        return obj, v
    raise core.HarnessError(f"init {init}")


# ------------------------------------------------------------------------------------------------
# circuits

LAYOUT_NAMES = ["earliest-packed", "one-op-per-moment", "explicit-moments+empty-separators"]


def _build(ops, layout):
    if layout == 0:
        return cirq.Circuit(ops)
    if layout == 1:
        return cirq.Circuit([cirq.Moment(o) for o in ops])
    groups = []
    cur = []
    used = set()
    for o in ops:
        if any(q in used for q in o.qubits):
            groups.append(cur)
            cur = []
            used = set()
        cur.append(o)
        used.update(o.qubits)
    if cur:
        groups.append(cur)
    moments = []
    for i, g_ in enumerate(groups):
        if i:
            moments.append(cirq.Moment())
        moments.append(cirq.Moment(g_))
    return cirq.Circuit(moments)


# ------------------------------------------------------------------------------------------------
# configurations

CFGS = [
    ("U", "c128", None), ("U", "c64", None), ("U+idle", "c128", None), ("U_meas", "c128", None),
    ("Cfsv", "c128", None), ("Cfsv", "c64", None), ("fsv", "c64", None), ("fsv", "c128", None),
    ("Cfsv_meas", "c128", None), ("fsv_meas", "c64", None),
    ("sim", "c128", False), ("sim", "c128", True), ("sim", "c64", False), ("sim", "c64", True),
    ("steps", "c128", False), ("steps", "c128", True), ("steps", "c64", False), ("steps", "c64", True),
    ("dm", "c128", False), ("dm", "c128", True), ("dm", "c64", False), ("dm", "c64", True),
    ("dmsteps", "c128", False), ("dmsteps", "c128", True),
    ("fdm", "c64", None), ("fdm", "c128", None),
]
CI = {c: i for i, c in enumerate(CFGS)}
UNITARY_KINDS = ("U", "U+idle", "U_meas")
DM_KINDS = ("dm", "dmsteps")
CORE_CFGS = [CI[c] for c in [("U", "c128", None), ("sim", "c128", False), ("sim", "c128", True), ("sim", "c64", False),
                             ("sim", "c64", True), ("steps", "c128", False), ("steps", "c128", True), ("steps", "c64", True),
                             ("dm", "c128", False), ("dm", "c128", True), ("dm", "c64", True)]]
WRAP_CFGS = [i for i in range(len(CFGS)) if i not in CORE_CFGS]


def _tol(dt, nops):
    return 1e-8 if dt == "c128" else 3e-6 * max(1, nops)


def _cmp(what, ref, got, atol, ctx):
    got = np.asarray(got)
    ref = np.asarray(ref)
    if got.shape != ref.shape:
        return bad(f"{what}: shape {got.shape}, reference {ref.shape}\n{ctx()}", kind="shape", what=what)
    got = got.astype(np.complex128)
    if not np.all(np.isfinite(got)):
        return bad(f"{what}: non-finite entries\n{ctx()}", kind="nan", what=what)
    err = float(np.max(np.abs(got - ref))) if ref.size else 0.0
    if err > atol:
        up = E.eq_up_to_phase(ref, got, atol=atol)
        i = int(np.argmax(np.abs(got - ref)))
        return bad(f"{what}: max |got-ref| = {err:.3e} > {atol:g} at flat index {i}: got {got.flat[i]:.6f} reference {ref.flat[i]:.6f}"
                   f" ({'equal up to a global phase' if up else 'differs beyond a global phase'})\n{ctx()}",
                   kind="phase" if up else "value", what=what)
    return None


def _nontrivial(ops, qs):
    seen = set()
    for o in ops:
        if any(q in seen for q in o.qubits):
            return True
        seen.update(o.qubits)
    for o in ops:
        if len(o.qubits) >= 2 and tuple(qs.index(q) for q in o.qubits) != tuple(range(len(o.qubits))):
            return True
    return False


def _run_entry(cfg, circ, qarg, qs, istate, has_init, touched):
    """Execute one entry point.  Returns (kind_of_result, value)."""
    kind, dt, split = cfg
    kw = {}
    if qarg is not None:
        kw["qubit_order"] = qarg
    ikw = dict(kw)
    if has_init:
        ikw["initial_state"] = istate
    dtype = DT[dt]
    if kind == "U":
        return "unitary", circ.unitary(dtype=dtype, **kw)
    if kind == "U+idle":
        return "unitary", circ.unitary(dtype=dtype, qubits_that_should_be_present=[IDLE], **kw)
    if kind in ("U_meas", "Cfsv_meas", "fsv_meas"):
        mc = circ + cirq.Circuit(cirq.Moment(cirq.measure(*touched, key="m"))) if touched else circ
        if kind == "U_meas":
            return "unitary", mc.unitary(dtype=dtype, **kw)
        if kind == "Cfsv_meas":
            return "vec", mc.final_state_vector(ignore_terminal_measurements=True, dtype=dtype, **ikw)
        return "vec", cirq.final_state_vector(mc, ignore_terminal_measurements=True, dtype=dtype, **ikw)
    if kind == "Cfsv":
        if dt == "c128":
            return "vec", circ.final_state_vector(**ikw)  # documented default dtype
        return "vec", circ.final_state_vector(dtype=dtype, **ikw)
    if kind == "fsv":
        if dt == "c64":
            return "vec", cirq.final_state_vector(circ, **ikw)
        return "vec", cirq.final_state_vector(circ, dtype=dtype, **ikw)
    if kind == "fdm":
        if dt == "c64":
            return "rho", cirq.final_density_matrix(circ, **ikw)
        return "rho", cirq.final_density_matrix(circ, dtype=dtype, **ikw)
    if kind == "sim":
        sim = cirq.Simulator(dtype=dtype, split_untangled_states=split)
        return "vec", sim.simulate(circ, **ikw).final_state_vector
    if kind == "steps":
        sim = cirq.Simulator(dtype=dtype, split_untangled_states=split)
        out = [st.state_vector(copy=True) for st in sim.simulate_moment_steps(circ, **ikw)]
        return "vecs", out
    if kind == "dm":
        sim = cirq.DensityMatrixSimulator(dtype=dtype, split_untangled_states=split)
        return "rho", sim.simulate(circ, **ikw).final_density_matrix
    if kind == "dmsteps":
        sim = cirq.DensityMatrixSimulator(dtype=dtype, split_untangled_states=split)
        out = [st.density_matrix(copy=True) for st in sim.simulate_moment_steps(circ, **ikw)]
        return "rhos", out
    raise core.HarnessError(f"cfg {cfg}")


def _sig(config, split, init, oi, ops):
    """Signature fields of a violation (used to match entries of known_findings.json; never to suppress anything here)."""
    return {"config": config, "split": bool(split), "init_kind": init[0], "order": ORDER_NAMES[oi],
            "has_global_phase_op": any(len(o.qubits) == 0 for o in ops)}


def run_main(case):
    alph, seq, layout, oi, init, ci = case
    seq = tuple(seq)
    init = tuple(init)
    cfg = CFGS[ci]
    kind, dt, split = cfg
    letters = ALPH[alph]
    ops = [letters[li].op for li in seq]
    if kind in UNITARY_KINDS and init[0] != "z":
        return Res(skipped=True, nontrivial=False)
    if kind == "U+idle" and oi != 0:
        return Res(skipped=True, nontrivial=False)
    if init[0] == "rho" and kind not in DM_KINDS:
        return Res(skipped=True, nontrivial=False)
    if oi == 4 and len(_wireset(alph, seq)) < 2:
        return Res(skipped=True, nontrivial=False)
    qarg, qs = _order(alph, seq, oi, present_idle=(kind == "U+idle"))
    if not qs:
        return Res(skipped=True, nontrivial=False)  # the property quantifies over 1..6 wires
    st = _init_state(init, qs)
    if st is None:
        return Res(skipped=True, nontrivial=False)
    istate, psi0 = st
    has_init = init[0] != "z"
    circ = _build(ops, layout)
    touched = _touched(alph, seq)
    U = _ref_u(alph, seq, qs)
    atol = _tol(dt, len(seq))
    if init == ("v", "flat64"):
        # a complex64 input vector is normalised only to ~1e-7 and the trial result renormalises its final vector
        # (StateVectorTrialResult.final_state_vector), so the comparison is at the input's own precision
        atol = max(atol, 3e-7)

    def ctx():
        return f"{describe(case)}\ncircuit:\n{circ}\nqubit order: {list(qs)}"

    try:
        rk, val = _run_entry(cfg, circ, qarg, qs, istate, has_init, touched)
    except core.HarnessError:
        raise
    except Exception as e:  # every case is an accepted input (unitary ops, valid state, valid order): no rejection is legal
        return bad(f"{kind}[{dt},split={split}] raised {type(e).__name__}: {e}\n{ctx()}\n{traceback.format_exc(limit=-3)}",
                   kind="exception", exception=type(e).__name__, **_sig(kind, split, init, oi, ops))
    if rk == "unitary":
        r = _cmp(f"{kind}[{dt}]", U, val, atol, ctx)
    elif rk == "vec":
        r = _cmp(f"{kind}[{dt},split={split}] final state vector", U @ psi0, val, atol, ctx)
    elif rk == "rho":
        f = U @ psi0
        r = _cmp(f"{kind}[{dt},split={split}] final density matrix", np.outer(f, f.conj()), val, atol, ctx)
    else:
        # one result per moment: reference = product of the first k moments of the circuit as built
        opidx = {id(letters[li].op): li for li in seq}
        refs = []
        done = []
        if len(circ) == 0:
            refs.append(psi0)
        for moment in circ:
            for op in moment.operations:
                if id(op) not in opidx:
                    raise core.HarnessError("circuit does not hold the letter operations by identity")
                done.append(opidx[id(op)])
            refs.append(_ref_matrix_of_ops(alph, done, qs) @ psi0)
        if sorted(done) != sorted(seq):
            return bad(f"circuit as built does not contain exactly the program's operations\n{ctx()}", kind="build")
        if len(val) != len(refs):
            return bad(f"{kind}: {len(val)} step results for {len(refs)} moments\n{ctx()}", kind="steps", what=kind)
        r = None
        for k, (rv, gv) in enumerate(zip(refs, val)):
            if rk == "rhos":
                rv = np.outer(rv, rv.conj())
            r = _cmp(f"{kind}[{dt},split={split}] state after moment {k}", rv, gv, atol, ctx)
            if r is not None:
                break
        if r is None:
            # the last step must also agree with the program-order product
            f = U @ psi0
            if rk == "rhos":
                f = np.outer(f, f.conj())
            r = _cmp(f"{kind}[{dt},split={split}] last step vs program-order product", f, val[-1], atol, ctx)
    if r is not None:
        r.sig.update(_sig(kind, split, init, oi, ops))
        return r
    return good(nontrivial=_nontrivial(ops, qs), sims=1)


def describe(case):
    alph, seq, layout, oi, init, ci = case[:6]
    return {"alphabet": alph, "ops": [ALPH[alph][i].name for i in seq], "layout": LAYOUT_NAMES[layout],
            "order": ORDER_NAMES[oi], "init": list(init), "config": list(CFGS[ci])}


# ------------------------------------------------------------------------------------------------
# simulate_sweep with prefix reuse

SWEEP_CFGS = [("sim", "c128", False), ("sim", "c128", True), ("sim", "c64", False), ("sim", "c64", True),
              ("dm", "c128", False), ("dm", "c128", True)]


def run_sweep(case):
    alph, seq, mask, layout, oi, init, sci = case
    seq = tuple(seq)
    mask = tuple(mask)
    init = tuple(init)
    kind, dt, split = SWEEP_CFGS[sci]
    letters = ALPH[alph]
    ops = []
    for li, m in zip(seq, mask):
        if m:
            if letters[li].pform is None:
                return Res(skipped=True, nontrivial=False)
            ops.append(letters[li].pform)
        else:
            ops.append(letters[li].op)
    qarg, qs = _order(alph, seq, oi)
    if not qs:
        return Res(skipped=True, nontrivial=False)
    st = _init_state(init, qs)
    if st is None:
        return Res(skipped=True, nontrivial=False)
    istate, psi0 = st
    circ = _build(ops, layout)
    kw = {}
    if qarg is not None:
        kw["qubit_order"] = qarg
    if init[0] != "z":
        kw["initial_state"] = istate
    pts = _points()
    if kind == "sim":
        sim = cirq.Simulator(dtype=DT[dt], split_untangled_states=split)
    else:
        sim = cirq.DensityMatrixSimulator(dtype=DT[dt], split_untangled_states=split)
    atol = _tol(dt, len(seq))

    def ctx():
        return f"{describe_sweep(case)}\ncircuit:\n{circ}\nqubit order: {list(qs)}"

    try:
        results = list(sim.simulate_sweep(circ, cirq.Points("s", list(pts)), **kw))
    except Exception as e:
        return bad(f"simulate_sweep {kind}[{dt},split={split}] raised {type(e).__name__}: {e}\n{ctx()}\n{traceback.format_exc(limit=-3)}",
                   kind="exception", exception=type(e).__name__, **_sig("sweep-" + kind, split, init, oi, ops))

    if len(results) != len(pts):
        return bad(f"simulate_sweep returned {len(results)} results for {len(pts)} points\n{ctx()}", kind="sweep_len")
    for pi, res in enumerate(results):
        U = _ref_matrix_of_ops(alph, seq, qs, res_points=[pi if m else None for m in mask])
        f = U @ psi0
        if kind == "sim":
            r = _cmp(f"simulate_sweep[{dt},split={split}] point s={pts[pi]} final state vector", f, res.final_state_vector, atol, ctx)
        else:
            r = _cmp(f"DM simulate_sweep[{dt},split={split}] point s={pts[pi]} final density matrix", np.outer(f, f.conj()),
                     res.final_density_matrix, atol, ctx)
        if r is not None:
            r.sig.update(_sig("sweep-" + kind, split, init, oi, ops))
            return r
    nt = _nontrivial([letters[li].op for li in seq], qs) and any(mask)
    return good(nontrivial=nt, sims=len(pts), prefix_ops=sum(1 for m in mask if not m))


def describe_sweep(case):
    alph, seq, mask, layout, oi, init, sci = case
    return {"alphabet": alph, "ops": [ALPH[alph][i].name + ("**s" if m else "") for i, m in zip(seq, mask)],
            "layout": LAYOUT_NAMES[layout], "order": ORDER_NAMES[oi], "init": list(init), "config": list(SWEEP_CFGS[sci]),
            "sweep": "s in " + str(list(_points()))}


# ------------------------------------------------------------------------------------------------
# ndarray initial states must not be consumed: the caller's array stays bit-identical and can be reused

REUSE_CFGS = (
    [(k, dt, sp) for k in ("sim", "steps", "sweep") for dt in ("c128", "c64") for sp in (False, True)]
    + [("Cfsv", "c128", None), ("Cfsv", "c64", None), ("fsv", "c64", None), ("fsv", "c128", None),
       ("fdm", "c64", None), ("fdm", "c128", None)]
    + [("dm", dt, sp) for dt in ("c128", "c64") for sp in (False, True)]
    + [("dmsteps", "c128", False), ("dmsteps", "c128", True), ("dmsweep", "c128", False), ("dmsweep", "c128", True)]
)
REUSE_FORMS = ["flat", "tensor", "rho", "rho-tensor"]
REUSE_MIX = 0.7  # density-matrix inputs are full rank (0.7 |psi><psi| + 0.3 I/D) so that complex64 validation is never marginal


def _reuse_call(cfg, circ, qarg, arr):
    """One call of the entry point with initial_state=arr; returns (kind, [copied result arrays])."""
    kind, dt, split = cfg
    dtype = DT[dt]
    kw = {"initial_state": arr}
    if qarg is not None:
        kw["qubit_order"] = qarg
    pts = cirq.Points("s", [0.25, 0.5])
    if kind == "sim":
        return "vec", [np.array(cirq.Simulator(dtype=dtype, split_untangled_states=split).simulate(circ, **kw).final_state_vector)]
    if kind == "steps":
        sim = cirq.Simulator(dtype=dtype, split_untangled_states=split)
        return "vec", [st.state_vector(copy=True) for st in sim.simulate_moment_steps(circ, **kw)]
    if kind == "sweep":
        sim = cirq.Simulator(dtype=dtype, split_untangled_states=split)
        return "vec", [np.array(r.final_state_vector) for r in sim.simulate_sweep(circ, pts, **kw)]
    if kind == "Cfsv":
        return "vec", [np.array(circ.final_state_vector(dtype=dtype, **kw))]
    if kind == "fsv":
        return "vec", [np.array(cirq.final_state_vector(circ, dtype=dtype, **kw))]
    if kind == "fdm":
        return "rho", [np.array(cirq.final_density_matrix(circ, dtype=dtype, **kw))]
    if kind == "dm":
        return "rho", [np.array(cirq.DensityMatrixSimulator(dtype=dtype, split_untangled_states=split).simulate(circ, **kw).final_density_matrix)]
    if kind == "dmsteps":
        sim = cirq.DensityMatrixSimulator(dtype=dtype, split_untangled_states=split)
        return "rho", [st.density_matrix(copy=True) for st in sim.simulate_moment_steps(circ, **kw)]
    if kind == "dmsweep":
        sim = cirq.DensityMatrixSimulator(dtype=dtype, split_untangled_states=split)
        return "rho", [np.array(r.final_density_matrix) for r in sim.simulate_sweep(circ, pts, **kw)]
    raise core.HarnessError(f"reuse cfg {cfg}")


def run_reuse(case):
    seq, layout, oi, fi, in_dt, ci = case
    seq = tuple(seq)
    cfg = REUSE_CFGS[ci]
    kind, dt, split = cfg
    form = REUSE_FORMS[fi]
    letters = ALPH["main"]
    ops = [letters[li].op for li in seq]
    if form.startswith("rho") and kind not in ("dm", "dmsteps", "dmsweep"):
        return Res(skipped=True, nontrivial=False)
    qarg, qs = _order("main", seq, oi)
    if not qs:
        return Res(skipped=True, nontrivial=False)
    dims = [q.dimension for q in qs]
    D = int(np.prod(dims))
    if form in ("tensor", "rho-tensor") and len(dims) < 2:
        return Res(skipped=True, nontrivial=False)
    psi = _gen_state(D, 1).astype(DT[in_dt])
    psi_ref = psi.astype(np.complex128)
    if form == "flat":
        arr = psi.copy()
    elif form == "tensor":
        arr = psi.copy().reshape(dims)
    else:
        rho = (REUSE_MIX * np.outer(psi_ref, psi_ref.conj()) + (1 - REUSE_MIX) * np.eye(D) / D).astype(DT[in_dt])
        arr = rho.copy() if form == "rho" else rho.copy().reshape(dims + dims)
    before = arr.copy()
    circ = _build(ops, layout)
    U = _ref_u("main", seq, qs)
    atol = _tol(dt, len(seq))
    if in_dt == "c64":
        atol = max(atol, 3e-7)  # input normalised only to complex64 precision (see run_main)
    f = U @ psi_ref
    if form.startswith("rho"):
        rho_in = before.reshape(D, D).astype(np.complex128)
        final_ref = U @ rho_in @ U.conj().T
    else:
        final_ref = f
    sig = dict(config="reuse-" + kind, split=bool(split), init_kind=form, order=ORDER_NAMES[oi],
               has_global_phase_op=any(len(o.qubits) == 0 for o in ops), same_dtype=(in_dt == dt))

    def ctx():
        return (f"ops={[letters[i].name for i in seq]} layout={LAYOUT_NAMES[layout]} order={ORDER_NAMES[oi]} input form={form} "
                f"input dtype={in_dt} config={cfg}\ncircuit:\n{circ}\nqubit order: {list(qs)}")

    def fail(msg, k):
        return bad(f"{msg}\n{ctx()}", kind=k, **sig)

    outs = []
    for attempt, a in (("first call", arr), ("second call with the SAME array object", arr), ("call with a fresh copy", before.copy())):
        try:
            rk, vals = _reuse_call(cfg, circ, qarg, a)
        except core.HarnessError:
            raise
        except Exception as e:
            return bad(f"{kind}[{dt},split={split}] {attempt} raised {type(e).__name__}: {e}\n{ctx()}\n{traceback.format_exc(limit=-3)}",
                       kind="exception", exception=type(e).__name__, **sig)
        if a is arr and not (arr.dtype == before.dtype and arr.shape == before.shape and np.array_equal(arr, before)):
            diff = int(np.count_nonzero(arr != before)) if arr.shape == before.shape else -1
            return fail(f"{kind}[{dt},split={split}] {attempt}: the caller's initial_state array was modified "
                        f"({diff} of {before.size} entries changed) -- the input must not be consumed", "input_mutated")
        outs.append(vals)
        last = vals[-1]
        ref = final_ref
        if rk == "rho" and not form.startswith("rho"):
            ref = np.outer(f, f.conj())
        r = _cmp(f"{kind}[{dt},split={split}] {attempt}: final {'density matrix' if rk == 'rho' else 'state vector'}", ref, last, atol, ctx)
        if r is not None:
            r.sig.update(sig)
            r.sig["kind"] = "reuse_" + r.sig.get("kind", "value")
            return r
    for name, other in (("second call with the same array", outs[1]), ("call with a fresh copy", outs[2])):
        if len(other) != len(outs[0]):
            return fail(f"{kind}: {name} returned {len(other)} results, first call {len(outs[0])}", "reuse_len")
        for k, (x, y) in enumerate(zip(outs[0], other)):
            if x.shape != y.shape or not np.allclose(x, y, atol=atol, rtol=0):
                return fail(f"{kind}[{dt},split={split}] result #{k} of the {name} differs from the first call "
                            f"(max diff {float(np.max(np.abs(x.astype(np.complex128) - y.astype(np.complex128)))) if x.shape == y.shape else 'shape'})",
                            "reuse_differs")
    return good(nontrivial=len(seq) >= 1, sims=3)


def describe_reuse(case):
    seq, layout, oi, fi, in_dt, ci = case
    return {"ops": [ALPH["main"][i].name for i in seq], "layout": LAYOUT_NAMES[layout], "order": ORDER_NAMES[oi],
            "input_form": REUSE_FORMS[fi], "input_dtype": in_dt, "config": list(REUSE_CFGS[ci])}


# ------------------------------------------------------------------------------------------------
# ClassicalStateSimulator on reversible classical letters

CL_MODES = ["run", "simulate-int", "simulate-int-reversed-order", "simulate-digit-list", "moment-steps"]


def run_classical(case):
    seq, layout, k, mode = case
    seq = tuple(seq)
    letters = ALPH["cl"]
    ops = [letters[li].op for li in seq]
    W = [A, B, C]
    qs = tuple(W[::-1]) if mode == 2 else tuple(W)
    U = _ref_u("cl", seq, qs)
    psi0 = np.zeros(8, dtype=np.complex128)
    psi0[k] = 1
    f = U @ psi0
    idx = int(np.argmax(np.abs(f)))
    if abs(abs(f[idx]) - 1) > 1e-9:
        raise core.HarnessError("classical letter produced a superposition")
    exp_bits = _digits(idx, [2, 2, 2])
    in_bits = _digits(k, [2, 2, 2])
    meas = cirq.Moment(cirq.measure(*qs, key="m"))
    has_perm = any(isinstance(o.gate, cirq.QubitPermutationGate) for o in ops)
    sim = cirq.ClassicalStateSimulator()
    body = _build(ops, layout)

    def ctx():
        return f"ops={[letters[i].name for i in seq]} layout={LAYOUT_NAMES[layout]} input={in_bits} mode={CL_MODES[mode]}\n{body}"

    if mode == 0:
        prep = [cirq.X(q) for q, b_ in zip(qs, in_bits) if b_]
        circ = cirq.Circuit([cirq.Moment(prep)] if prep else []) + body + cirq.Circuit(meas)
        rec = sim.run(circ, repetitions=2).records["m"]
        got = [[int(x) for x in rec[r][0]] for r in range(2)]
        if got != [exp_bits, exp_bits]:
            return bad(f"ClassicalStateSimulator.run measured {got}, reference {exp_bits} (both repetitions)\n{ctx()}", kind="classical", config="cl-run", has_permutation_gate=has_perm)
    else:
        circ = body + cirq.Circuit(meas)
        istate = in_bits if mode == 3 else k
        if mode == 4:
            last = None
            n = 0
            for last in sim.simulate_moment_steps(circ, qubit_order=list(qs), initial_state=istate):
                n += 1
            if n != len(circ):
                return bad(f"ClassicalStateSimulator.simulate_moment_steps: {n} steps for {len(circ)} moments\n{ctx()}", kind="classical", config="cl-steps")
            got = [int(x) for x in last.measurements["m"]]
        else:
            res = sim.simulate(circ, qubit_order=list(qs), initial_state=istate)
            got = [int(x) for x in res.measurements["m"]]
        if got != exp_bits:
            return bad(f"ClassicalStateSimulator {CL_MODES[mode]} measured {got}, reference {exp_bits}\n{ctx()}", kind="classical", config="cl-" + CL_MODES[mode],
                       has_permutation_gate=has_perm)
    return good(nontrivial=_nontrivial(ops, qs), sims=1)


def describe_classical(case):
    seq, layout, k, mode = case
    return {"ops": [ALPH["cl"][i].name for i in seq], "layout": LAYOUT_NAMES[layout], "input_index": k, "mode": CL_MODES[mode]}


# ------------------------------------------------------------------------------------------------
# case lists


def _seqs(idx, lmin, lmax):
    out = []
    for L in range(lmin, lmax + 1):
        out.extend(itertools.product(idx, repeat=L))
    return out


def _is_qutrit(alph, seq):
    return any(q.dimension != 2 for li in seq for q in ALPH[alph][li].op.qubits)


def _all_inits(D):
    return ([("z",)] + [("b", k) for k in range(D)] + [("d", max(D - 2, 0))]
            + [("v", "flat128"), ("v", "tensor128"), ("v", "flat64"), ("rho",)])


def _fix(ci, oi, init):
    """Adjust an (order, init) pair to what the configuration accepts (unitary entry points take no initial state)."""
    k = CFGS[ci][0]
    if k == "U+idle":
        return 0, ("z",)
    if k in UNITARY_KINDS:
        return oi, ("z",)
    return oi, init


def _layouts_for(seq):
    return (0,) if len(seq) <= 1 else (0, 1, 2)


def stages(tier, seed):
    _init(seed)
    reset = lambda: _init(seed)
    main = ALPH["main"]
    nM = len(main)
    allM = list(range(nM))
    coreM = [i for i in allM if main[i].core]
    thorough = tier == "thorough"
    ncfg = len(CFGS)
    PAIRS3 = [(0, ("z",)), (2, ("v", "flat128")), (3, ("b", 5))]
    WPAIRS = [(0, ("z",)), (2, ("v", "flat64"))]

    # A: full cross product orders x init forms x configurations for every program of length <= 1
    casesA = []
    for seq in _seqs(allM, 0, 1):
        D = 24 if _is_qutrit("main", seq) else 8
        for oi in range(5):
            for init in _all_inits(D):
                for ci in range(ncfg):
                    casesA.append(("main", seq, 0, oi, init, ci))

    # B: every program of length 2 (thorough: also 3) x every layout x configurations; the (order, init) pair rotates with
    #    (layout, configuration) so that every (program, configuration) meets every pair across the three layouts
    casesB = []
    for seq in _seqs(allM, 2, 2):
        for layout in (0, 1, 2):
            for j, ci in enumerate(CORE_CFGS):
                for oi, init in (PAIRS3 if thorough else [PAIRS3[(layout + j) % 3]]):
                    oi, init = _fix(ci, oi, init)
                    casesB.append(("main", seq, layout, oi, init, ci))
            if layout == 0:
                for j, ci in enumerate(WRAP_CFGS):
                    for oi, init in (WPAIRS if thorough else [WPAIRS[j % 2]]):
                        oi, init = _fix(ci, oi, init)
                        casesB.append(("main", seq, 0, oi, init, ci))
    if thorough:
        cfg3 = [CI[c] for c in [("sim", "c128", True), ("sim", "c128", False), ("steps", "c128", True), ("sim", "c64", True),
                                ("U", "c128", None), ("dm", "c128", True)]]
        for seq in _seqs(allM, 3, 3):
            for layout in (0, 1, 2):
                for j, ci in enumerate(cfg3):
                    if (j + layout) % 2:
                        continue  # layouts 0,2 take configurations 0,2,4; layout 1 takes 1,3,5 (length 2 has the full product)
                    oi, init = _fix(ci, *PAIRS3[(layout + j) % 3])
                    casesB.append(("main", seq, layout, oi, init, ci))

    # C: longer programs on the core alphabet
    casesC = []
    cfgC = [CI[c] for c in [("U", "c128", None), ("sim", "c128", False), ("sim", "c128", True), ("steps", "c64", True),
                            ("dm", "c128", True)]]
    LC = 4 if thorough else 3
    for seq in _seqs(coreM, LC, LC):
        for layout in (0, 1, 2):
            for j, ci in enumerate(cfgC):
                oi, init = _fix(ci, *PAIRS3[(layout + j) % 3])
                casesC.append(("main", seq, layout, oi, init, ci))

    # D: orders x init forms x configurations on core programs of length 2 (thorough: all configurations, all basis indices)
    casesD = []
    cfgD = list(range(ncfg)) if thorough else [CI[c] for c in [
        ("sim", "c128", False), ("sim", "c128", True), ("sim", "c64", False), ("sim", "c64", True),
        ("dm", "c128", True), ("dm", "c64", False), ("Cfsv", "c128", None), ("fsv", "c64", None), ("steps", "c128", True)]]
    initsD = _all_inits(8) if thorough else [i for i in _all_inits(8) if i[0] != "b" or i[1] in (0, 5, 7)]
    for seq in _seqs(coreM, 2, 2):
        for oi in range(5):
            for init in initsD:
                for ci in cfgD:
                    casesD.append(("main", seq, 0, oi, init, ci))

    # P: product-state objects
    casesP_sorted, casesP_perm = [], []
    qubit_only = [i for i in allM if not _is_qutrit("main", (i,))]
    cfgP = [CI[c] for c in [("sim", "c128", False), ("sim", "c128", True), ("sim", "c64", True), ("dm", "c128", False),
                            ("dm", "c128", True), ("Cfsv", "c128", None), ("fsv", "c64", None), ("fdm", "c64", None),
                            ("steps", "c128", True)]]
    pseqs = _seqs(qubit_only, 0, 1) + [s for s in _seqs(coreM, 2, 2)]
    for seq in pseqs:
        for oi in range(5):
            for shift in (0, 2):
                for ci in cfgP:
                    (casesP_sorted if oi in (0, 1) else casesP_perm).append(("main", seq, 0, oi, ("ps", shift), ci))

    # S: simulate_sweep prefix reuse: every parameterisation mask
    sweepM = [i for i in allM if main[i].core] + [i for i in allM if main[i].name in ("M2(a,b)", "SUB[H(a),CNOT(c,b)]", "CSWAP(b,c,a)", "X3(t)^g")]
    casesS = []
    sw_pairs = [(0, ("z",)), (2, ("v", "flat128")), (3, ("b", 6))]
    for seq in _seqs(sweepM, 1, 3 if thorough else 2):
        for mi, mask in enumerate(itertools.product((0, 1), repeat=len(seq))):
            if any(m and main[li].pform is None for li, m in zip(seq, mask)):
                continue
            for layout in ((0, 1) if len(seq) == 2 else (0,)):
                for sci in range(len(SWEEP_CFGS)):
                    for oi, init in (sw_pairs if len(seq) <= 2 else [sw_pairs[(mi + sci) % 3]]):
                        casesS.append(("main", seq, mask, layout, oi, init, sci))
    if not thorough:
        small = [i for i in coreM if main[i].pform is not None][:9] + [i for i in allM if main[i].name == "M2(c,a)"]
        for seq in _seqs(small, 3, 3):
            for mask in itertools.product((0, 1), repeat=3):
                if any(m and main[li].pform is None for li, m in zip(seq, mask)):
                    continue
                for sci in (0, 1):
                    casesS.append(("main", seq, mask, 0, 0, ("z",), sci))

    # X: axis-layout sweep with single long-range letters on 5 (thorough: also 6) wires
    casesX = []
    cfgX = [CI[c] for c in [("U", "c128", None), ("Cfsv", "c128", None), ("sim", "c128", False), ("sim", "c128", True),
                            ("sim", "c64", True), ("steps", "c128", True), ("dm", "c128", False), ("dm", "c128", True)]]
    for alph in (("ax5", "ax6") if thorough else ("ax5",)):
        for li in range(len(ALPH[alph])):
            for oi, init in ((1, ("v", "flat128")), (2, ("b", 22)), (3, ("v", "tensor128"))):
                for ci in cfgX:
                    casesX.append((alph, (li,), 0) + _fix(ci, oi, init) + (ci,))

    # N4: four qubits (thorough only)
    casesN = []
    if thorough:
        n4 = list(range(len(ALPH["n4"])))
        for seq in _seqs(n4, 1, 2):
            for layout in _layouts_for(seq):
                for ci in CORE_CFGS:
                    for oi, init in [(0, ("z",)), (2, ("v", "flat128")), (3, ("b", 11)), (4, ("v", "flat64"))]:
                        casesN.append(("n4", seq, layout) + _fix(ci, oi, init) + (ci,))

    # R: ndarray initial states are not consumed and can be reused (compact: all core letters, pairs over 8 of them)
    casesR = []
    pair8 = [i for i in allM if main[i].name in ("X(a)", "Z(a)^0.25", "H(c)", "CNOT(a,b)", "M2(c,a)", "SWAP(a,c)", "CZ(b,c)^g", "GP(e^ig)")]
    seqsR = _seqs(coreM, 1, 1) + _seqs(pair8, 2, 2) + (_seqs(pair8, 3, 3) if thorough else [])
    for seq in seqsR:
        for oi in (0, 2):
            for ci in range(len(REUSE_CFGS)):
                for fi in range(len(REUSE_FORMS)):
                    if fi >= 2 and REUSE_CFGS[ci][0] not in ("dm", "dmsteps", "dmsweep"):
                        continue
                    for in_dt in ("c128", "c64"):
                        casesR.append((seq, 1 if len(seq) > 1 and oi == 2 else 0, oi, fi, in_dt, ci))

    # CL: classical simulator
    casesCL = []
    ncl = len(ALPH["cl"])
    for seq in _seqs(range(ncl), 0, 4 if thorough else 3):
        for layout in ((0, 1) if len(seq) == 2 or (thorough and len(seq) == 3) else (0,)):
            for k in range(8):
                for mode in range(len(CL_MODES)):
                    if len(seq) >= 3 and mode in (3, 4) and not thorough:
                        continue
                    if len(seq) == 4 and not (mode == 0 or (mode == 1 and k == 5)):
                        continue
                    casesCL.append((seq, layout, k, mode))

    return [
        CaseStage("full_product_len01", casesA, run_main, reset=reset, describe=describe),
        CaseStage("programs_x_layouts_x_configs", casesB, run_main, reset=reset, describe=describe),
        CaseStage("long_programs_core_alphabet", casesC, run_main, reset=reset, describe=describe),
        CaseStage("orders_x_inits_core_len2", casesD, run_main, reset=reset, describe=describe),
        CaseStage("product_state_init_sorted_order", casesP_sorted, run_main, reset=reset, describe=describe),
        CaseStage("product_state_init_permuted_order", casesP_perm, run_main, reset=reset, describe=describe),
        CaseStage("sweep_prefix_reuse", casesS, run_sweep, reset=reset, describe=describe_sweep),
        CaseStage("axis_layout_long_range", casesX, run_main, reset=reset, describe=describe),
        CaseStage("four_qubits", casesN, run_main, reset=reset, describe=describe),
        CaseStage("input_array_not_consumed", casesR, run_reuse, reset=reset, describe=describe_reuse),
        CaseStage("classical_simulator", casesCL, run_classical, reset=reset, describe=describe_classical),
    ]
