"""C08 -- gate algebra and predicates are sound with respect to matrices.

Bounded-exhaustive enumeration (engine E1).  Alphabets (all rebuilt from small integer descriptors):

  GATES   every library gate class that supports pow / predicates x a parameter grid (exponents incl.
          out-of-period values, global_shift != 0, qudit dimension 3, Rx/Ry/Rz, MS, PhasedISwap, PauliInteraction,
          PhasedX, PhasedXZ, FSim, PhasedFSim, Matrix/Diagonal gates, Clifford gates, dense Pauli strings, vendor gates)
  POWERS  t in {-1, 0, 0.5, 1, 2, -0.25, generic, 2+generic}
  SPECS   all ProductOfSums over <=2 controls (qubit value sets from {0,1}, qutrit value sets from {0,1,2}) and all
          SumOfProducts with <=2 products over <=2 controls
  SUBS    gates to be controlled (incl. the specialisation shortcuts X/Y/Z/CZ/CX/CY/CCZ/CCX/CCY/CSWAP/GlobalPhase,
          shifted variants that must NOT be specialised, qudit targets, already-controlled gates)
  PERMG   every >=2-qubit gate family (PhasedFSimGate lattice theta in {0,+-pi/2,pi,g} x zeta/chi in {0,pi,g} x gamma/phi,
          FSim, CZ/CX/CY/ZZ/XX/YY/ISWAP/SWAP/CCZ/CCX/CCY pow, PhasedISwap, all PauliInteractionGates, diagonal / matrix
          gates, vendor gates, controlled versions) applied to EVERY ordered pair of permutations of its qubits; ==, hash,
          approx_eq, equal_up_to_global_phase, commutes of the two operations, of their Moments and Circuits
  XZ      PhasedXZGate on a quarter-step lattice (x in {0,+-.5,+-1,1.5,2,3,g} x z in k/4 over [-2,2]+g x a in k/4+g, i.e.
          non-canonical parameterisations): has_stabilizer_effect / canonical_clifford / SingleQubitCliffordGate.from_unitary /
          to_phased_xz_gate / from_matrix / == against the 24 Clifford PhasedXZGates
  LETTERS placed operations on 3 qubits (overlapping / disjoint supports, interchangeable-qubit gates in both orders,
          controlled ops with permuted controls, Pauli strings, tagged / classically controlled / measurement ops)

Oracles are semantic (matrices from the reference embedding mc.ref.embed, eigen-decomposition documented by EigenGate,
block matrices for controls, conjugation by Z for phase_by, commutators, Pauli conjugation, eigen-phase arcs).
Only the SOUNDNESS direction of predicates is demanded; None / NotImplemented / conservative answers are always legal.

Genuine defects of the unchanged tree reported by this check (violation signature key `defect`; `reproducers()` at the
bottom of this file shows each one stand-alone):
  qudit_xz_controlled_specialised_to_qubit_gate  XPowGate/ZPowGate(dimension=3).controlled() returns the qubit CNOT/CZ
  sqclifford_commutes_ignores_phase              commutes(SingleQubitCliffordGate.X, .Z) is True (tableaux drop the phase)
  pauli_interaction_approx_values                approx_eq / equal_up_to_global_phase of PauliInteractionGates ignore the Paulis
  ionq_ms_eq_ignores_theta                       cirq_ionq.MSGate equality ignores theta
  matrixgate_approx_eq_shape                     approx_eq of MatrixGates of different size raises ValueError
  tagged_commutes_drops_default                  (definitely_)commutes(tagged op, measurement) raises TypeError
  product_of_sums_or                             ProductOfSums | ProductOfSums on >=2 qubits is not the union
  paulistring_pow_drops_coefficient              (1j*Y(q))**t drops the coefficient
"""
from __future__ import annotations

import itertools

import numpy as np
import sympy
import cirq
import cirq_google
import cirq_ionq

from mc import core
from mc.core import CaseStage, Res, bad, good
from mc.ref import embed as E

PROPERTY = "C08"
LEVEL = "exploration"
RULE = ("gates = every pow-/predicate-capable gate class x parameter grid (exponents incl. out-of-period, global_shift!=0, "
        "qudit dimension) x powers {-1,0,.5,1,2,-.25,g,2+g}; control specs = ALL ProductOfSums over <=2 controls "
        "(qubit/qutrit value sets) and ALL SumOfProducts with <=2 products, through controlled()/ControlledGate/"
        "controlled_by/ControlledOperation, nested twice; binary predicates on ALL ordered pairs of the gate alphabet and "
        "ALL ordered pairs of placed operations on 3 qubits; every >=2-qubit gate family on ALL ordered pairs of qubit permutations "
        "(op / Moment / Circuit equality and commutes); PhasedXZGate Clifford recognition on a quarter-step exponent lattice; a case is non-trivial when the object under test returned a "
        "definite answer/result that the matrix oracle could refute (not None/NotImplemented/skipped); distinct = "
        "distinct descriptor tuple")
TECHNIQUE = ("bounded-exhaustive enumeration of gates x powers, control specifications and operation pairs against "
             "closed-form matrix references (eigen-decomposition sums, block matrices, commutators, Pauli conjugation)")
LEVEL_TEXT = ("Every gate of the alphabet is raised to every power of the grid and the result's matrix is compared with the "
              "sum over the documented eigen-decomposition (or the integer matrix power); every control specification over "
              "<=2 qubit/qutrit controls is applied through all four construction APIs (and nested) and compared with the "
              "big-endian block matrix; every ordered pair of gates / placed operations is fed to ==, hash, approx_eq, "
              "equal_up_to_global_phase and commutes and each definite answer is checked against the matrices. "
              "Bounded by the alphabets (<=3-qubit gates, <=2+2 controls, 3-qubit register).")
LEVEL_NOTE = ("trusted: numpy; cirq.unitary / cirq.kraus of a single un-derived library gate (tied to closed forms by "
              "C03/C04); EigenGate._eigen_components/exponent/global_shift as the documented decomposition (its "
              "consistency with cirq.unitary is re-checked here)")
ASSUMPTIONS = [
    "cirq.unitary / cirq.kraus of a single library gate at given parameters is correct (tied to closed forms by C03/C04)",
    "EigenGate._eigen_components(), .exponent and .global_shift are the gate's documented eigen-decomposition "
    "(orthogonality/completeness/consistency with cirq.unitary is re-checked by stage pow)",
    "numpy linear algebra; mc.ref.embed big-endian embedding",
]

ATOL = 1e-7
# numpy.allclose-based predicates (commutes, allclose_up_to_global_phase) carry numpy's default rtol=1e-5 on top of atol;
# every perturbation in the alphabets is >= 5e-4, i.e. far from this slack (soundness rule 2).
SLACK = 3e-5
_SEED = 0
_TIER = "quick"

# --------------------------------------------------------------------------------------------------------------
# small reference helpers (no cirq protocol is used to build references except cirq.unitary/kraus of base gates)


def U(x):
    m = cirq.unitary(x, None)
    if m is None:
        return None
    return np.asarray(m, dtype=np.complex128)


def close(a, b, atol=ATOL):
    a = np.asarray(a)
    b = np.asarray(b)
    return a.shape == b.shape and bool(np.allclose(a, b, atol=atol, rtol=0))


def maxdiff(a, b):
    a = np.asarray(a)
    b = np.asarray(b)
    if a.shape != b.shape:
        return float("inf")
    return float(np.max(np.abs(a - b))) if a.size else 0.0


def phase_dist(a, b):
    """min over phases of max |a - e^{i phi} b| (phase fixed at the largest entry of a)."""
    a = np.asarray(a)
    b = np.asarray(b)
    if a.shape != b.shape:
        return float("inf")
    return float(np.max(np.abs(a - E.phase_of(a, b) * b))) if a.size else 0.0


def is_unitary(m):
    return close(m @ m.conj().T, np.eye(m.shape[0]))


def eigen_ref(g, t):
    """sum_k exp(i pi e t (theta_k + s)) P_k from the decomposition the EigenGate documents."""
    e = float(g.exponent)
    s = float(g.global_shift)
    out = None
    for th, P in g._eigen_components():
        term = np.exp(1j * np.pi * e * t * (th + s)) * np.asarray(P, dtype=np.complex128)
        out = term if out is None else out + term
    return out


def eigen_components_consistent(g):
    comps = [(th, np.asarray(P, dtype=np.complex128)) for th, P in g._eigen_components()]
    d = comps[0][1].shape[0]
    tot = sum(P for _, P in comps)
    if not close(tot, np.eye(d)):
        return "projectors do not sum to identity"
    for i, (_, P) in enumerate(comps):
        for j, (_, Q) in enumerate(comps):
            if not close(P @ Q, P if i == j else np.zeros((d, d))):
                return f"projectors {i},{j} not orthogonal idempotents"
    return None


def true_trace_distance(m):
    """max_psi trace distance between psi and U psi = sqrt(1 - dist(0, conv(eig))^2), from the eigen-phases."""
    ang = np.sort(np.angle(np.linalg.eigvals(m)))
    if len(ang) == 0:
        return 0.0
    gaps = list(np.diff(ang)) + [2 * np.pi - (ang[-1] - ang[0])]
    g = max(gaps)
    if g <= np.pi + 1e-12:
        return 1.0
    return float(abs(np.sin((2 * np.pi - g) / 2)))


_P1 = {"I": np.eye(2, dtype=complex), "X": np.array([[0, 1], [1, 0]], dtype=complex),
       "Y": np.array([[0, -1j], [1j, 0]], dtype=complex), "Z": np.diag([1, -1]).astype(complex)}
_PAULI_CACHE = {}


def pauli_stack(n):
    """(names, array[4^n, 2^n, 2^n]) of all n-qubit Pauli strings (big-endian kron)."""
    if n not in _PAULI_CACHE:
        names = ["".join(c) for c in itertools.product("IXYZ", repeat=n)]
        mats = [E.kron(*[_P1[ch] for ch in nm]) if n else np.eye(1, dtype=complex) for nm in names]
        _PAULI_CACHE[n] = (names, np.array(mats))
    return _PAULI_CACHE[n]


def maps_paulis_to_paulis(m, n):
    """None when U P U^dag is +-(a Pauli string) for every generator P in {X_i, Z_i}; else a message."""
    names, stack = pauli_stack(n)
    D = 2 ** n
    for q in range(n):
        for c in "XZ":
            name = "I" * q + c + "I" * (n - q - 1)
            img = m @ stack[names.index(name)] @ m.conj().T
            co = np.einsum("kij,ij->k", stack.conj(), img) / D      # tr(Q^dag img)/2^n for every Pauli string Q
            k = int(np.argmax(np.abs(co)))
            if abs(abs(co[k]) - 1) > 1e-7:
                return f"U {name} U^dag is not a Pauli string (largest Pauli coefficient {abs(co[k]):.6f})"
            if min(abs(co[k] - 1), abs(co[k] + 1)) > 1e-7:
                return f"U {name} U^dag = {co[k]:.6f} * {names[k]} (phase is not +-1)"
    return None


def zpow(turns2):
    """Z**(2*phase_turns) = diag(1, exp(2 pi i phase_turns))."""
    return np.diag([1, np.exp(2j * np.pi * turns2)])


# --------------------------------------------------------------------------------------------------------------
# control specifications

QV = [(1,), (0,), (0, 1)]
TV = [(1,), (0,), (2,), (0, 1), (0, 2), (1, 2), (0, 1, 2)]


def _all_specs():
    pos = []
    sop = []
    for k in (1, 2):
        for shape in itertools.product((2, 3), repeat=k):
            for vals in itertools.product(*[QV if d == 2 else TV for d in shape]):
                pos.append(("pos", shape, vals))
            allp = list(itertools.product(*[range(d) for d in shape]))
            for r in (1, 2):
                for combo in itertools.combinations(allp, r):
                    sop.append(("sop", shape, combo))
    key = lambda s: (len(s[1]), sum(s[1]), s[0] != "pos")
    return sorted(pos + sop, key=key)


SPECS = _all_specs()
SPECS1 = [i for i, s in enumerate(SPECS) if len(s[1]) == 1]
# second-level specs for nesting: all 1-control specs + a few 2-control ones
SPECS2X = SPECS1 + [i for i, s in enumerate(SPECS) if s in (
    ("pos", (2, 2), ((1,), (1,))), ("pos", (2, 2), ((0, 1), (0,))), ("pos", (2, 3), ((1,), (0, 2))),
    ("sop", (2, 2), ((0, 0), (1, 1))), ("sop", (3, 2), ((0, 1), (2, 0))), ("sop", (2, 2), ((1, 1),)))]


def spec_selected(spec):
    kind, shape, data = spec
    if kind == "pos":
        return set(itertools.product(*data))
    return set(tuple(p) for p in data)


def spec_is_default(spec):
    kind, shape, data = spec
    return kind == "pos" and all(d == 2 for d in shape) and all(v == (1,) for v in data)


def spec_cv_obj(spec):
    kind, shape, data = spec
    if kind == "pos":
        return cirq.ProductOfSums([tuple(v) for v in data])
    return cirq.SumOfProducts([tuple(p) for p in data])


def spec_cv_raw(spec, ints=False):
    kind, shape, data = spec
    if kind == "pos":
        if ints:
            return [v[0] if len(v) == 1 else tuple(v) for v in data]
        return [tuple(v) for v in data]
    return cirq.SumOfProducts([tuple(p) for p in data])


def block_ref(shape, selected, usub):
    """Big-endian block matrix: controls (most significant) then target; usub on selected control states."""
    D = usub.shape[0]
    C = int(np.prod(shape)) if len(shape) else 1
    out = np.zeros((C * D, C * D), dtype=np.complex128)
    for ci, c in enumerate(itertools.product(*[range(d) for d in shape])):
        out[ci * D:(ci + 1) * D, ci * D:(ci + 1) * D] = usub if tuple(c) in selected else np.eye(D)
    return out


# --------------------------------------------------------------------------------------------------------------
# alphabets

class Alpha:
    """An alphabet of named thunks: make(i) builds a FRESH object every time (no cached-method history is
    shared between cases, so every case is deterministic and independent of evaluation order)."""

    def __init__(self, pairs):
        self.names = [n for n, _ in pairs]
        self.thunks = [f for _, f in pairs]

    def __len__(self):
        return len(self.names)

    def name(self, i):
        return self.names[i]

    def make(self, i):
        return self.thunks[i]()

    def index(self, name):
        return self.names.index(name)


GATES = Alpha([])     # gates
SUBS = Alpha([])      # gates to be controlled
LETTERS = Alpha([])   # placed operations on REG
POWERS = []
_UC = {}       # gate index -> trusted matrix
_LC = {}       # letter index -> info

Q0, Q1, Q2 = cirq.LineQubit.range(3)
REG = [Q0, Q1, Q2]
REGSHAPE = (2, 2, 2)


def _later(expr_src, env):
    """Thunk building a fresh object from an expression source and a snapshot of the builder's locals."""
    code = compile(expr_src, "<alphabet>", "eval")
    env = dict(env)
    return lambda: eval(code, globals(), env)


def _build_gates(seed, tier):
    g = core.generic(seed, 0)
    g2 = core.generic(seed, 2)
    out = []
    if tier == 'quick':
        exps = [1.0, 0.5, 2.5, -1.5, g]
        shifts = [0.0, -0.5]
    else:
        exps = [1.0, 0.5, 0.25, 2.5, -1.5, 3.0, g, 4 + g]
        shifts = [0.0, -0.5, 0.3]
    eigen_classes = [('X', cirq.XPowGate),
        ('Y', cirq.YPowGate),
        ('Z', cirq.ZPowGate),
        ('H', cirq.HPowGate),
        ('CZ', cirq.CZPowGate),
        ('CX', cirq.CXPowGate),
        ('CY', cirq.CYPowGate),
        ('XX', cirq.XXPowGate),
        ('YY', cirq.YYPowGate),
        ('ZZ', cirq.ZZPowGate),
        ('ISWAP', cirq.ISwapPowGate),
        ('SWAP', cirq.SwapPowGate),
        ('CCX', cirq.CCXPowGate),
        ('CCY', cirq.CCYPowGate),
        ('CCZ', cirq.CCZPowGate)]
    for name, cls in eigen_classes:
        for s in shifts:
            for e in exps:
                out.append((f'{name}Pow(e={e},s={s})', _later('cls(exponent=e, global_shift=s)', locals())))
    for name, cls in (('X3', cirq.XPowGate),
        ('Z3', cirq.ZPowGate)):
        for s in shifts[:2]:
            for e in exps:
                out.append((f'{name}Pow(e={e},s={s},dim=3)', _later('cls(exponent=e, global_shift=s, dimension=3)', locals())))
    for name, cls in (('Rx', cirq.Rx),
        ('Ry', cirq.Ry),
        ('Rz', cirq.Rz)):
        for r in (np.pi, np.pi / 2, 2.5 * np.pi, -1.5 * np.pi, g * np.pi):
            out.append((f'{name}({r:.6f})', _later('cls(rads=r)', locals())))
    for r in (np.pi / 4, np.pi / 2, g):
        out.append((f'ms({r:.6f})', _later('cirq.ms(r)', locals())))
    out.append(('XPow(e=0.5005)', _later('cirq.XPowGate(exponent=0.5005)', locals())))
    out.append(('ZPow(e=2.5005,s=-.5)', _later('cirq.ZPowGate(exponent=2.5005, global_shift=-0.5)', locals())))
    out.append(('CZPow(e=-1.4995)', _later('cirq.CZPowGate(exponent=-1.4995)', locals())))
    out += [('PauliX', _later('cirq.X', locals())),
        ('PauliY', _later('cirq.Y', locals())),
        ('PauliZ', _later('cirq.Z', locals()))]
    for pe in (0.25, g2):
        for e in (1.0, 0.5, 2.5, g):
            for s in (0.0, -0.5):
                out.append((f'PhasedISwap(p={pe},e={e},s={s})', _later('cirq.PhasedISwapPowGate(phase_exponent=pe, exponent=e, global_shift=s)', locals())))
    for p0, i0, p1, i1 in ((cirq.Z, False, cirq.X, False), (cirq.X, True, cirq.Y, False), (cirq.Z, True, cirq.Z, True), (cirq.Y, False, cirq.Y, False)):
        for e in (1.0, 0.5, g):
            out.append((f'PauliInteraction({p0},{i0},{p1},{i1},e={e})', _later('cirq.PauliInteractionGate(p0, i0, p1, i1, exponent=e)', locals())))
    for pe in (0.0, 0.25, g2):
        for e in (1.0, 0.5, 2.5, g):
            for s in (0.0, -0.5):
                out.append((f'PhasedX(p={pe},e={e},s={s})', _later('cirq.PhasedXPowGate(phase_exponent=pe, exponent=e, global_shift=s)', locals())))
    for x, z, a in ((1, 0, 0), (0.5, 0.5, 0.25), (g, g2, 0.3), (0, 0.5, 0), (1, 1, 0.5), (2.5, -1.5, g)):
        out.append((f'PhasedXZ(x={x},z={z},a={a})', _later('cirq.PhasedXZGate(x_exponent=x, z_exponent=z, axis_phase_exponent=a)', locals())))
    for th, ph in ((np.pi / 2, np.pi / 6), (g, g2), (0, np.pi), (np.pi / 4, 0), (g + 2 * np.pi, g2)):
        out.append((f'FSim({th:.5f},{ph:.5f})', _later('cirq.FSimGate(th, ph)', locals())))
    for args in ((g, 0.3, 0.2, 0.1, 0.4), (0.0, 0.3, 0.2, 0.1, 0.4), (np.pi / 2, 0.3, 0.2, 0.1, 0.4), (g, 0.0, 0.0, 0.1, 0.4), (g, 0.3 + 2 * np.pi, 0.2, 0.1, 0.4)):
        out.append((f'PhasedFSim{tuple((round(a, 5) for a in args))}', _later('cirq.PhasedFSimGate(*args)', locals())))
    out.append(('SYC', _later('cirq_google.SYC', locals())))
    out.append(('Matrix1q', _later('cirq.MatrixGate(E.generic_unitary(2, seed))', locals())))
    out.append(("Matrix1q'", _later('cirq.MatrixGate(E.generic_unitary(2, seed) @ np.diag([1, np.exp(0.002j)]))', locals())))
    out.append(('Matrix2q', _later('cirq.MatrixGate(E.generic_unitary(4, seed + 1))', locals())))
    out.append(('Matrix3', _later('cirq.MatrixGate(E.generic_unitary(3, seed + 2), qid_shape=(3,))', locals())))
    out.append(('MatrixZ', _later('cirq.MatrixGate(np.diag([1, -1]).astype(complex))', locals())))
    out.append(('Matrix-X', _later('cirq.MatrixGate(-np.array([[0, 1], [1, 0]], dtype=complex))', locals())))
    out.append(('Diagonal1', _later('cirq.DiagonalGate([0.1, g])', locals())))
    out.append(('Diagonal2', _later('cirq.DiagonalGate([0.0, g, 2.0, -1.0])', locals())))
    out.append(('TwoQubitDiagonal', _later('cirq.TwoQubitDiagonalGate([0.0, g, 2.0, -1.0])', locals())))
    out.append(("TwoQubitDiagonal'", _later('cirq.TwoQubitDiagonalGate([0.0, g + 2 * np.pi, 2.0, -1.0])', locals())))
    out.append(('ThreeQubitDiagonal', _later('cirq.ThreeQubitDiagonalGate([0.0, g, 2.0, -1.0, 0.5, 0.25, 3.0, g2])', locals())))
    out.append(('CSWAP', _later('cirq.CSWAP', locals())))
    out.append(('I', _later('cirq.I', locals())))
    out.append(('I2', _later('cirq.IdentityGate(2)', locals())))
    out.append(('I(3,)', _later('cirq.IdentityGate(qid_shape=(3,))', locals())))
    out.append(('GlobalPhase(i)', _later('cirq.GlobalPhaseGate(1j)', locals())))
    out.append(('GlobalPhase(g)', _later('cirq.GlobalPhaseGate(np.exp(1j * g))', locals())))
    for e in (1.0, 0.5, g):
        out.append((f'PhaseGradient(2,e={e})', _later('cirq.PhaseGradientGate(num_qubits=2, exponent=e)', locals())))
    out.append(('QFT2', _later('cirq.QuantumFourierTransformGate(2)', locals())))
    out.append(('QFT2nr', _later('cirq.QuantumFourierTransformGate(2, without_reverse=True)', locals())))
    out.append(('Parallel(X**g,2)', _later('cirq.ParallelGate(cirq.X ** g, 2)', locals())))
    out.append(('Parallel(H,2)', _later('cirq.ParallelGate(cirq.H, 2)', locals())))
    out.append(('Parallel(S,2)', _later('cirq.ParallelGate(cirq.S, 2)', locals())))
    out.append(('DPS(XZ)', _later("cirq.DensePauliString('XZ')", locals())))
    out.append(('DPS(Y,i)', _later("cirq.DensePauliString('Y', coefficient=1j)", locals())))
    out.append(('DPS(ZX,-1)', _later("cirq.DensePauliString('ZX', coefficient=-1)", locals())))
    out.append(('DPS(X)', _later("cirq.DensePauliString('X')", locals())))
    out.append(('PSPhasor(XZ,g)', _later("cirq.PauliStringPhasorGate(cirq.DensePauliString('XZ'), exponent_neg=g, exponent_pos=0)", locals())))
    out.append(('PSPhasor(-ZZ,.5,.25)', _later("cirq.PauliStringPhasorGate(cirq.DensePauliString('ZZ', coefficient=-1), exponent_neg=0.5, exponent_pos=0.25)", locals())))
    S = cirq.SingleQubitCliffordGate
    for nm in ('I', 'X', 'Y', 'Z', 'H', 'X_sqrt', 'Y_sqrt', 'Z_sqrt', 'X_nsqrt', 'Z_nsqrt'):
        out.append((f'SQC.{nm}', _later('getattr(S, nm)', locals())))
    out.append(('Clifford.CNOT', _later('cirq.CliffordGate.CNOT', locals())))
    out.append(('Clifford.CZ', _later('cirq.CliffordGate.CZ', locals())))
    out.append(('Clifford.SWAP', _later('cirq.CliffordGate.SWAP', locals())))
    out.append(('Wait', _later('cirq.WaitGate(cirq.Duration(nanos=10))', locals())))
    out.append(('ionq.GPI(g)', _later('cirq_ionq.GPIGate(phi=g)', locals())))
    out.append(('ionq.GPI2(g)', _later('cirq_ionq.GPI2Gate(phi=g)', locals())))
    out.append(('ionq.MS(g,g2)', _later('cirq_ionq.MSGate(phi0=g, phi1=g2)', locals())))
    out.append(('ionq.MS(g,g2,.1)', _later('cirq_ionq.MSGate(phi0=g, phi1=g2, theta=0.1)', locals())))
    out.append(('ionq.ZZ(g)', _later('cirq_ionq.ZZGate(theta=g)', locals())))
    out.append(('C(Y**g)', _later('cirq.ControlledGate(cirq.Y ** g)', locals())))
    out.append(('C0(Matrix1q)', _later('cirq.ControlledGate(cirq.MatrixGate(E.generic_unitary(2, seed)), control_values=[0])', locals())))
    out.append(('C3(0,2)(Z**g)', _later('cirq.ControlledGate(cirq.Z ** g, control_values=[(0, 2)], control_qid_shape=(3,))', locals())))
    out.append(('Cxor(X)', _later('cirq.ControlledGate(cirq.X, control_values=cirq.SumOfProducts([(0, 0), (1, 1)]))', locals())))
    out.append(('C(Z)', _later('cirq.ControlledGate(cirq.Z)', locals())))
    out.append(('C(XPow(s=-.5))', _later('cirq.ControlledGate(cirq.XPowGate(exponent=0.5, global_shift=-0.5))', locals())))
    return out


def _build_subs(seed, tier):
    g = core.generic(seed, 0)
    g2 = core.generic(seed, 2)
    out = [('X', _later('cirq.X', locals())),
        ('X**0.5', _later('cirq.X ** 0.5', locals())),
        ('X**g', _later('cirq.X ** g', locals())),
        ('XPow(g,s=-.5)', _later('cirq.XPowGate(exponent=g, global_shift=-0.5)', locals())),
        ('XPow(1,s=.3)', _later('cirq.XPowGate(exponent=1, global_shift=0.3)', locals())),
        ('rx(g)', _later('cirq.rx(g)', locals())),
        ('XPowGate()', _later('cirq.XPowGate()', locals())),
        ('Y', _later('cirq.Y', locals())),
        ('Y**g', _later('cirq.Y ** g', locals())),
        ('YPow(g,s=-.5)', _later('cirq.YPowGate(exponent=g, global_shift=-0.5)', locals())),
        ('Z', _later('cirq.Z', locals())),
        ('Z**0.5', _later('cirq.S', locals())),
        ('Z**g', _later('cirq.Z ** g', locals())),
        ('ZPow(g,s=-.5)', _later('cirq.ZPowGate(exponent=g, global_shift=-0.5)', locals())),
        ('rz(g)', _later('cirq.rz(g)', locals())),
        ('H', _later('cirq.H', locals())),
        ('H**g', _later('cirq.H ** g', locals())),
        ('CZ', _later('cirq.CZ', locals())),
        ('CZ**g', _later('cirq.CZ ** g', locals())),
        ('CZPow(g,s=.3)', _later('cirq.CZPowGate(exponent=g, global_shift=0.3)', locals())),
        ('CX', _later('cirq.CX', locals())),
        ('CX**g', _later('cirq.CX ** g', locals())),
        ('CXPow(g,s=.3)', _later('cirq.CXPowGate(exponent=g, global_shift=0.3)', locals())),
        ('CY', _later('cirq.CY', locals())),
        ('CY**g', _later('cirq.CY ** g', locals())),
        ('CYPow(g,s=.3)', _later('cirq.CYPowGate(exponent=g, global_shift=0.3)', locals())),
        ('CCZ', _later('cirq.CCZ', locals())),
        ('CCZ**g', _later('cirq.CCZ ** g', locals())),
        ('CCZPow(g,s=.3)', _later('cirq.CCZPowGate(exponent=g, global_shift=0.3)', locals())),
        ('CCX', _later('cirq.CCX', locals())),
        ('CCX**g', _later('cirq.CCX ** g', locals())),
        ('CCXPow(g,s=.3)', _later('cirq.CCXPowGate(exponent=g, global_shift=0.3)', locals())),
        ('CCY**g', _later('cirq.CCYPowGate(exponent=g)', locals())),
        ('CCYPow(g,s=.3)', _later('cirq.CCYPowGate(exponent=g, global_shift=0.3)', locals())),
        ('CSWAP', _later('cirq.CSWAP', locals())),
        ('SWAP', _later('cirq.SWAP', locals())),
        ('ISWAP**g', _later('cirq.ISWAP ** g', locals())),
        ('Matrix1q', _later('cirq.MatrixGate(E.generic_unitary(2, seed))', locals())),
        ('Matrix3', _later('cirq.MatrixGate(E.generic_unitary(3, seed + 2), qid_shape=(3,))', locals())),
        ('X3', _later('cirq.XPowGate(dimension=3)', locals())),
        ('Z3**g', _later('cirq.ZPowGate(exponent=g, dimension=3)', locals())),
        ('Y3-like X3**g s=.3', _later('cirq.XPowGate(exponent=g, global_shift=0.3, dimension=3)', locals())),
        ('GlobalPhase(g)', _later('cirq.GlobalPhaseGate(np.exp(1j * g))', locals())),
        ('GlobalPhase(-1)', _later('cirq.GlobalPhaseGate(-1)', locals())),
        ('I', _later('cirq.I', locals())),
        ('PhasedX(g2,g)', _later('cirq.PhasedXPowGate(phase_exponent=g2, exponent=g)', locals())),
        ('DPS(XZ)', _later("cirq.DensePauliString('XZ')", locals())),
        ('C0(Y**g)', _later('cirq.ControlledGate(cirq.Y ** g, control_values=[0])', locals())),
        ('Cxor(Z**g)', _later('cirq.ControlledGate(cirq.Z ** g, control_values=cirq.SumOfProducts([(0, 0), (1, 1)]))', locals())),
        ('C3(1,2)(X)', _later('cirq.ControlledGate(cirq.X, control_values=[(1, 2)], control_qid_shape=(3,))', locals())),
        ('FSim(g,g2)', _later('cirq.FSimGate(g, g2)', locals()))]
    return out


def _build_letters(seed, tier):
    g = core.generic(seed, 0)
    g2 = core.generic(seed, 2)
    u1 = E.generic_unitary(2, seed + 5)
    u2 = E.generic_unitary(4, seed + 6)
    S = cirq.SingleQubitCliffordGate
    L = [('X(0)', _later('cirq.X(Q0)', locals())),
        ('Y(0)', _later('cirq.Y(Q0)', locals())),
        ('Z(0)', _later('cirq.Z(Q0)', locals())),
        ('Z(1)', _later('cirq.Z(Q1)', locals())),
        ('X(1)', _later('cirq.X(Q1)', locals())),
        ('Y(2)', _later('cirq.Y(Q2)', locals())),
        ('Z(0)**.5', _later('cirq.S(Q0)', locals())),
        ('Z(0)**g', _later('cirq.Z(Q0) ** g', locals())),
        ('Z(1)**g', _later('cirq.Z(Q1) ** g', locals())),
        ('rz(g)(0)', _later('cirq.rz(g)(Q0)', locals())),
        ('ZPow(g,s=.3)(0)', _later('cirq.ZPowGate(exponent=g, global_shift=0.3)(Q0)', locals())),
        ('Z(0)**(2+g)', _later('cirq.Z(Q0) ** (2 + g)', locals())),
        ('X(0)**g', _later('cirq.X(Q0) ** g', locals())),
        ('rx(g)(0)', _later('cirq.rx(g)(Q0)', locals())),
        ('X(0)**.5', _later('cirq.X(Q0) ** 0.5', locals())),
        ('X(0)**2.5', _later('cirq.X(Q0) ** 2.5', locals())),
        ('XPow(.5,s=-.5)(0)', _later('cirq.XPowGate(exponent=0.5, global_shift=-0.5)(Q0)', locals())),
        ('XPow(2.5,s=-.5)(0)', _later('cirq.XPowGate(exponent=2.5, global_shift=-0.5)(Q0)', locals())),
        ('Y(0)**g', _later('cirq.Y(Q0) ** g', locals())),
        ('Y(1)**.5', _later('cirq.Y(Q1) ** 0.5', locals())),
        ('H(0)', _later('cirq.H(Q0)', locals())),
        ('H(1)', _later('cirq.H(Q1)', locals())),
        ('H(1)**g', _later('cirq.H(Q1) ** g', locals())),
        ('T(2)', _later('cirq.T(Q2)', locals())),
        ('I(0)', _later('cirq.I(Q0)', locals())),
        ('I2(0,1)', _later('cirq.IdentityGate(2)(Q0, Q1)', locals())),
        ('CZ(0,1)', _later('cirq.CZ(Q0, Q1)', locals())),
        ('CZ(1,0)', _later('cirq.CZ(Q1, Q0)', locals())),
        ('CZ(1,2)', _later('cirq.CZ(Q1, Q2)', locals())),
        ('CZ(0,1)**g', _later('cirq.CZ(Q0, Q1) ** g', locals())),
        ('CZ(0,2)**.5', _later('cirq.CZ(Q0, Q2) ** 0.5', locals())),
        ('CNOT(0,1)', _later('cirq.CNOT(Q0, Q1)', locals())),
        ('CNOT(1,0)', _later('cirq.CNOT(Q1, Q0)', locals())),
        ('CNOT(1,2)', _later('cirq.CNOT(Q1, Q2)', locals())),
        ('CNOT(0,1)**g', _later('cirq.CNOT(Q0, Q1) ** g', locals())),
        ('CY(0,2)', _later('cirq.CY(Q0, Q2)', locals())),
        ('SWAP(0,1)', _later('cirq.SWAP(Q0, Q1)', locals())),
        ('SWAP(1,0)', _later('cirq.SWAP(Q1, Q0)', locals())),
        ('SWAP(1,2)**g', _later('cirq.SWAP(Q1, Q2) ** g', locals())),
        ('ISWAP(0,1)', _later('cirq.ISWAP(Q0, Q1)', locals())),
        ('ISWAP(1,0)**g', _later('cirq.ISWAP(Q1, Q0) ** g', locals())),
        ('ISWAP(0,1)**g', _later('cirq.ISWAP(Q0, Q1) ** g', locals())),
        ('ZZ(0,1)**g', _later('cirq.ZZ(Q0, Q1) ** g', locals())),
        ('ZZ(1,0)**g', _later('cirq.ZZ(Q1, Q0) ** g', locals())),
        ('ZZ(1,2)', _later('cirq.ZZ(Q1, Q2)', locals())),
        ('XX(0,1)**g', _later('cirq.XX(Q0, Q1) ** g', locals())),
        ('YY(0,2)**g', _later('cirq.YY(Q0, Q2) ** g', locals())),
        ('XX(1,2)', _later('cirq.XX(Q1, Q2)', locals())),
        ('FSim(g,g2)(0,1)', _later('cirq.FSimGate(g, g2)(Q0, Q1)', locals())),
        ('FSim(g,g2)(1,0)', _later('cirq.FSimGate(g, g2)(Q1, Q0)', locals())),
        ('PhFSim(g,.3,.2,.1,.4)(0,1)', _later('cirq.PhasedFSimGate(g, 0.3, 0.2, 0.1, 0.4)(Q0, Q1)', locals())),
        ('PhFSim(g,.3,.2,.1,.4)(1,0)', _later('cirq.PhasedFSimGate(g, 0.3, 0.2, 0.1, 0.4)(Q1, Q0)', locals())),
        ('PhFSim(g,0,0,.1,.4)(0,1)', _later('cirq.PhasedFSimGate(g, 0, 0, 0.1, 0.4)(Q0, Q1)', locals())),
        ('PhFSim(g,0,0,.1,.4)(1,0)', _later('cirq.PhasedFSimGate(g, 0, 0, 0.1, 0.4)(Q1, Q0)', locals())),
        ('PhFSim(0,.3,.2,.1,.4)(0,1)', _later('cirq.PhasedFSimGate(0, 0.3, 0.2, 0.1, 0.4)(Q0, Q1)', locals())),
        ('PhFSim(0,.3,.2,.1,.4)(1,0)', _later('cirq.PhasedFSimGate(0, 0.3, 0.2, 0.1, 0.4)(Q1, Q0)', locals())),
        ('PhFSim(pi/2,.3,.2,.1,.4)(0,1)', _later('cirq.PhasedFSimGate(np.pi / 2, 0.3, 0.2, 0.1, 0.4)(Q0, Q1)', locals())),
        ('PhFSim(pi/2,.3,.2,.1,.4)(1,0)', _later('cirq.PhasedFSimGate(np.pi / 2, 0.3, 0.2, 0.1, 0.4)(Q1, Q0)', locals())),
        ('PhISwap(.25,g)(0,1)', _later('cirq.PhasedISwapPowGate(phase_exponent=0.25, exponent=g)(Q0, Q1)', locals())),
        ('PhISwap(.25,g)(1,0)', _later('cirq.PhasedISwapPowGate(phase_exponent=0.25, exponent=g)(Q1, Q0)', locals())),
        ('PI(Z,X)(0,1)', _later('cirq.PauliInteractionGate(cirq.Z, False, cirq.X, False)(Q0, Q1)', locals())),
        ('PI(Z,X)(1,0)', _later('cirq.PauliInteractionGate(cirq.Z, False, cirq.X, False)(Q1, Q0)', locals())),
        ('PI(Y,Y)(0,1)**g', _later('cirq.PauliInteractionGate(cirq.Y, False, cirq.Y, False, exponent=g)(Q0, Q1)', locals())),
        ('PI(Y,Y)(1,0)**g', _later('cirq.PauliInteractionGate(cirq.Y, False, cirq.Y, False, exponent=g)(Q1, Q0)', locals())),
        ('CCZ(0,1,2)', _later('cirq.CCZ(Q0, Q1, Q2)', locals())),
        ('CCZ(2,0,1)', _later('cirq.CCZ(Q2, Q0, Q1)', locals())),
        ('CCZ(0,1,2)**g', _later('cirq.CCZ(Q0, Q1, Q2) ** g', locals())),
        ('CCX(0,1,2)', _later('cirq.CCX(Q0, Q1, Q2)', locals())),
        ('CCX(1,0,2)', _later('cirq.CCX(Q1, Q0, Q2)', locals())),
        ('CCX(0,2,1)', _later('cirq.CCX(Q0, Q2, Q1)', locals())),
        ('CCY(0,1,2)**g', _later('cirq.CCYPowGate(exponent=g)(Q0, Q1, Q2)', locals())),
        ('CCY(1,0,2)**g', _later('cirq.CCYPowGate(exponent=g)(Q1, Q0, Q2)', locals())),
        ('CSWAP(0,1,2)', _later('cirq.CSWAP(Q0, Q1, Q2)', locals())),
        ('CSWAP(0,2,1)', _later('cirq.CSWAP(Q0, Q2, Q1)', locals())),
        ('CSWAP(1,0,2)', _later('cirq.CSWAP(Q1, Q0, Q2)', locals())),
        ('X(2).c(0)', _later('cirq.X(Q2).controlled_by(Q0)', locals())),
        ('X(2).c0(0)', _later('cirq.X(Q2).controlled_by(Q0, control_values=[0])', locals())),
        ('CtrlOp([0],X(2))', _later('cirq.ControlledOperation([Q0], cirq.X(Q2))', locals())),
        ('Z(1).c(0,2;xor)', _later('cirq.Z(Q1).controlled_by(Q0, Q2, control_values=cirq.SumOfProducts([(0, 1), (1, 0)]))', locals())),
        ('Z(1).c(2,0;xor)', _later('cirq.Z(Q1).controlled_by(Q2, Q0, control_values=cirq.SumOfProducts([(0, 1), (1, 0)]))', locals())),
        ('Y(1)**g.c(0,2;[0,1])', _later('cirq.ControlledOperation([Q0, Q2], cirq.Y(Q1) ** g, [0, 1])', locals())),
        ('Y(1)**g.c(2,0;[1,0])', _later('cirq.ControlledOperation([Q2, Q0], cirq.Y(Q1) ** g, [1, 0])', locals())),
        ('Y(1)**g.c(2,0;[0,1])', _later('cirq.ControlledOperation([Q2, Q0], cirq.Y(Q1) ** g, [0, 1])', locals())),
        ('Y(1)**g.c(0,2;sop01)', _later('cirq.ControlledOperation([Q0, Q2], cirq.Y(Q1) ** g, cirq.SumOfProducts([(0, 1)]))', locals())),
        ('Z(1).c(0;(0,1))', _later('cirq.Z(Q1).controlled_by(Q0, control_values=[(0, 1)])', locals())),
        ('M1q(0)', _later('cirq.MatrixGate(u1)(Q0)', locals())),
        ('M1q(1).c(2)', _later('cirq.MatrixGate(u1)(Q1).controlled_by(Q2)', locals())),
        ('M2q(0,1)', _later('cirq.MatrixGate(u2)(Q0, Q1)', locals())),
        ('M2q(1,0)', _later('cirq.MatrixGate(u2)(Q1, Q0)', locals())),
        ('PS X0 Z1', _later('cirq.X(Q0) * cirq.Z(Q1)', locals())),
        ('PS Y0 Y1', _later('cirq.Y(Q0) * cirq.Y(Q1)', locals())),
        ('PS i X0 X2', _later('1j * cirq.X(Q0) * cirq.X(Q2)', locals())),
        ('PS Z0', _later('cirq.PauliString({Q0: cirq.Z})', locals())),
        ('PS -Z1 Z2', _later('-1 * cirq.Z(Q1) * cirq.Z(Q2)', locals())),
        ('PS iY0', _later('1j * cirq.Y(Q0)', locals())),
        ('PS -X1', _later('-1 * cirq.X(Q1)', locals())),
        ('DPS(XZ)(0,1)', _later("cirq.DensePauliString('XZ').on(Q0, Q1)", locals())),
        ('PSPhasor(X0 Z1,g)', _later('cirq.PauliStringPhasor(cirq.X(Q0) * cirq.Z(Q1), exponent_neg=g)', locals())),
        ('PSPhasor(Z0 Z2,.5)', _later('cirq.PauliStringPhasor(cirq.Z(Q0) * cirq.Z(Q2), exponent_neg=0.5)', locals())),
        ('SQC.X(0)', _later('S.X(Q0)', locals())),
        ('SQC.Z(0)', _later('S.Z(Q0)', locals())),
        ('SQC.H(0)', _later('S.H(Q0)', locals())),
        ('SQC.Z_sqrt(0)', _later('S.Z_sqrt(Q0)', locals())),
        ('SQC.X(1)', _later('S.X(Q1)', locals())),
        ('Cliff.CNOT(0,1)', _later('cirq.CliffordGate.CNOT(Q0, Q1)', locals())),
        ('Cliff.CZ(1,0)', _later('cirq.CliffordGate.CZ(Q1, Q0)', locals())),
        ('Parallel(X**g)(0,2)', _later('cirq.ParallelGate(cirq.X ** g, 2)(Q0, Q2)', locals())),
        ('Parallel(Z)(0,1)', _later('cirq.ParallelGate(cirq.Z, 2)(Q0, Q1)', locals())),
        ('GlobalPhase(g)', _later('cirq.global_phase_operation(np.exp(1j * g))', locals())),
        ('GlobalPhase(-1)', _later('cirq.global_phase_operation(-1)', locals())),
        ('X(0)[tag]', _later("cirq.X(Q0).with_tags('t')", locals())),
        ('Z(0)**g[tag]', _later("(cirq.Z(Q0) ** g).with_tags('t')", locals())),
        ('CZ(0,1)[tag2]', _later("cirq.CZ(Q0, Q1).with_tags('u')", locals())),
        ('PhasedX(g2,g)(0)', _later('cirq.PhasedXPowGate(phase_exponent=g2, exponent=g)(Q0)', locals())),
        ('PhasedX(.5,1)(0)', _later('cirq.PhasedXPowGate(phase_exponent=0.5)(Q0)', locals())),
        ('PhasedXZ(1,0,.5)(0)', _later('cirq.PhasedXZGate(x_exponent=1, z_exponent=0, axis_phase_exponent=0.5)(Q0)', locals())),
        ('Diag2(0,1)', _later('cirq.TwoQubitDiagonalGate([0.0, g, 2.0, -1.0])(Q0, Q1)', locals())),
        ('Diag3', _later('cirq.ThreeQubitDiagonalGate([0.0, g, 2.0, -1.0, 0.5, 0.25, 3.0, g2])(Q0, Q1, Q2)', locals())),
        ('QFT(0,1)', _later('cirq.QuantumFourierTransformGate(2)(Q0, Q1)', locals())),
        ('CircuitOp[H0,CZ01]', _later('cirq.CircuitOperation(cirq.FrozenCircuit(cirq.H(Q0), cirq.CZ(Q0, Q1)))', locals())),
        ('CircuitOp[Z0]', _later('cirq.CircuitOperation(cirq.FrozenCircuit(cirq.Z(Q0)))', locals())),
        ('M(0;m)', _later("cirq.measure(Q0, key='m')", locals())),
        ('M(1;k)', _later("cirq.measure(Q1, key='k')", locals())),
        ('M(1,0;m)', _later("cirq.measure(Q1, Q0, key='m')", locals())),
        ('X(1)?m', _later("cirq.X(Q1).with_classical_controls('m')", locals())),
        ('Z(1)?k', _later("cirq.Z(Q1).with_classical_controls('k')", locals())),
        ('Z(2)?m', _later("cirq.Z(Q2).with_classical_controls('m')", locals())),
        ('depol(.1)(0)', _later('cirq.depolarize(0.1)(Q0)', locals())),
        ('phase_damp(.2)(1)', _later('cirq.phase_damp(0.2)(Q1)', locals())),
        ('reset(2)', _later('cirq.ResetChannel()(Q2)', locals()))]
    return L

def _init(seed, tier):
    global GATES, SUBS, LETTERS, PERMG, POWERS, _SEED, _TIER
    _SEED, _TIER = seed, tier
    gp = core.generic(seed, 1)
    POWERS = [-1, 0, 0.5, 1, 2, -0.25, gp, 2 + gp]
    GATES = Alpha(_build_gates(seed, tier))
    SUBS = Alpha(_build_subs(seed, tier))
    LETTERS = Alpha(_build_letters(seed, tier))
    PERMG = Alpha(_build_permg(seed, tier))
    _UC.clear()
    _LC.clear()
    _PU.clear()


def gate_u(i):
    if i not in _UC:
        m = U(GATES.make(i))
        if m is None:
            raise core.HarnessError(f"gate {GATES.name(i)} has no unitary")
        _UC[i] = m
    return _UC[i]


def is_eigen(g):
    return isinstance(g, cirq.EigenGate)


def is_clifford_family(g):
    return isinstance(g, cirq.CliffordGate)


def line_qids(shape, start=0):
    return [cirq.LineQid(start + i, dimension=d) if d != 2 else cirq.LineQubit(start + i) for i, d in enumerate(shape)]


def guarded(fn_name, f, **sig):
    """Run one protocol call; an exception on an accepted input is a violation (returned as a Res)."""
    try:
        return True, f()
    except core.HarnessError:
        raise
    except Exception as e:  # noqa: BLE001 - every undocumented exception is reported
        fn = sig.pop("fn", None) or fn_name.split("(")[0]
        return False, bad(f"{fn_name} raised {type(e).__name__}: {str(e)[:500]}", kind="exception", fn=fn,
                          exception=type(e).__name__, **sig)


def pair_defect(kind, a, b):
    """Signature tag naming a known root cause (used only to let known_findings.json match a finding)."""
    ga = getattr(a, "gate", None) if isinstance(a, cirq.Operation) else a
    gb = getattr(b, "gate", None) if isinstance(b, cirq.Operation) else b
    both = lambda cls: isinstance(ga, cls) and isinstance(gb, cls)
    if kind == "commutes_true" and both(cirq.SingleQubitCliffordGate):
        return "sqclifford_commutes_ignores_phase"
    if kind in ("approx_eq", "eq_up_to_phase") and both(cirq.PauliInteractionGate):
        return "pauli_interaction_approx_values"
    if kind in ("eq_matrix", "approx_eq", "eq_up_to_phase") and both(cirq_ionq.MSGate):
        return "ionq_ms_eq_ignores_theta"
    if kind == "exception_approx_eq" and both(cirq.MatrixGate):
        return "matrixgate_approx_eq_shape"
    if kind == "exception_commutes" and (isinstance(a, cirq.TaggedOperation) or isinstance(b, cirq.TaggedOperation)):
        return "tagged_commutes_drops_default"
    return ""


# --------------------------------------------------------------------------------------------------------------
# stage: pow / inverse of single gates


def ref_pow(g, base, t):
    """Reference matrix of g**t or None when no unique reference exists (non-eigen gate, non-integer t)."""
    if is_eigen(g):
        return eigen_ref(g, t)
    if float(t) == int(t):
        t = int(t)
        if t >= 0:
            return np.linalg.matrix_power(base, t)
        return np.linalg.matrix_power(base.conj().T, -t)
    return None


def weak_pow_check(label, base, m, t, cmp):
    """A root / generic real power of a non-eigen gate: must be unitary, a function of the base (commute with it) and
    satisfy the defining root equation where one exists."""
    if not is_unitary(m):
        return bad(f"{label} is not unitary", kind="pow_nonunitary")
    if not close(m @ base, base @ m):
        return bad(f"{label} does not commute with the base matrix", kind="pow_not_function_of_base")
    if t == 0.5 and not cmp(base, m @ m):
        return bad(f"{label} squared differs from the base by {maxdiff(base, m @ m):.3g}", kind="pow_root")
    if t == -0.25 and not cmp(base.conj().T, np.linalg.matrix_power(m, 4)):
        return bad(f"({label})**4 differs from the inverse of the base by {maxdiff(base.conj().T, np.linalg.matrix_power(m, 4)):.3g}", kind="pow_root")
    return None


def run_pow(case):
    gi, ti = case
    name, g = GATES.name(gi), GATES.make(gi)
    t = POWERS[ti]
    base = gate_u(gi)
    up_to_phase = is_clifford_family(g)   # tableau gates are documented to drop the global phase
    cmp = (lambda a, b: E.eq_up_to_phase(a, b, ATOL)) if up_to_phase else close
    if is_eigen(g) and ti == 0:
        msg = eigen_components_consistent(g)
        if msg:
            return bad(f"{name}: _eigen_components {msg}", kind="eigen_components")
        if not close(eigen_ref(g, 1.0), base):
            return bad(f"{name}: cirq.unitary differs from sum exp(i pi e (theta_k+s)) P_k by {maxdiff(eigen_ref(g, 1.0), base):.3g}", kind="eigen_unitary")
    ok, r = guarded(f"cirq.pow({name}, {t})", lambda: cirq.pow(g, t, None))
    if not ok:
        return r
    checked = 0
    if r is not None:
        m = U(r)
        if m is None:
            return bad(f"cirq.pow({name}, {t}) = {r!r} has no unitary although the base gate has one", kind="pow_no_unitary")
        if cirq.qid_shape(r) != cirq.qid_shape(g):
            return bad(f"cirq.pow({name}, {t}) changed qid_shape {cirq.qid_shape(g)} -> {cirq.qid_shape(r)}", kind="pow_shape")
        ref = ref_pow(g, base, t)
        if ref is not None:
            if not cmp(ref, m):
                return bad(f"cirq.pow({name}, {t}) = {r!r}: matrix differs from the reference power by {maxdiff(ref, m):.3g} "
                           f"(up to phase {phase_dist(ref, m):.3g})", kind="pow_matrix", eigen=is_eigen(g))
        else:
            w = weak_pow_check(f"cirq.pow({name}, {t})", base, m, t, cmp)
            if w is not None:
                return w
        checked += 1
        # the same power through an operation on line qids must agree with the gate-level power
        qs = line_qids(cirq.qid_shape(g))
        if qs:
            op = g.on(*qs)
            ok, ro = guarded(f"cirq.pow({name}.on(..), {t})", lambda: cirq.pow(op, t, None))
            if not ok:
                return ro
            if ro is not None:
                mo = U(ro)
                if mo is None or set(ro.qubits) != set(qs):
                    return bad(f"cirq.pow({name}.on(..), {t}) = {ro!r}: no unitary / different qubits", kind="pow_op")
                mo = E.embed(mo, [qs.index(q) for q in ro.qubits], [q.dimension for q in qs])
                if not cmp(m, mo):
                    sp = "paulistring_pow_drops_coefficient" if isinstance(op, cirq.PauliString) else ""
                    return bad(f"cirq.pow({name}.on(..), {t}) = {ro!r} and cirq.pow(gate, {t}) = {r!r} have different matrices "
                               f"(max diff {maxdiff(m, mo):.3g})", kind="pow_op", defect=sp)
                checked += 1
    if ti == 0:
        ok, inv = guarded(f"cirq.inverse({name})", lambda: cirq.inverse(g, None))
        if not ok:
            return inv
        if inv is not None:
            mi = U(inv)
            if mi is None:
                return bad(f"cirq.inverse({name}) has no unitary", kind="inverse")
            eye = np.eye(base.shape[0])
            if not cmp(eye, mi @ base) or not cmp(eye, base @ mi):
                return bad(f"cirq.inverse({name}) = {inv!r} does not undo the gate: |inv.g - 1| = {maxdiff(eye, mi @ base):.3g}", kind="inverse")
            checked += 1
    if checked == 0:
        return Res(skipped=True, nontrivial=False)
    return good(nontrivial=True, results_checked=checked)


def run_pow_pair(case):
    """powers add: U(g**s) U(g**t) = U(g**(s+t)); EigenGate: (g**s)**t has the eigen matrix at exponent e*s*t."""
    gi, si, ti = case
    name, g = GATES.name(gi), GATES.make(gi)
    s, t = POWERS[si], POWERS[ti]
    a = cirq.pow(g, s, None)
    b = cirq.pow(g, t, None)
    if a is None or b is None:
        return Res(skipped=True, nontrivial=False)
    up_to_phase = is_clifford_family(g)
    cmp = (lambda x, y: E.eq_up_to_phase(x, y, ATOL)) if up_to_phase else close
    ma, mb = U(a), U(b)
    checked = 0
    c = cirq.pow(g, s + t, None)
    if c is not None:
        mc_ = U(c)
        if not cmp(mc_, ma @ mb):
            return bad(f"{name}: U(g**{s}) U(g**{t}) differs from U(g**{s + t}) by {maxdiff(mc_, ma @ mb):.3g}", kind="powers_add", eigen=is_eigen(g))
        checked += 1
    ab = cirq.pow(a, t, None)
    if ab is not None and is_eigen(g):
        ref = eigen_ref(g, s * t)
        mab = U(ab)
        if mab is None or not cmp(ref, mab):
            return bad(f"{name}: (g**{s})**{t} = {ab!r} differs from the eigen-decomposition at exponent e*{s * t} by {maxdiff(ref, mab):.3g}", kind="pow_of_pow")
        checked += 1
    elif ab is not None and float(t) == int(t):
        ref = np.linalg.matrix_power(ma if t >= 0 else ma.conj().T, abs(int(t)))
        mab = U(ab)
        if mab is None or not cmp(ref, mab):
            return bad(f"{name}: (g**{s})**{t} differs from the integer matrix power of U(g**{s}) by {maxdiff(ref, mab):.3g}", kind="pow_of_pow")
        checked += 1
    if not checked:
        return Res(skipped=True, nontrivial=False)
    return good(nontrivial=True, results_checked=checked)


def run_op_pow(case):
    """cirq.pow / cirq.inverse of placed operations (GateOperation, ControlledOperation, PauliString, tagged, CircuitOperation)."""
    li, ti = case
    info = letter_info(li)
    if info["mat"] is None:
        return Res(skipped=True, nontrivial=False)
    name = info["name"]
    op = LETTERS.make(li)
    t = POWERS[ti]
    base = info["mat"]
    gate = op.gate
    up_to_phase = is_clifford_family(gate)
    cmp = (lambda a, b: E.eq_up_to_phase(a, b, ATOL)) if up_to_phase else close
    if isinstance(op, cirq.CircuitOperation) and float(t) != int(t):
        # documented rejection: CircuitOperation.repeat raises TypeError for non-integer repetitions
        try:
            cirq.pow(op, t, None)
        except TypeError:
            return Res(skipped=True, nontrivial=False)
    ok, r = guarded(f"cirq.pow({name}, {t})", lambda: cirq.pow(op, t, None))
    if not ok:
        return r
    if r is None:
        return Res(skipped=True, nontrivial=False)
    m = U(r)
    if m is None or not isinstance(r, cirq.Operation) or not set(r.qubits) <= set(REG):
        return bad(f"cirq.pow({name}, {t}) = {r!r}: not a unitary operation on the same register", kind="op_pow")
    m = E.embed(m, [REG.index(q) for q in r.qubits], REGSHAPE)
    if is_eigen(gate) and not isinstance(op, (cirq.ControlledOperation,)):
        ref = E.embed(eigen_ref(gate, t), [REG.index(q) for q in op.qubits], REGSHAPE)
    elif float(t) == int(t):
        ref = np.linalg.matrix_power(base if t >= 0 else base.conj().T, abs(int(t)))
    else:
        ref = None
    if ref is not None:
        if not cmp(ref, m):
            sp = "paulistring_pow_drops_coefficient" if isinstance(op, cirq.PauliString) and len(op) == 1 else ""
            return bad(f"cirq.pow({name}, {t}) = {r!r}: matrix on the register differs from the reference power by {maxdiff(ref, m):.3g} "
                       f"(up to phase {phase_dist(ref, m):.3g})", kind="op_pow", defect=sp)
    else:
        w = weak_pow_check(f"cirq.pow({name}, {t})", base, m, t, cmp)
        if w is not None:
            if isinstance(op, cirq.PauliString) and len(op) == 1:
                w.sig["defect"] = "paulistring_pow_drops_coefficient"
            return w
    return good(nontrivial=True)


# --------------------------------------------------------------------------------------------------------------
# stage: ControlValues algebra


def run_cv_unary(case):
    (si,) = case
    spec = SPECS[si]
    kind, shape, data = spec
    sel = spec_selected(spec)
    cvo = spec_cv_obj(spec)
    if cirq.num_qubits(cvo) != len(shape):
        return bad(f"num_qubits({cvo!r}) = {cirq.num_qubits(cvo)} for {len(shape)} controls", kind="cv_num_qubits")
    ex = cvo.expand()
    got = set(tuple(p) for p in ex)
    if not isinstance(ex, cirq.SumOfProducts) or got != sel:
        return bad(f"{cvo!r}.expand() = {sorted(got)} but the specification selects {sorted(sel)}", kind="cv_expand")
    triv = (sel == {(1,) * len(shape)})
    if bool(cvo.is_trivial) and not triv:
        return bad(f"{cvo!r}.is_trivial is True but it selects {sorted(sel)}", kind="cv_trivial")
    # validate against every shape of the same length with dims in {1,2,3,4}
    for sh in itertools.product((1, 2, 3, 4), repeat=len(shape)):
        in_range = all(0 <= v < d for p in sel for v, d in zip(p, sh))
        try:
            cvo.validate(list(sh))
            ok = True
        except ValueError:
            ok = False
        if ok != in_range:
            return bad(f"{cvo!r}.validate({sh}) {'accepted' if ok else 'rejected'} but values are {'in' if in_range else 'out of'} range", kind="cv_validate")
    return good(nontrivial=True)


def run_cv_pair(case):
    si, sj = case
    a, b = SPECS[si], SPECS[sj]
    ca, cb = spec_cv_obj(a), spec_cv_obj(b)
    sa, sb = spec_selected(a), spec_selected(b)
    r = ca & cb
    got = set(tuple(p) for p in r.expand())
    want = {x + y for x in sa for y in sb}
    if got != want or cirq.num_qubits(r) != len(a[1]) + len(b[1]):
        return bad(f"({ca!r} & {cb!r}).expand() = {sorted(got)}; expected the cartesian product {sorted(want)}", kind="cv_and")
    if len(a[1]) == len(b[1]):
        r2 = ca | cb
        got2 = set(tuple(p) for p in r2.expand())
        if got2 != (sa | sb):
            return bad(f"({ca!r} | {cb!r}).expand() = {sorted(got2)}; the documented union of the two predicates is {sorted(sa | sb)}",
                       kind="cv_or", defect="product_of_sums_or" if a[0] == b[0] == "pos" else "")
    if ca == cb:
        if sa != sb:
            return bad(f"{ca!r} == {cb!r} but they select {sorted(sa)} vs {sorted(sb)}", kind="cv_eq")
        if hash(ca) != hash(cb):
            return bad(f"{ca!r} == {cb!r} but hashes differ", kind="cv_hash")
    return good(nontrivial=True)


# --------------------------------------------------------------------------------------------------------------
# stage: controlled gates / operations


VARIANTS = ["gate.controlled", "ControlledGate", "op.controlled_by", "ControlledOperation", "defaults", "int_values"]


def variant_applicable(spec, v):
    if v == 4:
        return spec[0] == "pos" and all(x == (1,) for x in spec[2])
    if v == 5:
        return spec[0] == "pos" and all(len(x) == 1 for x in spec[2])
    return True


def post_checks(label, obj, m, sub, sel, shape, usub, is_gate):
    """Derived-object predicates on a controlled gate/op whose matrix m (own qubit order) was just verified."""
    n = 0
    tdb = cirq.trace_distance_bound(obj)
    true = true_trace_distance(m)
    if not (tdb >= true - 1e-8):
        return bad(f"trace_distance_bound({label}) = {tdb:.9f} < true max trace distance {true:.9f}", kind="trace_distance_bound", derived=True), n
    n += 1
    qshape = cirq.qid_shape(obj)
    if all(d == 2 for d in qshape) and len(qshape) <= 4 and cirq.has_stabilizer_effect(obj):
        msg = maps_paulis_to_paulis(m, len(qshape))
        if msg:
            return bad(f"has_stabilizer_effect({label}) is True but {msg}", kind="has_stabilizer_effect", derived=True), n
        n += 1
    for t in (-1, POWERS[6]):
        r = cirq.pow(obj, t, None)
        if r is None:
            continue
        sp = ref_pow(sub, usub, t)
        if sp is None:
            continue
        ref = block_ref(shape, sel, sp)
        mr = U(r)
        if mr is None:
            return bad(f"cirq.pow({label}, {t}) has no unitary", kind="controlled_pow", derived=True), n
        if not is_gate and tuple(r.qubits) != tuple(obj.qubits):
            continue
        if not close(ref, mr):
            return bad(f"cirq.pow({label}, {t}) = {r!r}: differs from the controlled power of the sub gate by {maxdiff(ref, mr):.3g}", kind="controlled_pow", derived=True), n
        n += 1
    if is_gate:
        inv = cirq.inverse(obj, None)
        if inv is not None:
            mi = U(inv)
            if mi is None or not close(mi @ m, np.eye(m.shape[0])):
                return bad(f"cirq.inverse({label}) does not undo it", kind="controlled_inverse", derived=True), n
            n += 1
    return None, n


def _ctrl_defect(sub):
    if isinstance(sub, (cirq.XPowGate, cirq.ZPowGate)) and sub.dimension != 2:
        return "qudit_xz_controlled_specialised_to_qubit_gate"
    return ""


def run_controlled(case):
    gi, si, v = case
    name, sub = SUBS.name(gi), SUBS.make(gi)
    spec = SPECS[si]
    kind, shape, data = spec
    sel = spec_selected(spec)
    usub = U(sub)
    tshape = cirq.qid_shape(sub)
    ref = block_ref(shape, sel, usub)
    k = len(shape)
    label = f"{name} via {VARIANTS[v]} spec={spec}"
    sig = dict(kind="controlled_matrix", variant=VARIANTS[v], default_spec=spec_is_default(spec), defect=_ctrl_defect(sub))
    if v in (0, 1, 4, 5):
        if v == 0:
            build = lambda: sub.controlled(num_controls=k, control_values=spec_cv_raw(spec), control_qid_shape=shape)
        elif v == 1:
            build = lambda: cirq.ControlledGate(sub, control_values=spec_cv_obj(spec), control_qid_shape=shape)
        elif v == 4 and spec_is_default(spec):
            build = lambda: (sub.controlled(k) if k > 1 else sub.controlled())
        elif v == 4:
            build = lambda: sub.controlled(control_qid_shape=shape)   # default values (1,) on qudit controls
        else:
            build = lambda: sub.controlled(control_values=spec_cv_raw(spec, ints=True), control_qid_shape=shape)
        ok, obj = guarded(label, build, fn="controlled", variant=VARIANTS[v], defect=_ctrl_defect(sub))
        if not ok:
            return obj
        if cirq.qid_shape(obj) != tuple(shape) + tuple(tshape):
            return bad(f"{label}: result {obj!r} has qid_shape {cirq.qid_shape(obj)}, expected {tuple(shape) + tuple(tshape)}", **dict(sig, kind="controlled_shape"))
        m = U(obj)
        if m is None:
            return bad(f"{label}: result {obj!r} has no unitary", **dict(sig, kind="controlled_no_unitary"))
        if not close(ref, m):
            return bad(f"{label}: result {obj!r} differs from the block matrix (U on control states {sorted(sel)} of shape {shape}) by {maxdiff(ref, m):.3g}", **sig)
        r, n = post_checks(label, obj, m, sub, sel, shape, usub, True)
        if r is not None:
            return r
        return good(nontrivial=True, derived_checks=n)
    # operation variants: controls get HIGHER line indices than the targets and are listed in reverse index order
    targets = line_qids(tshape, start=0)
    ctrls = [cirq.LineQid(10 + (k - 1 - i), dimension=d) if d != 2 else cirq.LineQubit(10 + (k - 1 - i)) for i, d in enumerate(shape)]
    base_op = sub.on(*targets) if targets else sub.on()
    if v == 2:
        build = lambda: base_op.controlled_by(*ctrls, control_values=spec_cv_raw(spec))
    else:
        build = lambda: cirq.ControlledOperation(ctrls, base_op, spec_cv_obj(spec))
    ok, op = guarded(label, build, fn="controlled", variant=VARIANTS[v], defect=_ctrl_defect(sub))
    if not ok:
        return op
    reg = sorted(set(ctrls) | set(targets))
    rshape = [q.dimension for q in reg]
    if set(op.qubits) != set(reg):
        return bad(f"{label}: result {op!r} acts on {op.qubits}, expected {reg}", **dict(sig, kind="controlled_qubits"))
    mo = U(op)
    if mo is None:
        return bad(f"{label}: result {op!r} has no unitary", **dict(sig, kind="controlled_no_unitary"))
    got = E.embed(mo, [reg.index(q) for q in op.qubits], rshape)
    want = E.embed(ref, [reg.index(q) for q in ctrls + targets], rshape)
    if not close(want, got):
        return bad(f"{label}: operation {op!r} differs from 'apply U on {targets} iff controls {ctrls} in {sorted(sel)}' by {maxdiff(want, got):.3g}", **sig)
    n = 0
    if tuple(op.qubits) == tuple(ctrls + targets):
        r, n = post_checks(label, op, ref, sub, sel, shape, usub, False)
        if r is not None:
            return r
    return good(nontrivial=True, derived_checks=n)


def run_nested(case):
    gi, s1, s2, v = case
    name, sub = SUBS.name(gi), SUBS.make(gi)
    sp1, sp2 = SPECS[s1], SPECS[s2]
    sel1, sel2 = spec_selected(sp1), spec_selected(sp2)
    shape = tuple(sp2[1]) + tuple(sp1[1])
    sel = {b + a for a in sel1 for b in sel2}
    usub = U(sub)
    tshape = cirq.qid_shape(sub)
    ref = block_ref(shape, sel, usub)
    label = f"{name} nested inner={sp1} outer={sp2} ({'gate' if v == 0 else 'op'})"
    sig = dict(kind="nested_controlled", default_spec=spec_is_default(sp1) and spec_is_default(sp2), defect=_ctrl_defect(sub))
    if v == 0:
        ok, obj = guarded(label, lambda: sub.controlled(num_controls=len(sp1[1]), control_values=spec_cv_raw(sp1), control_qid_shape=sp1[1])
                          .controlled(num_controls=len(sp2[1]), control_values=spec_cv_raw(sp2), control_qid_shape=sp2[1]), fn="controlled", defect=_ctrl_defect(sub))
        if not ok:
            return obj
        if cirq.qid_shape(obj) != shape + tuple(tshape):
            return bad(f"{label}: result {obj!r} has qid_shape {cirq.qid_shape(obj)}, expected {shape + tuple(tshape)}", **dict(sig, kind="nested_shape"))
        m = U(obj)
        if m is None or not close(ref, m):
            return bad(f"{label}: result {obj!r} differs from the block matrix over control states {sorted(sel)} by {maxdiff(ref, m) if m is not None else 'n/a'}", **sig)
        tdb = cirq.trace_distance_bound(obj)
        if not (tdb >= true_trace_distance(m) - 1e-8):
            return bad(f"trace_distance_bound({label}) = {tdb} < {true_trace_distance(m)}", kind="trace_distance_bound", derived=True)
        return good(nontrivial=True)
    targets = line_qids(tshape, start=3)
    c1 = [cirq.LineQid(20 - i, dimension=d) if d != 2 else cirq.LineQubit(20 - i) for i, d in enumerate(sp1[1])]
    c2 = [cirq.LineQid(i, dimension=d) if d != 2 else cirq.LineQubit(i) for i, d in enumerate(sp2[1])]
    base_op = sub.on(*targets) if targets else sub.on()
    ok, op = guarded(label, lambda: base_op.controlled_by(*c1, control_values=spec_cv_raw(sp1)).controlled_by(*c2, control_values=spec_cv_raw(sp2)),
                     fn="controlled", defect=_ctrl_defect(sub))
    if not ok:
        return op
    reg = sorted(set(c1) | set(c2) | set(targets))
    rshape = [q.dimension for q in reg]
    if set(op.qubits) != set(reg):
        return bad(f"{label}: result {op!r} acts on {op.qubits}, expected {reg}", **dict(sig, kind="nested_qubits"))
    mo = U(op)
    if mo is None:
        return bad(f"{label}: result {op!r} has no unitary", **dict(sig, kind="nested_no_unitary"))
    got = E.embed(mo, [reg.index(q) for q in op.qubits], rshape)
    want = E.embed(ref, [reg.index(q) for q in c2 + c1 + targets], rshape)
    if not close(want, got):
        return bad(f"{label}: operation {op!r} differs from the doubly controlled reference by {maxdiff(want, got):.3g}", **sig)
    return good(nontrivial=True)


# --------------------------------------------------------------------------------------------------------------
# stage: phase_by


def turns(seed):
    return [0.25, 0.5, 0.125, 1.0, -0.3, core.generic(seed, 3) / 2]


def run_phase_by(case):
    gi, ti, qi = case
    name, g = GATES.name(gi), GATES.make(gi)
    t = turns(_SEED)[ti]
    shape = cirq.qid_shape(g)
    base = gate_u(gi)
    Zq = E.embed(zpow(t), [qi], shape)
    ref = Zq @ base @ Zq.conj().T
    ok, r = guarded(f"phase_by({name}, {t}, {qi})", lambda: cirq.phase_by(g, t, qi, None))
    if not ok:
        return r
    checked = 0
    if r is not None:
        m = U(r)
        if m is None:
            return bad(f"phase_by({name}, {t}, {qi}) = {r!r} has no unitary", kind="phase_by")
        if not E.eq_up_to_phase(ref, m, ATOL):
            return bad(f"phase_by({name}, {t}, {qi}) = {r!r}: differs from Z_{qi}^(2t) U Z_{qi}^(-2t) up to global phase by {phase_dist(ref, m):.3g}", kind="phase_by", level="gate")
        checked += 1
    qs = line_qids(shape)
    op = g.on(*qs)
    for o, lvl in ((op, "op"), (op.with_tags("tag"), "tagged")):
        ok, ro = guarded(f"phase_by({name}.on(..) [{lvl}], {t}, {qi})", lambda: cirq.phase_by(o, t, qi, None))
        if not ok:
            return ro
        if ro is None:
            continue
        mo = U(ro)
        if mo is None or set(ro.qubits) != set(qs):
            return bad(f"phase_by({name}.on(..) [{lvl}], {t}, {qi}) = {ro!r}: no unitary or different qubits", kind="phase_by", level=lvl)
        mo = E.embed(mo, [qs.index(q) for q in ro.qubits], shape)
        if not E.eq_up_to_phase(ref, mo, ATOL):
            return bad(f"phase_by({name}.on(..) [{lvl}], {t}, {qi}) differs from Z-conjugation up to phase by {phase_dist(ref, mo):.3g}", kind="phase_by", level=lvl)
        checked += 1
    if not checked:
        return Res(skipped=True, nontrivial=False)
    return good(nontrivial=not E.eq_up_to_phase(base, ref, ATOL), results_checked=checked)


# --------------------------------------------------------------------------------------------------------------
# stage: unary predicates on single gates


def run_unary(case):
    (gi,) = case
    name, g = GATES.name(gi), GATES.make(gi)
    base = gate_u(gi)
    shape = cirq.qid_shape(g)
    n = len(shape)
    checked = 0
    true = true_trace_distance(base)
    for obj, lvl in ((g, "gate"), (g.on(*line_qids(shape)) if n else g.on(), "op")):
        ok, tdb = guarded(f"trace_distance_bound({name} [{lvl}])", lambda: cirq.trace_distance_bound(obj))
        if not ok:
            return tdb
        if not (tdb >= true - 1e-8):
            return bad(f"trace_distance_bound({name} [{lvl}]) = {tdb:.9f} < true max trace distance {true:.9f} "
                       f"(eigen-phases {np.round(np.angle(np.linalg.eigvals(base)), 5).tolist()})", kind="trace_distance_bound", level=lvl)
        checked += 1
        if all(d == 2 for d in shape) and n <= 3:
            ok, hs = guarded(f"has_stabilizer_effect({name} [{lvl}])", lambda: cirq.has_stabilizer_effect(obj))
            if not ok:
                return hs
            if hs:
                msg = maps_paulis_to_paulis(base, n)
                if msg:
                    return bad(f"has_stabilizer_effect({name} [{lvl}]) is True but {msg}", kind="has_stabilizer_effect", level=lvl)
                checked += 1
            ok, ex = guarded(f"pauli_expansion({name} [{lvl}])", lambda: cirq.pauli_expansion(obj, default=None))
            if not ok:
                return ex
            if ex is not None:
                names, stack = pauli_stack(n)
                for key in ex.keys():
                    if key not in names:
                        return bad(f"pauli_expansion({name} [{lvl}]) has key {key!r} that is not an {n}-qubit Pauli name", kind="pauli_expansion", level=lvl)
                want = np.einsum("kij,ij->k", stack.conj(), base) / (2 ** n)
                for pname, w in zip(names, want):
                    gotc = complex(ex[pname]) if pname in ex else 0.0
                    if abs(gotc - w) > 1e-8:
                        return bad(f"pauli_expansion({name} [{lvl}])[{pname}] = {gotc:.9f} but tr(P^dag U)/2^n = {w:.9f}", kind="pauli_expansion", level=lvl)
                checked += 1
        if not cirq.equal_up_to_global_phase(obj, obj):
            return bad(f"equal_up_to_global_phase({name} [{lvl}], itself) is False", kind="eq_phase_reflexive", level=lvl)
        if not (obj == obj):
            return bad(f"{name} [{lvl}] != itself", kind="eq_reflexive", level=lvl)
    return good(nontrivial=True, results_checked=checked)


# --------------------------------------------------------------------------------------------------------------
# binary predicates (shared by the gate-pair and op-pair stages)

ATOLS = [1e-8, 1e-3]
CTOL = 16.0


def safe_hash(x):
    try:
        return hash(x)
    except TypeError:
        return None


def equality_predicates(make_a, make_b, na, nb, ma, mb, same_space, level):
    """==, hash, approx_eq, equal_up_to_global_phase on FRESH objects in two call orders:
    order A asks the approximate predicates first, order B asks == / hash first (cached-method histories differ).
    ma/mb are the trusted matrices on a common space (None = not unitary).  Returns (Res|None, definite_answers)."""
    definite = 0
    for order in ("approx_first", "eq_first"):
        a, b = make_a(), make_b()
        steps = ["approx", "eq"] if order == "approx_first" else ["eq", "approx"]
        for step in steps:
            if step == "eq":
                ok, eq = guarded(f"{na} == {nb}", lambda: a == b, level=level)
                if not ok:
                    return eq, definite
                if eq is True:
                    if (ma is None) != (mb is None):
                        return bad(f"{na} == {nb} but only one of them is unitary", kind="eq_matrix", level=level), definite
                    if ma is not None and (not same_space or not close(ma, mb)):
                        return bad(f"{na} == {nb} but their matrices differ by {maxdiff(ma, mb):.3g}", kind="eq_matrix", level=level,
                                   defect=pair_defect("eq_matrix", a, b)), definite
                    ha, hb = safe_hash(a), safe_hash(b)
                    if ha is not None and hb is not None and ha != hb:
                        return bad(f"{na} == {nb} but hash differs", kind="eq_hash", level=level), definite
                    if ma is not None:
                        ok, r = guarded(f"equal_up_to_global_phase({na}, {nb})", lambda: cirq.equal_up_to_global_phase(a, b), level=level)
                        if not ok:
                            return r, definite
                        if r is not True:
                            return bad(f"{na} == {nb} (exactly equal) but equal_up_to_global_phase says {r}", kind="eq_phase_of_equal", level=level), definite
                    definite += 1
            elif ma is not None and mb is not None:
                for atol in (ATOLS if order == "approx_first" else ATOLS[:1]):
                    ok, r = guarded(f"approx_eq({na}, {nb}, atol={atol})", lambda: cirq.approx_eq(a, b, atol=atol), level=level,
                                    defect=pair_defect("exception_approx_eq", a, b))
                    if not ok:
                        return r, definite
                    if r is True:
                        if not same_space or maxdiff(ma, mb) > CTOL * atol + SLACK:
                            return bad(f"approx_eq({na}, {nb}, atol={atol}) is True [{order}] but matrices differ by {maxdiff(ma, mb):.3g}",
                                       kind="approx_eq", level=level, defect=pair_defect("approx_eq", a, b)), definite
                        definite += 1
                    ok, r = guarded(f"equal_up_to_global_phase({na}, {nb}, atol={atol})", lambda: cirq.equal_up_to_global_phase(a, b, atol=atol), level=level)
                    if not ok:
                        return r, definite
                    if r is True:
                        if not same_space or phase_dist(ma, mb) > CTOL * atol + SLACK:
                            return bad(f"equal_up_to_global_phase({na}, {nb}, atol={atol}) is True [{order}] but matrices are not proportional "
                                       f"(residual {phase_dist(ma, mb):.3g})", kind="eq_up_to_phase", level=level, defect=pair_defect("eq_up_to_phase", a, b)), definite
                        definite += 1
    return None, definite


def run_gate_pair(case):
    i, j = case
    na, nb = GATES.name(i), GATES.name(j)
    ua, ub = gate_u(i), gate_u(j)
    a, b = GATES.make(i), GATES.make(j)
    same_shape = cirq.qid_shape(a) == cirq.qid_shape(b)
    r, definite = equality_predicates(lambda: GATES.make(i), lambda: GATES.make(j), na, nb, ua, ub, same_shape, "gate")
    if r is not None:
        return r
    if same_shape and ua.shape[0] > 1:
        ok, c = guarded(f"commutes({na}, {nb})", lambda: cirq.commutes(a, b, default=None), level="gate", defect=pair_defect("exception_commutes", a, b))
        if not ok:
            return c
        if c is True or c is False:
            comm = float(np.max(np.abs(ua @ ub - ub @ ua)))
            if c is True and comm > SLACK:
                return bad(f"commutes({na}, {nb}) is True but |[A,B]| = {comm:.3g}", kind="commutes_true", level="gate", defect=pair_defect("commutes_true", a, b))
            if c is False and comm < 1e-9:
                return bad(f"commutes({na}, {nb}) is False but the matrices commute exactly", kind="commutes_false", level="gate")
            definite += 1
    return good(nontrivial=definite > 0, definite_answers=definite)


# --------------------------------------------------------------------------------------------------------------
# stage: binary predicates on ordered pairs of placed operations


def letter_info(i):
    if i in _LC:
        return _LC[i]
    name, op = LETTERS.name(i), LETTERS.make(i)
    info = {"name": name, "mat": None, "branches": None, "super": None, "qubits": frozenset(op.qubits)}
    info["writes"] = set(str(k) for k in cirq.measurement_key_objs(op))
    info["reads"] = set(str(k) for k in cirq.control_keys(op))
    pos = [REG.index(q) for q in op.qubits]
    if op.classical_controls:
        sub = op.without_classical_controls()
        m = E.embed(U(sub), pos, REGSHAPE)
        info["branches"] = [np.eye(8, dtype=complex), m]
    else:
        m = U(op)
        if m is not None:
            info["mat"] = E.embed(m, pos, REGSHAPE)
            info["branches"] = [info["mat"]]
        else:
            ks = [E.embed(k, pos, REGSHAPE) for k in cirq.kraus(op)]
            info["super"] = E.kraus_to_super(ks)
    _LC[i] = info
    return info


def supers(info):
    if info["super"] is not None:
        return [info["super"]]
    return [np.kron(b, b.conj()) for b in info["branches"]]


def pair_commutator(a, b):
    """(max commutator norm over branch pairs, exact) - exact=True when plain matrices were compared."""
    if a["branches"] is not None and b["branches"] is not None:
        return max(float(np.max(np.abs(x @ y - y @ x))) for x in a["branches"] for y in b["branches"]), True
    return max(float(np.max(np.abs(x @ y - y @ x))) for x in supers(a) for y in supers(b)), False


def run_op_pair(case):
    i, j = case
    a, b = letter_info(i), letter_info(j)
    x, y = LETTERS.make(i), LETTERS.make(j)
    na, nb = a["name"], b["name"]
    definite = 0
    key_conflict = bool(a["writes"] & b["writes"] or a["writes"] & b["reads"] or a["reads"] & b["writes"])
    comm, exact = pair_commutator(a, b)
    for atol in ((None, 1e-3) if i < j else (None,)):
        kw = {} if atol is None else {"atol": atol}
        ok, c = guarded(f"commutes({na}, {nb})", lambda: cirq.commutes(x, y, default=None, **kw), level="op", defect=pair_defect("exception_commutes", x, y))
        if not ok:
            return c
        thr = SLACK if atol is None else 64 * atol + SLACK
        if c is True:
            if key_conflict:
                return bad(f"commutes({na}, {nb}) is True although they share a measurement/control key", kind="commutes_true", level="op", keys=True)
            if comm > thr:
                return bad(f"commutes({na}, {nb}{'' if atol is None else f', atol={atol}'}) is True but |[A,B]| = {comm:.3g} on the 3-qubit register"
                           f"{'' if exact else ' (superoperators)'}", kind="commutes_true", level="op", defect=pair_defect("commutes_true", x, y))
            definite += 1
        elif c is False:
            if not key_conflict and comm < 1e-9:
                return bad(f"commutes({na}, {nb}) is False but the {'matrices' if exact else 'superoperators'} commute exactly and no key is shared",
                           kind="commutes_false", level="op")
            definite += 1
    dc = False
    if i >= j:
        ok, dc = guarded(f"definitely_commutes({na}, {nb})", lambda: cirq.definitely_commutes(x, y), level="op", defect=pair_defect("exception_commutes", x, y))
        if not ok:
            return dc
    if dc and (key_conflict or comm > SLACK):
        return bad(f"definitely_commutes({na}, {nb}) is True but |[A,B]| = {comm:.3g} / key conflict {key_conflict}", kind="commutes_true", level="op")
    r, d2 = equality_predicates(lambda: LETTERS.make(i), lambda: LETTERS.make(j), na, nb, a["mat"], b["mat"], True, "op")
    if r is not None:
        return r
    definite += d2
    if a["mat"] is None and b["mat"] is None and a["super"] is not None and b["super"] is not None and (x == y) and not close(a["super"], b["super"]):
        return bad(f"{na} == {nb} but their channels differ", kind="eq_matrix", level="op")
    overlap = bool(a["qubits"] & b["qubits"])
    return good(nontrivial=definite > 0 and (overlap or key_conflict), definite_answers=definite)


# --------------------------------------------------------------------------------------------------------------


# --------------------------------------------------------------------------------------------------------------
# stage: operation predicates under qubit permutations (interchangeable-qubit declarations, sorted controls, moments)

PERMG = Alpha([])
_PU = {}
_PERM_QUBITS = [cirq.LineQubit(2), cirq.LineQubit(0), cirq.LineQubit(3), cirq.LineQubit(1)]   # position -> qubit (not sorted)


def _build_permg(seed, tier):
    g, g2, g3, g4 = core.generic(seed, 0), core.generic(seed, 2), core.generic(seed, 4), core.generic(seed, 5)
    pi = np.pi
    out = []
    add = lambda name, fn: out.append((name, fn))
    # PhasedFSimGate lattice: the qubits are interchangeable iff (zeta = 0 mod pi or cos(theta) = 0) and (chi = 0 mod pi or sin(theta) = 0)
    thetas = [0.0, pi / 2, pi, -pi / 2, g] if tier == "quick" else [0.0, pi / 2, pi, -pi / 2, 3 * pi / 2, 2 * pi, g, g + pi]
    zetas = [0.0, pi, g2] if tier == "quick" else [0.0, pi, -pi, g2, g2 + pi]
    chis = [0.0, pi, g4] if tier == "quick" else [0.0, pi, -pi, g4, g4 + pi]
    gp = [0.0, g3] if tier == "quick" else [0.0, pi, g3]
    for th in thetas:
        for ze in zetas:
            for ch in chis:
                for ga in gp:
                    for ph in gp:
                        add(f"PhasedFSim({th:.4f},{ze:.4f},{ch:.4f},{ga:.4f},{ph:.4f})",
                            lambda th=th, ze=ze, ch=ch, ga=ga, ph=ph: cirq.PhasedFSimGate(th, ze, ch, ga, ph))
    for th in (0.0, pi / 2, pi, g):
        for ph in (0.0, pi / 2, pi, g2):
            add(f"FSim({th:.4f},{ph:.4f})", lambda th=th, ph=ph: cirq.FSimGate(th, ph))
    for nm, cls in (("CZ", cirq.CZPowGate), ("CX", cirq.CXPowGate), ("CY", cirq.CYPowGate), ("ZZ", cirq.ZZPowGate), ("XX", cirq.XXPowGate),
                    ("YY", cirq.YYPowGate), ("ISWAP", cirq.ISwapPowGate), ("SWAP", cirq.SwapPowGate),
                    ("CCZ", cirq.CCZPowGate), ("CCX", cirq.CCXPowGate), ("CCY", cirq.CCYPowGate)):
        for e in (1.0, 0.5, g):
            for s in (0.0, 0.3):
                add(f"{nm}Pow(e={e},s={s})", lambda cls=cls, e=e, s=s: cls(exponent=e, global_shift=s))
    for pe in (0.0, 0.25, 0.5, g2):
        for e in (1.0, g):
            add(f"PhasedISwap(p={pe},e={e})", lambda pe=pe, e=e: cirq.PhasedISwapPowGate(phase_exponent=pe, exponent=e))
    for p0 in (cirq.X, cirq.Y, cirq.Z):
        for p1 in (cirq.X, cirq.Y, cirq.Z):
            for i0 in (False, True):
                for i1 in (False, True):
                    for e in ((g,) if tier == "quick" else (1.0, g)):
                        add(f"PauliInteraction({p0},{i0},{p1},{i1},e={e})",
                            lambda p0=p0, i0=i0, p1=p1, i1=i1, e=e: cirq.PauliInteractionGate(p0, i0, p1, i1, exponent=e))
    u1, u1b = E.generic_unitary(2, seed + 11), E.generic_unitary(2, seed + 12)
    u2, u3 = E.generic_unitary(4, seed + 13), E.generic_unitary(8, seed + 14)
    add("TwoQubitDiagonal(sym)", lambda: cirq.TwoQubitDiagonalGate([0.0, g, g, 2.0]))
    add("TwoQubitDiagonal(asym)", lambda: cirq.TwoQubitDiagonalGate([0.0, g, g2, 2.0]))
    add("Diagonal2(sym)", lambda: cirq.DiagonalGate([0.0, g, g, 2.0]))
    add("Diagonal2(asym)", lambda: cirq.DiagonalGate([0.0, g, g2, 2.0]))
    add("ThreeQubitDiagonal", lambda: cirq.ThreeQubitDiagonalGate([0.0, g, g, 2.0, g, 2.0, 2.0, g2]))
    add("Matrix2q", lambda: cirq.MatrixGate(u2))
    add("Matrix2q(UxU)", lambda: cirq.MatrixGate(np.kron(u1, u1)))
    add("Matrix2q(UxV)", lambda: cirq.MatrixGate(np.kron(u1, u1b)))
    add("Matrix3q", lambda: cirq.MatrixGate(u3))
    add("ms(g)", lambda: cirq.ms(g))
    add("ionq.MS(g,g)", lambda: cirq_ionq.MSGate(phi0=g, phi1=g))
    add("ionq.MS(g,g2)", lambda: cirq_ionq.MSGate(phi0=g, phi1=g2))
    add("ionq.MS(g,g2,.1)", lambda: cirq_ionq.MSGate(phi0=g, phi1=g2, theta=0.1))
    add("ionq.ZZ(g)", lambda: cirq_ionq.ZZGate(theta=g))
    add("SYC", lambda: cirq_google.SYC)
    add("CSWAP", lambda: cirq.CSWAP)
    add("I2", lambda: cirq.IdentityGate(2))
    add("QFT2", lambda: cirq.QuantumFourierTransformGate(2))
    add("PhaseGradient(2,g)", lambda: cirq.PhaseGradientGate(num_qubits=2, exponent=g))
    add("Parallel(X**g,2)", lambda: cirq.ParallelGate(cirq.X ** g, 2))
    add("Parallel(Z**g,3)", lambda: cirq.ParallelGate(cirq.Z ** g, 3))
    add("DPS(XZ)", lambda: cirq.DensePauliString("XZ"))
    add("DPS(XX)", lambda: cirq.DensePauliString("XX"))
    add("DPS(ZIZ,-1)", lambda: cirq.DensePauliString("ZIZ", coefficient=-1))
    add("PSPhasor(XZ,g)", lambda: cirq.PauliStringPhasorGate(cirq.DensePauliString("XZ"), exponent_neg=g))
    add("PSPhasor(ZZ,g)", lambda: cirq.PauliStringPhasorGate(cirq.DensePauliString("ZZ"), exponent_neg=g))
    add("Clifford.CNOT", lambda: cirq.CliffordGate.CNOT)
    add("Clifford.CZ", lambda: cirq.CliffordGate.CZ)
    add("Clifford.SWAP", lambda: cirq.CliffordGate.SWAP)
    add("QubitPermutation(1,0)", lambda: cirq.QubitPermutationGate([1, 0]))
    add("QubitPermutation(1,2,0)", lambda: cirq.QubitPermutationGate([1, 2, 0]))
    # controlled versions (ControlledOperation sorts its controls together with their values)
    add("C(Z**g)", lambda: cirq.ControlledGate(cirq.Z ** g))
    add("C(X**g)", lambda: cirq.ControlledGate(cirq.X ** g))
    add("C0(Z**g)", lambda: cirq.ControlledGate(cirq.Z ** g, control_values=[0]))
    add("C(CZ**g)", lambda: cirq.ControlledGate(cirq.CZ ** g))
    add("C0(CZ**g)", lambda: cirq.ControlledGate(cirq.CZ ** g, control_values=[0]))
    add("CZ**g.controlled()", lambda: (cirq.CZ ** g).controlled())
    add("C(SWAP)", lambda: cirq.ControlledGate(cirq.SWAP))
    add("C(ISWAP**g)", lambda: cirq.ControlledGate(cirq.ISWAP ** g))
    add("C(FSim(g,g2))", lambda: cirq.ControlledGate(cirq.FSimGate(g, g2)))
    add("C(PhasedFSim(0,g2,0,.1,.4))", lambda: cirq.ControlledGate(cirq.PhasedFSimGate(0.0, g2, 0.0, 0.1, 0.4)))
    add("C(PhasedFSim(pi/2,0,g2,.1,.4))", lambda: cirq.ControlledGate(cirq.PhasedFSimGate(pi / 2, 0.0, g2, 0.1, 0.4)))
    add("C(PhasedFSim(pi/2,g2,0,.1,.4))", lambda: cirq.ControlledGate(cirq.PhasedFSimGate(pi / 2, g2, 0.0, 0.1, 0.4)))
    add("C(ZZ**g)", lambda: cirq.ControlledGate(cirq.ZZ ** g))
    add("CC(Z**g)", lambda: cirq.ControlledGate(cirq.Z ** g, num_controls=2))
    add("CC[0,1](Y**g)", lambda: cirq.ControlledGate(cirq.Y ** g, control_values=[0, 1]))
    add("CC[(0,1),1](Y**g)", lambda: cirq.ControlledGate(cirq.Y ** g, control_values=[(0, 1), 1]))
    add("Cxor(X**g)", lambda: cirq.ControlledGate(cirq.X ** g, control_values=cirq.SumOfProducts([(0, 1), (1, 0)])))
    add("Csop[01,11](X**g)", lambda: cirq.ControlledGate(cirq.X ** g, control_values=cirq.SumOfProducts([(0, 1), (1, 1)])))
    add("CC(CZ**g)", lambda: cirq.ControlledGate(cirq.CZ ** g, num_controls=2))
    add("C[0](CCZ**g)", lambda: cirq.ControlledGate(cirq.CCZ ** g, control_values=[0]))
    add("CCZ**g.controlled()", lambda: (cirq.CCZ ** g).controlled())
    add("Cxor(SWAP)", lambda: cirq.ControlledGate(cirq.SWAP, control_values=cirq.SumOfProducts([(0, 0), (1, 1)])))
    return out


def perm_gate_u(i):
    if i not in _PU:
        m = U(PERMG.make(i))
        if m is None:
            raise core.HarnessError(f"gate {PERMG.name(i)} has no unitary")
        _PU[i] = m
    return _PU[i]


def perm_list(n):
    return list(itertools.permutations(range(n)))


def perm_cases():
    out = []
    for gi in range(len(PERMG)):
        n = cirq.num_qubits(PERMG.make(gi))
        k = len(perm_list(n))
        if n <= 3:
            out += [(gi, a, b) for a in range(k) for b in range(k)]
        else:
            out += [(gi, 0, b) for b in range(k)] + [(gi, a, 0) for a in range(1, k)]
    return out


def _commute_verdict(label, c, comm, level, family):
    if c is True and comm > SLACK:
        return bad(f"{label} is True but |[A,B]| = {comm:.3g} on the common register", kind="commutes_true", level=level, family=family)
    if c is False and comm < 1e-9:
        return bad(f"{label} is False but the matrices commute exactly", kind="commutes_false", level=level, family=family)
    return None


def run_perm(case):
    gi, ia, ib = case
    name = PERMG.name(gi)
    g = PERMG.make(gi)
    n = cirq.num_qubits(g)
    family = type(g).__name__ + ("/" + type(g.sub_gate).__name__ if isinstance(g, cirq.ControlledGate) else "")
    perms = perm_list(n)
    qs = _PERM_QUBITS[:n]
    reg = sorted(qs)
    qa = [qs[k] for k in perms[ia]]
    qb = [qs[k] for k in perms[ib]]
    base = perm_gate_u(gi)
    shape = (2,) * n
    ma = E.embed(base, [reg.index(q) for q in qa], shape)
    mb = E.embed(base, [reg.index(q) for q in qb], shape)
    na = f"{name}.on{tuple(q.x for q in qa)}"
    nb = f"{name}.on{tuple(q.x for q in qb)}"
    mk_a = lambda: PERMG.make(gi).on(*qa)
    mk_b = lambda: PERMG.make(gi).on(*qb)
    r, definite = equality_predicates(mk_a, mk_b, na, nb, ma, mb, True, "perm_op")
    if r is not None:
        r.sig["family"] = family
        return r
    x, y = mk_a(), mk_b()
    if ia == ib and not (x == y):
        return bad(f"{na} != a freshly built identical operation", kind="eq_reflexive", level="perm_op", family=family)
    comm = float(np.max(np.abs(ma @ mb - mb @ ma)))
    same = close(ma, mb)
    for label, f in ((f"commutes({na}, {nb})", lambda: cirq.commutes(x, y, default=None)),
                     (f"definitely_commutes({na}, {nb})", lambda: cirq.definitely_commutes(x, y) or None)):
        ok, c = guarded(label, f, level="perm_op", family=family)
        if not ok:
            return c
        v = _commute_verdict(label, c, comm, "perm_op", family)
        if v is not None:
            return v
        definite += c is True or c is False
    # the same through single-operation moments and circuits
    m1, m2 = cirq.Moment(mk_a()), cirq.Moment(mk_b())
    ok, eqm = guarded(f"Moment({na}) == Moment({nb})", lambda: m1 == m2, level="perm_moment", family=family)
    if not ok:
        return eqm
    if eqm is True:
        if not same:
            return bad(f"Moment({na}) == Moment({nb}) but the matrices on the common register differ by {maxdiff(ma, mb):.3g}", kind="eq_matrix", level="perm_moment", family=family)
        if safe_hash(m1) != safe_hash(m2):
            return bad(f"Moment({na}) == Moment({nb}) but hash differs", kind="eq_hash", level="perm_moment", family=family)
        definite += 1
    for label, f in ((f"commutes(Moment({na}), Moment({nb}))", lambda: cirq.commutes(m1, m2, default=None)),
                     (f"definitely_commutes(Moment({na}), Moment({nb}))", lambda: cirq.definitely_commutes(m1, m2) or None)):
        ok, c = guarded(label, f, level="perm_moment", family=family)
        if not ok:
            return c
        v = _commute_verdict(label, c, comm, "perm_moment", family)
        if v is not None:
            return v
        definite += c is True or c is False
    c1, c2 = cirq.Circuit(mk_a()), cirq.Circuit(mk_b())
    if (c1 == c2) and not same:
        return bad(f"Circuit({na}) == Circuit({nb}) but the matrices differ by {maxdiff(ma, mb):.3g}", kind="eq_matrix", level="perm_circuit", family=family)
    if (cirq.FrozenCircuit(mk_a()) == cirq.FrozenCircuit(mk_b())) and not same:
        return bad(f"FrozenCircuit({na}) == FrozenCircuit({nb}) but the matrices differ by {maxdiff(ma, mb):.3g}", kind="eq_matrix", level="perm_circuit", family=family)
    return good(nontrivial=ia != ib and definite > 0, definite_answers=definite)


# --------------------------------------------------------------------------------------------------------------
# stage: PhasedXZGate Clifford recognition on a quarter-step lattice (non-canonical parameterisations included)

_XZ_CLIFFORDS = []


def xz_lattice(seed, tier):
    g = core.generic(seed, 0)
    quarters = [k / 4 for k in range(-8, 9)]
    xs = [0.0, 0.5, -0.5, 1.0, -1.0, 2.0, 1.5, 3.0, g] if tier == "quick" else quarters + [3.0, g]
    zs = quarters + [g]
    as_ = [k / 4 for k in range(-4, 9)] + [g] if tier == "quick" else quarters + [g]
    return xs, zs, as_


def xz_cliffords():
    if not _XZ_CLIFFORDS:
        for c in cirq.SingleQubitCliffordGate.all_single_qubit_cliffords:
            pg = c.to_phased_xz_gate()
            _XZ_CLIFFORDS.append((pg, U(pg)))
    return _XZ_CLIFFORDS


def run_xz(case):
    xi, zi, ai = case
    xs, zs, as_ = xz_lattice(_SEED, _TIER)
    x, z, a = xs[xi], zs[zi], as_[ai]
    mk = lambda: cirq.PhasedXZGate(x_exponent=x, z_exponent=z, axis_phase_exponent=a)
    g = mk()
    name = f"PhasedXZGate(x={x}, z={z}, a={a})"
    u = U(g)
    clifford = maps_paulis_to_paulis(u, 1)    # None = the matrix IS Clifford
    definite = 0
    for obj, lvl in ((g, "gate"), (g.on(Q0), "op"), (g.on(Q0).with_tags("t"), "tagged")):
        ok, hs = guarded(f"has_stabilizer_effect({name} [{lvl}])", lambda: cirq.has_stabilizer_effect(obj), level=lvl)
        if not ok:
            return hs
        if hs:
            if clifford is not None:
                return bad(f"has_stabilizer_effect({name} [{lvl}]) is True but {clifford}", kind="has_stabilizer_effect", level=lvl, family="PhasedXZGate")
            definite += 1
    ok, cc = guarded(f"{name}.canonical_clifford()", lambda: mk().canonical_clifford())
    if not ok:
        return cc
    if cc is not None:
        ucc = U(cc)
        if not E.eq_up_to_phase(u, ucc, ATOL):
            return bad(f"{name}.canonical_clifford() = {cc!r} is a different gate (residual up to global phase {phase_dist(u, ucc):.3g})", kind="canonical_clifford")
        if clifford is not None:
            return bad(f"{name}.canonical_clifford() = {cc!r} although the matrix is not Clifford: {clifford}", kind="canonical_clifford")
        definite += 1
    # Clifford-object conversions of the matrix must keep it (up to global phase / with the reported phase)
    ok, sq = guarded(f"SingleQubitCliffordGate.from_unitary(U({name}))", lambda: cirq.SingleQubitCliffordGate.from_unitary(u))
    if not ok:
        return sq
    if sq is not None:
        if clifford is not None or not E.eq_up_to_phase(u, U(sq), ATOL):
            return bad(f"SingleQubitCliffordGate.from_unitary(U({name})) = {sq!r} whose matrix differs up to phase by {phase_dist(u, U(sq)):.3g}", kind="from_unitary")
        back = sq.to_phased_xz_gate()
        if not E.eq_up_to_phase(u, U(back), ATOL):
            return bad(f"{sq!r}.to_phased_xz_gate() = {back!r} differs from the original matrix up to phase by {phase_dist(u, U(back)):.3g}", kind="to_phased_xz_gate")
        ok, wp = guarded("from_unitary_with_global_phase", lambda: cirq.SingleQubitCliffordGate.from_unitary_with_global_phase(u))
        if not ok:
            return wp
        if wp is not None and not close(u, wp[1] * U(wp[0])):
            return bad(f"from_unitary_with_global_phase(U({name})) = {wp!r}: phase * matrix differs from the input by {maxdiff(u, wp[1] * U(wp[0])):.3g}", kind="from_unitary")
        definite += 1
    ok, fm = guarded(f"PhasedXZGate.from_matrix(U({name}))", lambda: cirq.PhasedXZGate.from_matrix(u))
    if not ok:
        return fm
    if not E.eq_up_to_phase(u, U(fm), 1e-6):
        return bad(f"PhasedXZGate.from_matrix(U({name})) = {fm!r} differs up to phase by {phase_dist(u, U(fm)):.3g}", kind="from_matrix")
    # == against the 24 canonical Clifford PhasedXZGates: PhasedXZGate equality is documented modulo global phase
    for pg, upg in xz_cliffords():
        g2 = mk()
        if g2 == pg:
            if not E.eq_up_to_phase(u, upg, ATOL):
                return bad(f"{name} == {pg!r} but the matrices are not proportional (residual {phase_dist(u, upg):.3g})", kind="eq_matrix", level="phased_xz")
            if hash(g2) != hash(pg):
                return bad(f"{name} == {pg!r} but hash differs", kind="eq_hash", level="phased_xz")
            definite += 1
    return good(nontrivial=definite > 0, definite_answers=definite)


def describe_gate_case(case):
    return {"gate": GATES.name(case[0]), "powers": [POWERS[k] for k in case[1:]]}


def stages(tier, seed):
    _init(seed, tier)
    reset = lambda: _init(seed, tier)
    nG = len(GATES)
    nS = len(SUBS)
    nL = len(LETTERS)
    nP = len(POWERS)
    pow_cases = [(gi, ti) for gi in range(nG) for ti in range(nP)]
    pow_pair_cases = [(gi, si, ti) for gi in range(nG) for si in range(nP) for ti in range(nP)]
    op_pow_cases = [(li, ti) for li in range(nL) for ti in range(nP)]
    cv_unary = [(si,) for si in range(len(SPECS))]
    cv_pairs = [(si, sj) for si in range(len(SPECS)) for sj in range(len(SPECS))]
    if tier == "quick":
        # the generic ControlledGate / ControlledOperation constructors do not look at the sub gate's class: a subset suffices
        direct_subs = {SUBS.index(n) for n in ("X", "Z**g", "CZ", "CX**g", "CCZ", "CSWAP", "Matrix1q", "Matrix3", "X3", "GlobalPhase(g)", "C0(Y**g)", "Cxor(Z**g)", "DPS(XZ)")}
    else:
        direct_subs = set(range(nS))
    ctrl_cases = []
    for gi in range(nS):
        for si, spec in enumerate(SPECS):
            for v in range(len(VARIANTS)):
                if v in (1, 3) and gi not in direct_subs:
                    continue
                if variant_applicable(spec, v):
                    ctrl_cases.append((gi, si, v))
    if tier == "quick":
        nested_subs = [SUBS.index(n) for n in ("X", "Z**g", "CZ", "CZPow(g,s=.3)", "CX**g", "Y**g", "Matrix3", "GlobalPhase(g)", "C0(Y**g)", "CCZ")]
    else:
        nested_subs = list(range(nS))
    nested_cases = [(gi, s1, s2, v) for gi in nested_subs for s1 in SPECS1 for s2 in SPECS2X for v in (0, 1)]
    if tier != "quick":
        # every specification as the OUTER control of every 1-control inner specification, for the specialising sub gates
        wide = [SUBS.index(n) for n in ("X", "X**g", "XPow(g,s=-.5)", "Y**g", "Z**g", "CZ", "CZ**g", "CZPow(g,s=.3)", "CX**g", "CY", "CCZ", "CCX**g",
                                        "CSWAP", "Matrix3", "X3", "GlobalPhase(g)", "C0(Y**g)", "Cxor(Z**g)")]
        x2 = set(SPECS2X)
        nested_cases += [(gi, s1, s2, v) for gi in wide for s1 in SPECS1 for s2 in range(len(SPECS)) if s2 not in x2 for v in (0, 1)]
    nT = len(turns(seed))
    phase_cases = [(gi, ti, qi) for gi in range(nG) for ti in range(nT)
                   for qi, d in enumerate(cirq.qid_shape(GATES.make(gi))) if d == 2]
    unary_cases = [(gi,) for gi in range(nG)]
    gate_pairs = [(i, j) for i in range(nG) for j in range(nG)]
    op_pairs = [(i, j) for i in range(nL) for j in range(nL)]
    gname = lambda c: [GATES.name(k) for k in c]
    xz = xz_lattice(seed, tier)
    xz_cases = [(i, j, k) for i in range(len(xz[0])) for j in range(len(xz[1])) for k in range(len(xz[2]))]
    return [
        CaseStage("pow_inverse", pow_cases, run_pow, reset=reset, describe=describe_gate_case),
        CaseStage("powers_add_and_compose", pow_pair_cases, run_pow_pair, reset=reset, describe=describe_gate_case),
        CaseStage("op_pow", op_pow_cases, run_op_pow, reset=reset, describe=lambda c: {"op": LETTERS.name(c[0]), "power": POWERS[c[1]]}),
        CaseStage("control_values_unary", cv_unary, run_cv_unary, reset=reset, describe=lambda c: SPECS[c[0]]),
        CaseStage("control_values_pairs", cv_pairs, run_cv_pair, reset=reset, describe=lambda c: [SPECS[c[0]], SPECS[c[1]]]),
        CaseStage("controlled", ctrl_cases, run_controlled, reset=reset,
                  describe=lambda c: {"sub": SUBS.name(c[0]), "spec": SPECS[c[1]], "api": VARIANTS[c[2]]}),
        CaseStage("controlled_nested", nested_cases, run_nested, reset=reset,
                  describe=lambda c: {"sub": SUBS.name(c[0]), "inner": SPECS[c[1]], "outer": SPECS[c[2]], "level": ["gate", "op"][c[3]]}),
        CaseStage("phase_by", phase_cases, run_phase_by, reset=reset,
                  describe=lambda c: {"gate": GATES.name(c[0]), "phase_turns": turns(seed)[c[1]], "qubit_index": c[2]}),
        CaseStage("unary_predicates", unary_cases, run_unary, reset=reset, describe=gname),
        CaseStage("gate_pair_predicates", gate_pairs, run_gate_pair, reset=reset, describe=gname),
        CaseStage("op_pair_predicates", op_pairs, run_op_pair, reset=reset, describe=lambda c: [LETTERS.name(k) for k in c]),
        CaseStage("permuted_qubits_predicates", perm_cases(), run_perm, reset=reset,
                  describe=lambda c: {"gate": PERMG.name(c[0]), "perm_a": perm_list(cirq.num_qubits(PERMG.make(c[0])))[c[1]],
                                      "perm_b": perm_list(cirq.num_qubits(PERMG.make(c[0])))[c[2]]}),
        CaseStage("phased_xz_clifford_lattice", xz_cases, run_xz, reset=reset,
                  describe=lambda c: {"x": xz[0][c[0]], "z": xz[1][c[1]], "a": xz[2][c[2]]}),
    ]


# --------------------------------------------------------------------------------------------------------------
# Stand-alone reproducers of the genuine Cirq defects this check reports on the unchanged tree (signature key
# `defect` of the violations).  Run:  cd /verif && PYTHONPATH=.:/repo/cirq-core:/repo/cirq-ionq:/repo/cirq-google \
#                                      /venv/bin/python -m checks.c08_gate_algebra


def reproducers():

    q0, q1 = cirq.LineQubit.range(2)
    out = []

    # D1 qudit X/Z .controlled() is specialised to the QUBIT gates CNOT / CZ
    g = cirq.XPowGate(dimension=3).controlled()
    out.append(("D1a XPowGate(dimension=3).controlled()", repr(g), cirq.qid_shape(g), "expected qid_shape (2, 3)"))
    g = cirq.ZPowGate(dimension=3, exponent=0.5).controlled()
    out.append(("D1b ZPowGate(dimension=3)**0.5 .controlled()", repr(g), cirq.qid_shape(g), "expected qid_shape (2, 3)"))
    try:
        cirq.XPowGate(dimension=3).on(cirq.LineQid(0, 3)).controlled_by(q1)
        out.append(("D1c controlled_by", "ok"))
    except ValueError as e:
        out.append(("D1c XPowGate(dimension=3).on(qutrit).controlled_by(qubit)", "raises ValueError: " + str(e)[:60]))

    # D2 commutes() of two SingleQubitCliffordGates ignores the global phase
    S = cirq.SingleQubitCliffordGate
    u, v = cirq.unitary(S.X), cirq.unitary(S.Z)
    out.append(("D2 commutes(SingleQubitCliffordGate.X, .Z)", cirq.commutes(S.X, S.Z), "|[X,Z]| =", float(np.abs(u @ v - v @ u).max())))

    # D3 PauliInteractionGate: approximate equality values come from EigenGate (eigen-phases only)
    a = lambda: cirq.PauliInteractionGate(cirq.Z, False, cirq.X, False)
    b = lambda: cirq.PauliInteractionGate(cirq.Y, False, cirq.Y, False)
    out.append(("D3a approx_eq(PauliInteraction(Z,X), PauliInteraction(Y,Y)) on fresh objects", cirq.approx_eq(a(), b()),
                "equal_up_to_global_phase:", cirq.equal_up_to_global_phase(a(), b()),
                "max|Ua-Ub| =", float(np.abs(cirq.unitary(a()) - cirq.unitary(b())).max())))
    x, y = a(), b()
    _ = x == y  # fills the shared cached-method slot with the exact values -> the answer flips
    out.append(("D3b same call after `x == y` was evaluated", cirq.approx_eq(x, y)))

    # D4 cirq_ionq.MSGate equality ignores theta
    m1, m2 = cirq_ionq.MSGate(phi0=0.1, phi1=0.2), cirq_ionq.MSGate(phi0=0.1, phi1=0.2, theta=0.1)
    out.append(("D4 ionq MSGate(.1,.2) == MSGate(.1,.2,theta=.1)", m1 == m2, "max|U1-U2| =", float(np.abs(cirq.unitary(m1) - cirq.unitary(m2)).max())))

    # D5 approx_eq of MatrixGates of different size raises
    try:
        out.append(("D5 approx_eq(MatrixGate(2x2), MatrixGate(4x4))", cirq.approx_eq(cirq.MatrixGate(np.eye(2)), cirq.MatrixGate(np.eye(4)))))
    except ValueError as e:
        out.append(("D5 approx_eq(MatrixGate(2x2), MatrixGate(4x4))", "raises ValueError: " + str(e)[:70]))

    # D6 TaggedOperation._commutes_ drops the default: definitely_commutes raises
    for name, f in (("definitely_commutes(X(q0).with_tags('t'), measure(q0))", lambda: cirq.definitely_commutes(cirq.X(q0).with_tags("t"), cirq.measure(q0, key="m"))),
                    ("commutes(..., default=None)", lambda: cirq.commutes(cirq.X(q0).with_tags("t"), cirq.measure(q0, key="m"), default=None)),
                    ("untagged: definitely_commutes(X(q0), measure(q0))", lambda: cirq.definitely_commutes(cirq.X(q0), cirq.measure(q0, key="m")))):
        try:
            out.append(("D6 " + name, f()))
        except TypeError as e:
            out.append(("D6 " + name, "raises TypeError"))

    # D7 ProductOfSums.__or__ on >=2 qubits is not the union
    r = cirq.ProductOfSums([1, 1]) | cirq.ProductOfSums([0, 0])
    out.append(("D7 ProductOfSums([1,1]) | ProductOfSums([0,0])", sorted(r.expand()), "expected [(0, 0), (1, 1)]"))

    # D8 single-qubit PauliString ** t drops the coefficient
    ps = 1j * cirq.Y(q0)
    out.append(("D8 (1j*Y(q0))**2", repr(ps ** 2), np.round(cirq.unitary(ps ** 2), 3).tolist(), "matrix power:",
                np.round(np.linalg.matrix_power(cirq.unitary(ps), 2), 3).tolist()))

    for row in out:
        print(*row)


if __name__ == "__main__":
    reproducers()
